"""Coverage-guided fuzzing layer (atheris 3.x on libFuzzer) for the THOROUGH tier of C15, C21 and C28.

    fails = fuzz.campaign(target_name, one_input, seeds, runs, seed, workdir, dictionary=None, info=None)

* `target_name` is a key of TARGETS (the child process finds the same function through that table).
* `one_input(data: bytes)` carries the SEMANTIC oracle of the property.  It returns a short outcome label (a string,
  counted in the outcome histogram) when the input is uninteresting or the property held, and raises
  `fuzz.Failure(message, bucket)` when the property is violated.  bucket = the root-cause key (exception type +
  innermost ppci frame, or the class of the difference).  Any other exception escaping it is a harness defect.
* two short campaigns are run (concurrently): one from an empty corpus, one from `seeds`; each in a CHILD process
  (`/venv/bin/python -m vf.fuzz_child ...`; atheris.Fuzz() never returns and atexit handlers do not run) with
  `-runs=N -seed=S -max_len=4096 -artifact_prefix=<workdir>/...`, ppci imported under
  `atheris.instrument_imports(include=["ppci"])`.
* the child does not let a Failure stop libFuzzer: it stores the input as `fail-<sha1>` next to libFuzzer's own artifacts
  (crash-/timeout-/oom-, which do end a run; the run is then restarted with the remaining budget; they are counted in
  the evidence and never re-run) and keeps the smallest input per bucket.  The parent collects the fail- artifacts,
  re-runs each through `one_input` WITHOUT atheris (confirmation), minimises the confirmed ones by line and byte
  deletion, keeps one per bucket and returns [(input bytes, message)].
* each campaign is spent in `rounds` libFuzzer runs over one corpus directory; between the runs the corpus is distilled
  to the units the target's `<function>_keep(label)` accepts (coverage guidance alone fills the corpus with rejected
  inputs - every new error path is new coverage - while the semantic oracles only speak about accepted inputs).
* `info` (a dict) receives the campaign statistics: executions, corpus growth, coverage, outcome histogram.

A case for the runner is {"fuzz": target_name, "input_hex": ...}; `fuzz.replay_case(case, one_input)` evaluates it.

If atheris cannot be imported by the child interpreter `campaign` raises ImportError (callers record the note
"atheris unavailable"; never a failure).
"""

import collections
import hashlib
import json
import os
import re
import subprocess
import sys
import threading
import traceback

from . import core

DEPS = os.path.join(core.VERIF, ".deps")
PYTHON = "/venv/bin/python" if os.access("/venv/bin/python", os.X_OK) else sys.executable
MAX_LEN = 4096

# target name -> (module, function).  The function must be importable by name in the child.
TARGETS = {
    "C15.reader": ("vf.props.c15", "fuzz_reader"),
    "C21.binary": ("vf.props.c21", "fuzz_binary"),
    "C28.cfront": ("vf.props.c28", "fuzz_cfront"),
}


class Failure(Exception):
    """Raised by a fuzz target: the property is violated on this input."""

    def __init__(self, message, bucket):
        super().__init__(message)
        self.message = message
        self.bucket = str(bucket)


def runs(default):
    """Executions per campaign: VERIF_FUZZ_RUNS overrides the tier's default."""
    v = os.environ.get("VERIF_FUZZ_RUNS", "").strip()
    return int(v) if v else default


def only(ctx):
    """VERIF_FUZZ_ONLY=1 (development aid, thorough tier only): skip the generated-input search and run just the fuzz
    layer, e.g. to try a mutant of the layer without waiting for the 20-30 minute Hypothesis part.  The evidence of such
    a run is incomplete by design (write it to a scratch VERIF_EVIDENCE_DIR)."""
    if ctx.quick or os.environ.get("VERIF_FUZZ_ONLY", "") not in ("1", "yes", "true"):
        return False
    ctx.stats.notes.append("VERIF_FUZZ_ONLY: generated-input search skipped, fuzz layer only")
    return True


def ppci_frame(e):
    """innermost ppci frame of an exception: 'irutils/reader.py:parse_type' ('?' if none)"""
    where = "?"
    for fr in traceback.extract_tb(e.__traceback__):
        fn = fr.filename.replace("\\", "/")
        if "/ppci/" in fn and "/verif/" not in fn:
            where = "%s:%s" % (fn.split("/ppci/")[-1], fr.name)
    return where


def exc_bucket(e):
    return "%s@%s" % (type(e).__name__, ppci_frame(e))


def case(target_name, data):
    return {"fuzz": target_name, "input_hex": bytes(data).hex()}


def is_case(c):
    return isinstance(c, dict) and "fuzz" in c and "input_hex" in c


def case_bytes(c):
    return bytes.fromhex(c["input_hex"])


def evaluate(one_input, data):
    """-> (label, None, None) | (None, message, bucket)"""
    try:
        return one_input(data), None, None
    except Failure as f:
        return None, f.message, f.bucket


def replay_case(c, one_input):
    """The body of a property's replay() for a fuzz case."""
    return evaluate(one_input, case_bytes(c))[1]


# ---------------------------------------------------------------------------
# minimisation


def _ddmin(parts, join, pred, budget):
    """Remove chunks of `parts` (halving chunk sizes down to 1) while pred(join(parts)) stays true."""
    n = max(1, len(parts) // 2)
    while budget[0] > 0:
        i = 0
        changed = False
        while i < len(parts) and budget[0] > 0:
            cand = parts[:i] + parts[i + n :]
            budget[0] -= 1
            if pred(join(cand)):
                parts = cand
                changed = True
            else:
                i += n
        if n > 1:
            n //= 2
        elif not changed:
            break
    return parts


def minimise(data, pred, max_evals=400):
    """Simple line deletion, then byte deletion.  pred(bytes) -> bool (still the same failure)."""
    budget = [max_evals]
    lines = data.split(b"\n")
    if len(lines) > 1:
        lines = _ddmin(lines, b"\n".join, pred, budget)
        data = b"\n".join(lines)
    if len(data) <= 600:
        units = [data[i : i + 1] for i in range(len(data))]
        units = _ddmin(units, b"".join, pred, budget)
        data = b"".join(units)
    return data


# ---------------------------------------------------------------------------
# the campaigns

_ATHERIS_OK = [None]


def child_env():
    env = dict(os.environ)
    pp = [core.VERIF, DEPS] + [p for p in env.get("PYTHONPATH", "").split(os.pathsep) if p and p not in (core.VERIF, DEPS)]
    env["PYTHONPATH"] = os.pathsep.join(pp)
    env.setdefault("PYTHONHASHSEED", "0")
    env["PYTHONDONTWRITEBYTECODE"] = "1"
    return env


def require_atheris():
    if _ATHERIS_OK[0] is None:
        try:
            p = subprocess.run([PYTHON, "-c", "import atheris"], env=child_env(), capture_output=True, timeout=300)
            _ATHERIS_OK[0] = p.returncode == 0
        except Exception:
            _ATHERIS_OK[0] = False
    if not _ATHERIS_OK[0]:
        raise ImportError("atheris unavailable (run /verif/setup.sh)")


def _nfiles(d):
    return len([n for n in os.listdir(d) if os.path.isfile(os.path.join(d, n))])


def _parse_log(path):
    """Final figures from libFuzzer's stderr."""
    res = {}
    try:
        with open(path, "r", errors="replace") as f:
            txt = f.read()
    except OSError:
        return res
    mo = re.findall(r"stat::number_of_executed_units:\s*(\d+)", txt)
    if mo:
        res["executions"] = int(mo[-1])
    mo = re.findall(r"^#(\d+)\s+\w+\s+cov: (\d+) ft: (\d+) corp: (\d+)/", txt, re.M)
    if mo:
        last = mo[-1]
        res.setdefault("executions", int(last[0]))
        res.update(cov=int(last[1]), ft=int(last[2]), corpus_units=int(last[3]))
    init = re.search(r"^#(\d+)\s+INITED\s+cov: (\d+) ft: (\d+)", txt, re.M)
    if init:
        res["cov_after_seeds"] = int(init.group(2))
    return res


def _one_campaign(target_name, mode, seeds, nruns, seed, root, dictionary, budget_s, unit_timeout_s, out, extra_args=(), rounds=1):
    """Runs in a thread; only waits for child processes.  Fills out[mode]."""
    d = os.path.join(root, mode)
    corpus, art, warm = os.path.join(d, "corpus"), os.path.join(d, "art"), os.path.join(d, "warm")
    for x in (corpus, art, warm):
        os.makedirs(x, exist_ok=True)
    for i, s in enumerate(seeds):
        with open(os.path.join(corpus, "seed-%03d" % i), "wb") as f:
            f.write(s)
    res = {"runs_requested": nruns, "seeds": len(seeds), "corpus_before": _nfiles(corpus), "executions": 0, "restarts": 0, "outcomes": collections.Counter(),
           "libfuzzer_artifacts": [], "notes": []}  # fmt: skip
    args_common = ["-max_len=%d" % MAX_LEN, "-artifact_prefix=%s/" % art, "-print_final_stats=1",
                   "-timeout=%d" % unit_timeout_s, "-rss_limit_mb=4096", "-verbosity=1"]  # fmt: skip
    args_common += list(extra_args)
    if not seeds:
        # from an empty corpus libFuzzer otherwise raises the length limit very slowly (4, 8, ... bytes):
        # dictionary productions of 30-60 bytes could not even be inserted during a short campaign
        args_common.append("-len_control=0")
    if dictionary:
        dpath = os.path.join(d, "dict.txt")
        with open(dpath, "w") as f:
            for tok in dictionary:
                f.write('"%s"\n' % "".join("\\x%02x" % b for b in bytes(tok)))
        args_common.append("-dict=" + dpath)
    # the budget is spent in `rounds` libFuzzer runs over the same corpus directory; before every run but the first the
    # child distils the corpus (fuzz_child: only units the target's <function>_keep(label) accepts stay).  Coverage
    # guidance alone fills the corpus with REJECTED inputs (every new error path is new coverage) and the semantic
    # oracles only speak about accepted ones
    rounds = max(1, min(rounds, nruns // 200 or 1))
    pending = [nruns // rounds + (1 if i < nruns % rounds else 0) for i in range(rounds)]
    time_left = float(budget_s)
    attempt = 0
    res["rounds"] = rounds
    res["distilled"] = []
    import time

    while pending and attempt < rounds + 6 and time_left > 5:
        attempt += 1
        remaining = pending[0]
        stats_path = os.path.join(d, "stats-%d.json" % attempt)
        log_path = os.path.join(d, "log-%d.txt" % attempt)
        cmd = [PYTHON, "-m", "vf.fuzz_child", target_name, stats_path, art, warm, corpus, "-runs=%d" % remaining, "-max_total_time=%d" % int(time_left)]
        cmd += ["-seed=%d" % ((seed + 7919 * attempt) & 0x7FFFFFFF or 1)] + args_common
        env = child_env()
        env["VERIF_FUZZ_DISTILL"] = "1" if attempt > 1 else "0"
        t0 = time.time()
        with open(log_path, "wb") as log:
            try:
                p = subprocess.run(cmd, env=env, stdout=log, stderr=subprocess.STDOUT, stdin=subprocess.DEVNULL, cwd=core.VERIF, timeout=time_left + 600)
                rc = p.returncode
            except subprocess.TimeoutExpired:
                rc = "killed (wall clock)"
        time_left -= time.time() - t0
        st = {}
        try:
            with open(stats_path) as f:
                st = json.load(f)
        except (OSError, ValueError):
            pass
        lg = _parse_log(log_path)
        done = max(int(st.get("n", 0)), int(lg.get("executions", 0)))
        res["executions"] += done
        res["outcomes"].update(st.get("hist", {}))
        for k in ("cov", "ft", "corpus_units"):
            if k in lg:
                res[k] = max(res.get(k, 0), lg[k]) if k != "corpus_units" else lg[k]
        if "cov_after_seeds" in lg:
            res.setdefault("cov_after_seeds", lg["cov_after_seeds"])
        if st.get("distilled"):
            res["distilled"].append(st["distilled"])
        if st.get("harness_error"):
            res["harness_error"] = st["harness_error"]
            break
        if not st and not lg:
            with open(log_path, "r", errors="replace") as f:
                tail = f.read()[-1500:]
            res["harness_error"] = "fuzz child produced no statistics (exit %s):\n%s" % (rc, tail)
            break
        if rc == 0:
            pending.pop(0)  # this round's budget is used up (runs or time)
            continue
        # libFuzzer stopped on an artifact of its own (timeout, oom, crash in the target): go on with the rest
        res["restarts"] += 1
        pending[0] = remaining - max(done, 1)
        if pending[0] <= 0:
            pending.pop(0)
    res["stopped_by_time"] = bool(res["executions"] < nruns and time_left <= 5)
    res["corpus_after"] = _nfiles(corpus)
    res["artifacts"] = sorted(os.path.join(art, n) for n in os.listdir(art) if not n.endswith(".json"))
    top = res["outcomes"].most_common(80)
    rest = sum(res["outcomes"].values()) - sum(v for _, v in top)
    res["outcomes"] = dict(sorted(top))
    if rest:
        res["outcomes"]["(other labels)"] = rest
    out[mode] = res


def campaign(target_name, one_input, seeds, runs, seed, workdir, dictionary=None, info=None, budget_s=None, unit_timeout_s=60, min_evals=400,
             libfuzzer_args=(), rounds=4):
    """See the module docstring.  Returns [(input bytes, message)], one per confirmed root cause."""
    if target_name not in TARGETS:
        raise core.HarnessError("unknown fuzz target %r" % (target_name,))
    require_atheris()
    if budget_s is None:
        budget_s = float(os.environ.get("VERIF_FUZZ_TIME", "1500"))
    seeds = [bytes(s) for s in seeds if 0 < len(s) <= MAX_LEN]
    root = os.path.join(workdir, "fuzz-" + re.sub(r"\W+", "_", target_name))
    os.makedirs(root, exist_ok=True)
    out = {}
    threads = []
    for mode, ss, sd in (("empty", [], core.subseed(seed, target_name, "empty")), ("seeded", seeds, core.subseed(seed, target_name, "seeded"))):
        # a few seeds warm the target up inside the child (lazy ppci imports happen under instrumentation)
        wd = os.path.join(root, mode, "warm")
        os.makedirs(wd, exist_ok=True)
        for i, s in enumerate(seeds[:3]):
            with open(os.path.join(wd, "w%d" % i), "wb") as f:
                f.write(s)
        t = threading.Thread(target=_one_campaign, args=(target_name, mode, ss, runs, sd, root, dictionary, budget_s, unit_timeout_s, out, tuple(libfuzzer_args), rounds))
        t.start()
        threads.append(t)
    for t in threads:
        t.join()
    summary = {"target": target_name, "runs_per_campaign": runs, "campaigns": {}, "confirmed": 0, "unreproduced": 0, "buckets": {}}
    confirmed = {}  # bucket -> (data, msg)
    for mode in ("empty", "seeded"):
        res = out.get(mode)
        if res is None:
            raise core.HarnessError("fuzz campaign %s/%s did not report" % (target_name, mode))
        if res.get("harness_error"):
            raise core.HarnessError("fuzz target %s (%s corpus): %s" % (target_name, mode, res["harness_error"]))
        for path in res.pop("artifacts"):
            name = os.path.basename(path)
            with open(path, "rb") as f:
                data = f.read()
            if not name.startswith("fail-"):
                # libFuzzer's own artifacts (timeout-, oom-, crash-: resource exhaustion or a dying interpreter, none of them
                # a statement of the properties) are counted, never re-run inside the parent
                res["libfuzzer_artifacts"].append("%s (%d bytes)" % (name.split("-")[0], len(data)))
                continue
            try:
                label, msg, bucket = evaluate(one_input, data)
            except Exception:
                raise core.HarnessError("fuzz target %s raised on artifact %s:\n%s" % (target_name, name, traceback.format_exc()))
            if msg is None:
                if name.startswith("fail-"):
                    summary["unreproduced"] += 1
                continue
            summary["buckets"][bucket] = summary["buckets"].get(bucket, 0) + 1
            if bucket not in confirmed or len(data) < len(confirmed[bucket][0]):
                confirmed[bucket] = (data, msg)
        res["corpus_growth"] = res["corpus_after"] - res["corpus_before"]
        summary["campaigns"][mode] = res
    results = []
    for bucket in sorted(confirmed):
        data, msg = confirmed[bucket]

        def same(d, bucket=bucket):
            try:
                return evaluate(one_input, d)[2] == bucket
            except Exception:
                return False

        small = minimise(data, same, min_evals)
        m2 = evaluate(one_input, small)[1]
        if m2 is None:  # cannot happen with a deterministic target; keep the original then
            small, m2 = data, msg
        results.append((small, m2))
    summary["confirmed"] = len(results)
    if info is not None:
        info.update(summary)
    return results


def collect(strategy, n, seed, keep=None):
    """n examples of a Hypothesis strategy, deterministically (seed corpora)."""
    got = []

    def prop(c):
        if keep is None or keep(c):
            got.append(c)
        return None

    core.hyp_search(strategy, prop, n, seed, core.Stats(), shrink=False)
    return got
