"""C integer constant expressions: JSON trees, a C renderer and two evaluators (used by C27/C28).

Tree nodes (plain JSON lists):
    ["lit", text]            integer or character literal exactly as written ("0x7fUL", "'a'", "'\\n'")
    ["enum", name]           enumerator of the case's preamble enum (type int)
    ["un", op, a]            op in  - ~ + !
    ["bin", op, a, b]        op in  + - * / % << >> & | ^ < > <= >= == != && ||
    ["cast", tname, a]       tname: an integer type name of TYPES
    ["sizeoft", tname]       sizeof(type); tname may be any key of SIZEOF_TYPES
    ["sizeofe", a]           sizeof(expression)
    ["tern", c, a, b]

`ref_eval` is the reference: C99 semantics on the LP64 model shared by gcc/x86-64 and ppci's x86_64
target (char signed, 2's complement, int 32, long = long long 64, arithmetic >> on negatives,
modulo conversion to signed types).  It raises `UB` where C leaves the expression undefined or
where gcc diagnoses it (signed overflow, division by zero, bad shift counts, left shift of a
negative value or into/past the sign bit).

`naive_eval` is an explanatory MODEL of a defective evaluator ("unbounded Python integers, no
conversions"), parameterised by which individual defects are switched on; it is only used to
attribute an observed wrong value to a known finding.
"""

# name -> (bits, signed, rank)
TYPES = {
    "char": (8, True, 1),
    "signed char": (8, True, 1),
    "unsigned char": (8, False, 1),
    "short": (16, True, 2),
    "unsigned short": (16, False, 2),
    "int": (32, True, 3),
    "unsigned int": (32, False, 3),
    "long": (64, True, 4),
    "unsigned long": (64, False, 4),
    "long long": (64, True, 5),
    "unsigned long long": (64, False, 5),
}
INT_TYPES = list(TYPES)

SIZEOF_TYPES = {t: TYPES[t][0] // 8 for t in TYPES}
SIZEOF_TYPES.update(
    {
        "int[3]": 12,
        "char[7]": 7,
        "short[2][5]": 20,
        "char *": 8,
        "int *": 8,
        "long *[2]": 16,
        "void *": 8,
        "int (*)(void)": 8,
        "unsigned": 4,
        "long int": 8,
        "short int": 2,
        "unsigned long int": 8,
        "long unsigned": 8,
        "signed": 4,
        "long long int": 8,
    }
)


class UB(Exception):
    """The expression is undefined (or diagnosed by gcc); not in the property's domain."""


def bits(t):
    return TYPES[t][0]


def signed(t):
    return TYPES[t][1]


def rank(t):
    return TYPES[t][2]


def tmin(t):
    return -(1 << (bits(t) - 1)) if signed(t) else 0


def tmax(t):
    return (1 << (bits(t) - 1)) - 1 if signed(t) else (1 << bits(t)) - 1


def fits(v, t):
    return tmin(t) <= v <= tmax(t)


def convert(v, t):
    """Conversion to integer type t (modulo 2^N, the implementation-defined choice of gcc and ppci)."""
    b = bits(t)
    v &= (1 << b) - 1
    if signed(t) and v >> (b - 1):
        v -= 1 << b
    return v


def promote(t):
    if rank(t) < 3:
        return "int"  # every narrower type fits in int on this model
    return t


def unsigned_of(t):
    return {"int": "unsigned int", "long": "unsigned long", "long long": "unsigned long long"}.get(t, t)


def common(a, b):
    """Usual arithmetic conversions (C99 6.3.1.8) on promoted types."""
    a, b = promote(a), promote(b)
    if a == b:
        return a
    if signed(a) == signed(b):
        return a if rank(a) >= rank(b) else b
    u, s = (a, b) if not signed(a) else (b, a)
    if rank(u) >= rank(s):
        return u
    if bits(s) > bits(u):
        return s
    return unsigned_of(s)


# -- literals ---------------------------------------------------------------

CHAR_LITS = {
    "'a'": 97,
    "'Z'": 90,
    "'0'": 48,
    "' '": 32,
    "'~'": 126,
    "'\\n'": 10,
    "'\\0'": 0,
    "'\\\\'": 92,
    "'\\''": 39,
    "'\\x7f'": 127,
    "'\\377'": -1,
    "'\\x80'": -128,
    "'\\t'": 9,
}


def parse_literal(text):
    """-> (ctype, value) of an integer/character literal, C99 6.4.4.1 / 6.4.4.4.  Raises UB if gcc would diagnose."""
    if text.startswith("'"):
        return "int", CHAR_LITS[text]
    s = text.lower()
    body = s.rstrip("ul")
    suf = s[len(body) :]
    if body.startswith("0x"):
        v, dec = int(body[2:], 16), False
    elif body.startswith("0") and len(body) > 1:
        v, dec = int(body[1:], 8), False
    else:
        v, dec = int(body, 10), True
    uns = "u" in suf
    nl = suf.count("l")
    if uns:
        cands = ["unsigned int", "unsigned long", "unsigned long long"][nl:]
    elif dec:
        cands = ["int", "long", "long long"][nl:]
    else:
        cands = ["int", "unsigned int", "long", "unsigned long", "long long", "unsigned long long"][2 * nl :]
    for t in cands:
        if fits(v, t):
            return t, v
    raise UB("literal too large")


def make_literal(v, t, base, upper=False):
    """Text of a literal of value v (>= 0) that has exactly type t, or None if impossible in that base."""
    assert v >= 0
    if rank(t) < 3:
        return None
    body = {10: "%d", 16: "0x%x", 8: "0%o"}[base] % v
    if base == 8 and v == 0:
        body = "0"
    suf = ("u" if not signed(t) else "") + {3: "", 4: "l", 5: "ll"}[rank(t)]
    if upper:
        suf = suf.upper()
        body = body.upper().replace("0X", "0x")
    text = body + suf
    try:
        if parse_literal(text) == (t, v):
            return text
    except UB:
        pass
    return None


# -- reference evaluation -----------------------------------------------------


def ref_eval(e, enums=None, floor=False):
    """-> (ctype, value).  enums: {name: value}.  floor=True: the same evaluator with the single defect that
    `/` rounds towards minus infinity (explanatory model of a known finding)."""
    k = e[0]
    if k == "lit":
        return parse_literal(e[1])
    if k == "enum":
        return "int", enums[e[1]]
    if k == "sizeoft":
        return "unsigned long", SIZEOF_TYPES[e[1]]
    if k == "sizeofe":
        t, _ = ref_eval(e[1], enums, floor)
        return "unsigned long", bits(t) // 8
    if k == "cast":
        _, v = ref_eval(e[2], enums, floor)
        return e[1], convert(v, e[1])
    if k == "un":
        op = e[1]
        t, v = ref_eval(e[2], enums, floor)
        if op == "!":
            return "int", int(v == 0)
        t = promote(t)
        if op == "+":
            return t, v
        if op == "~":
            return t, convert(~v, t)
        if op == "-":
            r = -v
            if signed(t) and not fits(r, t):
                raise UB("signed overflow in negation")
            return t, convert(r, t)
        raise ValueError(op)
    if k == "tern":
        _, c = ref_eval(e[1], enums, floor)
        ta, va = ref_eval(e[2], enums, floor)  # both arms must be defined: gcc diagnoses the unevaluated arm too
        tb, vb = ref_eval(e[3], enums, floor)
        t = common(ta, tb)
        return t, convert(va if c else vb, t)
    if k == "bin":
        op = e[1]
        ta, va = ref_eval(e[2], enums, floor)
        tb, vb = ref_eval(e[3], enums, floor)
        if op in ("&&", "||"):
            return "int", int(bool(va) and bool(vb)) if op == "&&" else int(bool(va) or bool(vb))
        if op in ("<<", ">>"):
            t = promote(ta)
            va = convert(va, t)
            if vb < 0 or vb >= bits(t):
                raise UB("shift count out of range")
            if op == ">>":
                return t, va >> vb
            if signed(t):
                if va < 0:
                    raise UB("left shift of a negative value")
                if (va << vb) > tmax(t):
                    raise UB("left shift overflows")
                return t, va << vb
            return t, convert(va << vb, t)
        t = common(ta, tb)
        va, vb = convert(va, t), convert(vb, t)
        if op in ("<", ">", "<=", ">=", "==", "!="):
            r = {"<": va < vb, ">": va > vb, "<=": va <= vb, ">=": va >= vb, "==": va == vb, "!=": va != vb}[op]
            return "int", int(r)
        if op in ("/", "%"):
            if vb == 0:
                raise UB("division by zero")
            q = abs(va) // abs(vb)
            if (va < 0) != (vb < 0):
                q = -q
            r = q if op == "/" else va - q * vb
            if floor and op == "/":
                r = va // vb
            if not fits(q, t):
                raise UB("signed overflow in division")
            return t, r
        r = {"+": va + vb, "-": va - vb, "*": va * vb, "&": va & vb, "|": va | vb, "^": va ^ vb}[op]
        if signed(t) and not fits(r, t):
            raise UB("signed overflow in %s" % op)
        return t, convert(r, t)
    raise ValueError(k)


# -- explanatory model of ppci's evaluator ------------------------------------
#
# model_eval mirrors ppci's constant evaluation with individual defects ("quirks") switched on:
#   missing   % < > <= >= == != && || ! ?: are not implemented (exception / "must be constant" diagnostic)
#   floor     / rounds towards minus infinity
#   noconv    values are unbounded Python integers: casts and arithmetic never reduce to the type
#   enumtype  an enumeration constant has the enum type, which outranks every integer type and is not
#             an integer type for the evaluator (no shifts/bit operators, true division)
#   charlit   a character constant has type char and the value 0..255
#   littype   literal typing: a suffixed literal must fit the suffix's type (else rejected), an unsuffixed
#             decimal literal may get an unsigned type
#   optypes   unary - ~ + do not promote, << >> give the common type of both operands, ?: does not
#             promote, long long outranks unsigned long
#   sizet     sizeof yields (signed) long
# With no quirk it equals ref_eval on every defined expression (checked by the self test of C27).

QUIRKS = ("missing", "floor", "noconv", "enumtype", "charlit", "littype", "optypes", "sizet")  # + "eqprec" (eqprec_shape), applied by the caller

_PPCI_RANK = {"char": 30, "signed char": 30, "unsigned char": 31, "short": 40, "unsigned short": 41, "int": 50,
              "unsigned int": 51, "long": 60, "unsigned long": 61, "long long": 70, "unsigned long long": 71, "enum": 80}  # fmt: skip


class ModelExc(Exception):
    """The modelled evaluator stops: kind in missing | enum-op | literal-rejected | ZeroDivisionError | ValueError | unknown."""

    def __init__(self, kind):
        super().__init__(kind)
        self.kind = kind


def _m_literal(text, Q):
    if text.startswith("'"):
        v = CHAR_LITS[text]
        if "charlit" in Q:
            return "char", v & 0xFF
        return "int", v
    if "littype" not in Q:
        try:
            return parse_literal(text)
        except UB:
            raise ModelExc("unknown")
    s = text.lower()
    body = s.rstrip("ul")
    suf = s[len(body) :]
    if body.startswith("0x"):
        v = int(body[2:], 16)
    elif body.startswith("0"):
        v = int(body, 8)
    else:
        v = int(body, 10)
    if suf:
        t = ("unsigned " if "u" in suf else "") + {0: "int", 1: "long", 2: "long long"}[suf.count("l")]
        if v > tmax(t):
            raise ModelExc("literal-rejected")
        return t, v
    for t in ("int", "unsigned int", "long", "unsigned long", "long long", "unsigned long long"):
        if v <= tmax(t):
            return t, v
    raise ModelExc("literal-rejected")


def _m_promote(t, Q):
    if t != "enum" and rank(t) < 3:
        return "int"
    return t


def _m_maxrank(a, b):
    return a if _PPCI_RANK[a] >= _PPCI_RANK[b] else b


def _m_common(a, b, Q):
    """Common type of two promoted operand types."""
    if a == "enum" or b == "enum":
        return "enum"
    if "optypes" in Q:
        return _m_maxrank(a, b)
    return common(a, b)


def _m_fin(t, v, Q):
    if "noconv" in Q or t == "enum" or not isinstance(v, int):
        return v
    return convert(v, t)


def model_sizeof(t):
    return 4 if t == "enum" else bits(t) // 8


def model_type(e, enums, Q):
    """Type the modelled front end gives to the expression (values play no role except in literals)."""
    k = e[0]
    if k == "lit":
        return _m_literal(e[1], Q)[0]
    if k == "enum":
        return "enum" if "enumtype" in Q else "int"
    if k in ("sizeoft", "sizeofe"):
        return "long" if "sizet" in Q else "unsigned long"
    if k == "cast":
        return e[1]
    if k == "un":
        if e[1] == "!":
            return "int"
        t = model_type(e[2], enums, Q)
        return t if "optypes" in Q else _m_promote(t, Q)
    if k == "tern":
        ta, tb = model_type(e[2], enums, Q), model_type(e[3], enums, Q)
        return _m_maxrank(ta, tb) if ("optypes" in Q or "enum" in (ta, tb)) else common(ta, tb)
    op = e[1]
    if op in ("&&", "||", "<", ">", "<=", ">=", "==", "!="):
        return "int"
    pa, pb = _m_promote(model_type(e[2], enums, Q), Q), _m_promote(model_type(e[3], enums, Q), Q)
    if op in ("<<", ">>") and "optypes" not in Q and "enum" not in (pa, pb):
        return pa
    return _m_common(pa, pb, Q)


def model_eval(e, enums, Q):
    """-> (type, value) as the modelled evaluator computes them; raises ModelExc."""
    for n in walk(e):
        if n[0] == "lit":
            _m_literal(n[1], Q)  # a rejected literal stops the parser before anything is evaluated
    return _model_eval(e, enums, Q)


def _model_eval(e, enums, Q):
    k = e[0]
    szt = "long" if "sizet" in Q else "unsigned long"
    if k == "lit":
        return _m_literal(e[1], Q)
    if k == "enum":
        return ("enum" if "enumtype" in Q else "int"), enums[e[1]]
    if k == "sizeoft":
        return szt, SIZEOF_TYPES[e[1]]
    if k == "sizeofe":
        return szt, model_sizeof(model_type(e[1], enums, Q))
    if k == "cast":
        _, v = _model_eval(e[2], enums, Q)
        return e[1], _m_fin(e[1], int(v), Q)
    if k == "un":
        op = e[1]
        t, v = _model_eval(e[2], enums, Q)
        if op == "!":
            if "missing" in Q:
                raise ModelExc("missing")
            return "int", int(not v)
        if "optypes" not in Q:
            t = _m_promote(t, Q)
        if op == "+":
            return t, v
        if op == "~" and not isinstance(v, int):
            raise ModelExc("unknown")
        return t, _m_fin(t, -v if op == "-" else ~v, Q)
    if k == "tern":
        if "missing" in Q:
            raise ModelExc("missing")
        _, c = _model_eval(e[1], enums, Q)
        t = model_type(e, enums, Q)
        return t, _m_fin(t, _model_eval(e[2] if c else e[3], enums, Q)[1], Q)  # only the selected arm is evaluated
    op = e[1]
    ta, va = _model_eval(e[2], enums, Q)
    if op in ("&&", "||") and "missing" not in Q:
        if bool(va) == (op == "||"):
            return "int", int(op == "||")  # short circuit
        return "int", int(bool(_model_eval(e[3], enums, Q)[1]))
    tb, vb = _model_eval(e[3], enums, Q)
    if op in MISSING_BINOPS and "missing" in Q:
        raise ModelExc("missing")
    if op in ("<", ">", "<=", ">=", "==", "!="):
        t = _m_maxrank(ta, tb) if ("optypes" in Q or "enum" in (ta, tb)) else common(ta, tb)
        va, vb = _m_fin(t, va, Q), _m_fin(t, vb, Q)
        return "int", int({"<": va < vb, ">": va > vb, "<=": va <= vb, ">=": va >= vb, "==": va == vb, "!=": va != vb}[op])
    pa, pb = _m_promote(ta, Q), _m_promote(tb, Q)
    if op in ("<<", ">>") and "optypes" not in Q and "enum" not in (pa, pb):
        t = pa
    else:
        t = _m_common(pa, pb, Q)
        vb = _m_fin(t, vb, Q)
    va = _m_fin(t, va, Q)
    if t == "enum":
        if op in ("<<", ">>", "&", "|", "^", "%"):
            raise ModelExc("enum-op")
        if op == "/":
            raise ModelExc("unknown")  # done in floating point; not modelled
    if not (isinstance(va, int) and isinstance(vb, int)):
        raise ModelExc("unknown")
    if op in ("<<", ">>"):
        if vb < 0:
            raise ModelExc("ValueError")
        if vb > 4096:
            raise ModelExc("unknown")
        r = va << vb if op == "<<" else va >> vb
    elif op in ("/", "%"):
        if vb == 0:
            raise ModelExc("ZeroDivisionError")
        if "floor" in Q:
            q = va // vb
        else:
            q = abs(va) // abs(vb)
            q = -q if (va < 0) != (vb < 0) else q
        r = q if op == "/" else va - q * vb
    else:
        r = {"+": va + vb, "-": va - vb, "*": va * vb, "&": va & vb, "|": va | vb, "^": va ^ vb}[op]
    return t, _m_fin(t, r, Q)


MISSING_BINOPS = ("%", "<", ">", "<=", ">=", "==", "!=", "&&", "||")


# -- rendering ------------------------------------------------------------------

PREC = {
    "*": 13, "/": 13, "%": 13, "+": 12, "-": 12, "<<": 11, ">>": 11,
    "<": 10, ">": 10, "<=": 10, ">=": 10, "==": 9, "!=": 9,
    "&": 8, "^": 7, "|": 6, "&&": 5, "||": 4,
}  # fmt: skip


def render(e, minparen=False):
    return _render(e, minparen)[0]


def _render(e, mp):
    """-> (text, precedence): 15 primary, 14 unary/cast, 13..4 binary, 3 conditional."""
    k = e[0]
    if k == "lit":
        return e[1], 15
    if k == "enum":
        return e[1], 15
    if k == "sizeoft":
        return "sizeof(%s)" % e[1], 14
    if k == "sizeofe":
        return "sizeof(%s)" % _render(e[1], mp)[0], 14
    if k == "cast":
        s, p = _render(e[2], mp)
        if p < 14 or not mp:
            s = "(%s)" % s
        return "(%s)%s" % (e[1], s), 14
    if k == "un":
        s, p = _render(e[2], mp)
        if p < 14 or not mp:
            s = "(%s)" % s
        elif s[0] == e[1] or (e[1] in "+-" and s[0] in "+-"):
            s = " " + s  # never build -- or ++ or -+... tokens
        return e[1] + s, 14
    if k == "tern":
        c, pc = _render(e[1], mp)
        a, _ = _render(e[2], mp)
        b, pb = _render(e[3], mp)
        if pc <= 3 or not mp:
            c = "(%s)" % c
        if not mp:
            a = "(%s)" % a
        if pb < 3 or not mp:
            b = "(%s)" % b
        return "%s ? %s : %s" % (c, a, b), 3
    op = e[1]
    pr = PREC[op]
    a, pa = _render(e[2], mp)
    b, pb = _render(e[3], mp)
    if pa < pr or not mp:
        a = "(%s)" % a
    if pb <= pr or not mp:
        b = "(%s)" % b
    return "%s %s %s" % (a, op, b), pr


_EQ = ("==", "!=")
_REL = ("<", ">", "<=", ">=")


def eqprec_shape(e):
    """The tree a parser builds from the minimally parenthesised text of e when == and != have the same
    precedence as < > <= >= (all left associative): model of a known finding.  `5 == 1 <= 3` -> (5 == 1) <= 3."""
    k = e[0]
    if k in ("lit", "enum", "sizeoft"):
        return e
    if k in ("un", "cast"):
        return [k, e[1], eqprec_shape(e[2])]
    if k == "sizeofe":
        return [k, eqprec_shape(e[1])]
    if k == "tern":
        return [k] + [eqprec_shape(x) for x in e[1:]]
    if e[1] not in _EQ + _REL:
        return ["bin", e[1], eqprec_shape(e[2]), eqprec_shape(e[3])]
    operands, ops = _flatten_cmp(e)
    acc = operands[0]
    for op, x in zip(ops, operands[1:]):
        acc = ["bin", op, acc, x]
    return acc


def _flatten_cmp(e):
    """In-order operands/operators of the comparison chain that the renderer prints without parentheses."""
    op = e[1]
    pr = PREC[op]
    out_operands, out_ops = [], []
    for side, child in ((0, e[2]), (1, e[3])):
        inline = child[0] == "bin" and child[1] in _EQ + _REL and (PREC[child[1]] >= pr if side == 0 else PREC[child[1]] > pr)
        if inline:
            a, b = _flatten_cmp(child)
            out_operands += a
            out_ops += b
        else:
            out_operands.append(eqprec_shape(child))
        if side == 0:
            out_ops.append(op)
    return out_operands, out_ops


def walk(e):
    yield e
    k = e[0]
    if k in ("un", "cast"):
        yield from walk(e[2])
    elif k == "sizeofe":
        yield from walk(e[1])
    elif k == "bin":
        yield from walk(e[2])
        yield from walk(e[3])
    elif k == "tern":
        for s in e[1:]:
            yield from walk(s)


def features(e):
    """Set of strings naming the operators/forms used."""
    out = set()
    for n in walk(e):
        k = n[0]
        if k in ("un", "bin"):
            out.add(k + n[1])
        elif k == "lit":
            out.add("charlit" if n[1].startswith("'") else "lit")
        else:
            out.add(k)
    return out
