"""C integer constant expressions: JSON trees, a C renderer and two evaluators (used by C27/C28).

Tree nodes (plain JSON lists):
    ["lit", text]            integer or character literal exactly as written ("0x7fUL", "'a'", "'\\n'")
    ["enum", name]           enumerator of the case's preamble enum (type int)
    ["un", op, a]            op in  - ~ + !
    ["bin", op, a, b]        op in  + - * / % << >> & | ^ < > <= >= == != && ||
    ["cast", tname, a]       tname: an integer type name of TYPES
    ["sizeoft", tname]       sizeof(type); tname may be any key of SIZEOF_TYPES
    ["sizeofe", a]           sizeof(expression)
    ["tern", c, a, b]

`ref_eval` is the reference: C99 semantics on the LP64 model shared by gcc/x86-64 and ppci's x86_64
target (char signed, 2's complement, int 32, long = long long 64, arithmetic >> on negatives,
modulo conversion to signed types).  It raises `UB` where C leaves the expression undefined or
where gcc diagnoses it (signed overflow, division by zero, bad shift counts, left shift of a
negative value or into/past the sign bit).

`naive_eval` is an explanatory MODEL of a defective evaluator ("unbounded Python integers, no
conversions"), parameterised by which individual defects are switched on; it is only used to
attribute an observed wrong value to a known finding.
"""

# name -> (bits, signed, rank)
TYPES = {
    "char": (8, True, 1),
    "signed char": (8, True, 1),
    "unsigned char": (8, False, 1),
    "short": (16, True, 2),
    "unsigned short": (16, False, 2),
    "int": (32, True, 3),
    "unsigned int": (32, False, 3),
    "long": (64, True, 4),
    "unsigned long": (64, False, 4),
    "long long": (64, True, 5),
    "unsigned long long": (64, False, 5),
}
INT_TYPES = list(TYPES)

SIZEOF_TYPES = {t: TYPES[t][0] // 8 for t in TYPES}
SIZEOF_TYPES.update(
    {
        "int[3]": 12,
        "char[7]": 7,
        "short[2][5]": 20,
        "char *": 8,
        "int *": 8,
        "long *[2]": 16,
        "void *": 8,
        "int (*)(void)": 8,
        "unsigned": 4,
        "long int": 8,
        "short int": 2,
        "unsigned long int": 8,
        "long unsigned": 8,
        "signed": 4,
        "long long int": 8,
    }
)


class UB(Exception):
    """The expression is undefined (or diagnosed by gcc); not in the property's domain."""


def bits(t):
    return TYPES[t][0]


def signed(t):
    return TYPES[t][1]


def rank(t):
    return TYPES[t][2]


def tmin(t):
    return -(1 << (bits(t) - 1)) if signed(t) else 0


def tmax(t):
    return (1 << (bits(t) - 1)) - 1 if signed(t) else (1 << bits(t)) - 1


def fits(v, t):
    return tmin(t) <= v <= tmax(t)


def convert(v, t):
    """Conversion to integer type t (modulo 2^N, the implementation-defined choice of gcc and ppci)."""
    b = bits(t)
    v &= (1 << b) - 1
    if signed(t) and v >> (b - 1):
        v -= 1 << b
    return v


def promote(t):
    if rank(t) < 3:
        return "int"  # every narrower type fits in int on this model
    return t


def unsigned_of(t):
    return {"int": "unsigned int", "long": "unsigned long", "long long": "unsigned long long"}.get(t, t)


def common(a, b):
    """Usual arithmetic conversions (C99 6.3.1.8) on promoted types."""
    a, b = promote(a), promote(b)
    if a == b:
        return a
    if signed(a) == signed(b):
        return a if rank(a) >= rank(b) else b
    u, s = (a, b) if not signed(a) else (b, a)
    if rank(u) >= rank(s):
        return u
    if bits(s) > bits(u):
        return s
    return unsigned_of(s)


# -- literals ---------------------------------------------------------------

CHAR_LITS = {
    "'a'": 97,
    "'Z'": 90,
    "'0'": 48,
    "' '": 32,
    "'~'": 126,
    "'\\n'": 10,
    "'\\0'": 0,
    "'\\\\'": 92,
    "'\\''": 39,
    "'\\x7f'": 127,
    "'\\377'": -1,
    "'\\x80'": -128,
    "'\\t'": 9,
}


def parse_literal(text):
    """-> (ctype, value) of an integer/character literal, C99 6.4.4.1 / 6.4.4.4.  Raises UB if gcc would diagnose."""
    if text.startswith("'"):
        return "int", CHAR_LITS[text]
    s = text.lower()
    body = s.rstrip("ul")
    suf = s[len(body) :]
    if body.startswith("0x"):
        v, dec = int(body[2:], 16), False
    elif body.startswith("0") and len(body) > 1:
        v, dec = int(body[1:], 8), False
    else:
        v, dec = int(body, 10), True
    uns = "u" in suf
    nl = suf.count("l")
    if uns:
        cands = ["unsigned int", "unsigned long", "unsigned long long"][nl:]
    elif dec:
        cands = ["int", "long", "long long"][nl:]
    else:
        cands = ["int", "unsigned int", "long", "unsigned long", "long long", "unsigned long long"][2 * nl :]
    for t in cands:
        if fits(v, t):
            return t, v
    raise UB("literal too large")


def make_literal(v, t, base, upper=False):
    """Text of a literal of value v (>= 0) that has exactly type t, or None if impossible in that base."""
    assert v >= 0
    if rank(t) < 3:
        return None
    body = {10: "%d", 16: "0x%x", 8: "0%o"}[base] % v
    if base == 8 and v == 0:
        body = "0"
    suf = ("u" if not signed(t) else "") + {3: "", 4: "l", 5: "ll"}[rank(t)]
    if upper:
        suf = suf.upper()
        body = body.upper().replace("0X", "0x")
    text = body + suf
    try:
        if parse_literal(text) == (t, v):
            return text
    except UB:
        pass
    return None


# -- reference evaluation -----------------------------------------------------


def ref_eval(e, enums=None):
    """-> (ctype, value).  enums: {name: value}."""
    k = e[0]
    if k == "lit":
        return parse_literal(e[1])
    if k == "enum":
        return "int", enums[e[1]]
    if k == "sizeoft":
        return "unsigned long", SIZEOF_TYPES[e[1]]
    if k == "sizeofe":
        t, _ = ref_eval(e[1], enums)
        return "unsigned long", bits(t) // 8
    if k == "cast":
        _, v = ref_eval(e[2], enums)
        return e[1], convert(v, e[1])
    if k == "un":
        op = e[1]
        t, v = ref_eval(e[2], enums)
        if op == "!":
            return "int", int(v == 0)
        t = promote(t)
        if op == "+":
            return t, v
        if op == "~":
            return t, convert(~v, t)
        if op == "-":
            r = -v
            if signed(t) and not fits(r, t):
                raise UB("signed overflow in negation")
            return t, convert(r, t)
        raise ValueError(op)
    if k == "tern":
        _, c = ref_eval(e[1], enums)
        ta, va = ref_eval(e[2], enums)  # both arms must be defined: gcc diagnoses the unevaluated arm too
        tb, vb = ref_eval(e[3], enums)
        t = common(ta, tb)
        return t, convert(va if c else vb, t)
    if k == "bin":
        op = e[1]
        ta, va = ref_eval(e[2], enums)
        tb, vb = ref_eval(e[3], enums)
        if op in ("&&", "||"):
            return "int", int(bool(va) and bool(vb)) if op == "&&" else int(bool(va) or bool(vb))
        if op in ("<<", ">>"):
            t = promote(ta)
            va = convert(va, t)
            if vb < 0 or vb >= bits(t):
                raise UB("shift count out of range")
            if op == ">>":
                return t, va >> vb
            if signed(t):
                if va < 0:
                    raise UB("left shift of a negative value")
                if (va << vb) > tmax(t):
                    raise UB("left shift overflows")
                return t, va << vb
            return t, convert(va << vb, t)
        t = common(ta, tb)
        va, vb = convert(va, t), convert(vb, t)
        if op in ("<", ">", "<=", ">=", "==", "!="):
            r = {"<": va < vb, ">": va > vb, "<=": va <= vb, ">=": va >= vb, "==": va == vb, "!=": va != vb}[op]
            return "int", int(r)
        if op in ("/", "%"):
            if vb == 0:
                raise UB("division by zero")
            q = abs(va) // abs(vb)
            if (va < 0) != (vb < 0):
                q = -q
            r = q if op == "/" else va - q * vb
            if not fits(q, t):
                raise UB("signed overflow in division")
            return t, r
        r = {"+": va + vb, "-": va - vb, "*": va * vb, "&": va & vb, "|": va | vb, "^": va ^ vb}[op]
        if signed(t) and not fits(r, t):
            raise UB("signed overflow in %s" % op)
        return t, convert(r, t)
    raise ValueError(k)


# -- explanatory model of the defective evaluator ----------------------------


class NaiveError(Exception):
    """The modelled evaluator raises (kind = exception type name)."""

    def __init__(self, kind):
        super().__init__(kind)
        self.kind = kind


def naive_eval(e, enums=None, floor=True, missing=True):
    """Unbounded-integer evaluation without any conversion (casts are no-ops, sizeof is exact).

    floor:   / is Python floor division (else truncating)
    missing: % comparisons && || ! ?: raise NaiveError (else evaluated, untyped)
    sizeof(expression) uses the reference type (the model is about values only).
    """
    k = e[0]
    if k == "lit":
        return parse_literal(e[1])[1]
    if k == "enum":
        return enums[e[1]]
    if k == "sizeoft":
        return SIZEOF_TYPES[e[1]]
    if k == "sizeofe":
        try:
            return bits(ref_eval(e[1], enums)[0]) // 8
        except UB:
            raise NaiveError("ub")
    if k == "cast":
        return naive_eval(e[2], enums, floor, missing)
    if k == "un":
        v = naive_eval(e[2], enums, floor, missing)
        op = e[1]
        if op == "-":
            return -v
        if op == "~":
            return ~v
        if op == "+":
            return v
        if missing:
            raise NaiveError("NotImplementedError")
        return int(v == 0)
    if k == "tern":
        if missing:
            raise NaiveError("NotImplementedError")
        c = naive_eval(e[1], enums, floor, missing)
        a = naive_eval(e[2], enums, floor, missing)
        b = naive_eval(e[3], enums, floor, missing)
        return a if c else b
    op = e[1]
    a = naive_eval(e[2], enums, floor, missing)
    b = naive_eval(e[3], enums, floor, missing)
    if op in ("+", "-", "*", "&", "|", "^"):
        return {"+": a + b, "-": a - b, "*": a * b, "&": a & b, "|": a | b, "^": a ^ b}[op]
    if op in ("<<", ">>"):
        if b < 0 or b > 200:
            raise NaiveError("ValueError")
        return a << b if op == "<<" else a >> b
    if op == "/":
        if b == 0:
            raise NaiveError("ZeroDivisionError")
        if floor:
            return a // b
        q = abs(a) // abs(b)
        return -q if (a < 0) != (b < 0) else q
    if missing:
        raise NaiveError("KeyError")
    if op == "%":
        if b == 0:
            raise NaiveError("ZeroDivisionError")
        q = abs(a) // abs(b)
        q = -q if (a < 0) != (b < 0) else q
        return a - q * b
    if op == "&&":
        return int(bool(a) and bool(b))
    if op == "||":
        return int(bool(a) or bool(b))
    return int({"<": a < b, ">": a > b, "<=": a <= b, ">=": a >= b, "==": a == b, "!=": a != b}[op])


# -- rendering ------------------------------------------------------------------

PREC = {
    "*": 13, "/": 13, "%": 13, "+": 12, "-": 12, "<<": 11, ">>": 11,
    "<": 10, ">": 10, "<=": 10, ">=": 10, "==": 9, "!=": 9,
    "&": 8, "^": 7, "|": 6, "&&": 5, "||": 4,
}  # fmt: skip


def render(e, minparen=False):
    return _render(e, minparen)[0]


def _render(e, mp):
    """-> (text, precedence): 15 primary, 14 unary/cast, 13..4 binary, 3 conditional."""
    k = e[0]
    if k == "lit":
        return e[1], 15
    if k == "enum":
        return e[1], 15
    if k == "sizeoft":
        return "sizeof(%s)" % e[1], 14
    if k == "sizeofe":
        return "sizeof(%s)" % _render(e[1], mp)[0], 14
    if k == "cast":
        s, p = _render(e[2], mp)
        if p < 14 or not mp:
            s = "(%s)" % s
        return "(%s)%s" % (e[1], s), 14
    if k == "un":
        s, p = _render(e[2], mp)
        if p < 14 or not mp:
            s = "(%s)" % s
        elif s[0] == e[1] or (e[1] in "+-" and s[0] in "+-"):
            s = " " + s  # never build -- or ++ or -+... tokens
        return e[1] + s, 14
    if k == "tern":
        c, pc = _render(e[1], mp)
        a, _ = _render(e[2], mp)
        b, pb = _render(e[3], mp)
        if pc <= 3 or not mp:
            c = "(%s)" % c
        if not mp:
            a = "(%s)" % a
        if pb < 3 or not mp:
            b = "(%s)" % b
        return "%s ? %s : %s" % (c, a, b), 3
    op = e[1]
    pr = PREC[op]
    a, pa = _render(e[2], mp)
    b, pb = _render(e[3], mp)
    if pa < pr or not mp:
        a = "(%s)" % a
    if pb <= pr or not mp:
        b = "(%s)" % b
    return "%s %s %s" % (a, op, b), pr


def walk(e):
    yield e
    k = e[0]
    if k in ("un", "cast"):
        yield from walk(e[2])
    elif k == "sizeofe":
        yield from walk(e[1])
    elif k == "bin":
        yield from walk(e[2])
        yield from walk(e[3])
    elif k == "tern":
        for s in e[1:]:
            yield from walk(s)


def features(e):
    """Set of strings naming the operators/forms used."""
    out = set()
    for n in walk(e):
        k = n[0]
        if k in ("un", "bin"):
            out.add(k + n[1])
        elif k == "lit":
            out.add("charlit" if n[1].startswith("'") else "lit")
        else:
            out.add(k)
    return out
