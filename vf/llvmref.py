"""LLVM MC reference decoding (DESIGN.md 3.8).

`decode(target, [bytes, ...])` runs `llvm-mc --disassemble --show-encoding` once over many
inputs and returns, per input, the list of decoded instructions `[(text, nbytes), ...]` when the
decoder tiles the input exactly, else None (undecodable / partially decodable / swallowed bytes).

llvm-mc treats its whole input as one byte stream (line breaks do not separate instructions), so
outputs are re-associated with inputs by position: every output line carries the bytes it
consumed (`encoding: [..]`), these must match the stream at the running position, and an input is
accepted only when consecutive outputs tile it exactly.  Inputs for which that fails in the batch
(an undecodable neighbour can swallow bytes) are decoded again on their own.

x86-64 is decoded by GNU objdump instead (see decode_x86).  The per-ISA normalisers further down
are written by hand from the ISA manuals (register names, operand order, aliases as *documented*);
they are not derived from ppci's tables.
"""

import re
import shutil
import subprocess

from .core import HarnessError

# target -> (triple, mattr, extra args)
LLVM_TARGETS = {
    "riscv": ("riscv32", "+m,+a,+f,+d,+c", ["-M", "no-aliases", "-M", "numeric"]),
    "riscv:rvc": ("riscv32", "+m,+a,+f,+d,+c", ["-M", "no-aliases", "-M", "numeric"]),
    "riscv:rvf": ("riscv32", "+m,+a,+f,+d,+c", ["-M", "no-aliases", "-M", "numeric"]),
    "arm": ("armv7a", "+hwdiv-arm,+vfp3,+mp", []),
    "arm:thumb": ("thumbv7m", "+hwdiv", []),
    "x86_64": ("x86_64", "", ["--output-asm-variant=1"]),
    "avr": ("avr", "+avr6", []),
    "msp430": ("msp430", "", []),
    "mips": ("mips", "+mips32r2", []),
    "m68k": ("m68k", "", []),
}


def llvm_mc():
    for name in ("llvm-mc-14", "llvm-mc"):
        p = shutil.which(name)
        if p:
            return p
    return None


_ENC = re.compile(r"encoding: \[([^\]]*)\]")


def _run(target, blobs):
    exe = llvm_mc()
    if exe is None:
        raise HarnessError("llvm-mc not found")
    triple, mattr, extra = LLVM_TARGETS[target]
    cmd = [exe, "--disassemble", "--show-encoding", "-triple=" + triple]
    if mattr:
        cmd.append("-mattr=" + mattr)
    cmd += extra
    src = "\n".join(" ".join("0x%02x" % b for b in blob) for blob in blobs) + "\n"
    p = subprocess.run(cmd, input=src.encode(), capture_output=True)
    if p.returncode != 0:
        raise HarnessError("llvm-mc failed: %s" % p.stderr.decode(errors="replace")[:500])
    outs = []
    for line in p.stdout.decode(errors="replace").splitlines():
        m = _ENC.search(line)
        if not m:
            continue
        enc = bytes(int(x, 16) for x in m.group(1).split(",") if x.strip())
        text = line[: m.start()]
        # strip the comment leader ('#', '@', ';') that precedes "encoding:"
        text = text.rstrip().rstrip("#@;").strip()
        outs.append((text, enc))
    return outs


def _tile(blob, outs):
    pos = 0
    res = []
    for text, enc in outs:
        if blob[pos : pos + len(enc)] != enc or not enc:
            return None
        res.append((text, len(enc)))
        pos += len(enc)
    return res if pos == len(blob) and res else None


def decode_one(target, blob):
    return _walk([bytes(blob)], _run(target, [bytes(blob)]))[0]


def _walk(blobs, outs, max_skip=64):
    """Associate outputs with inputs by position in the concatenated stream.  llvm-mc decodes the
    stream sequentially; after an invalid encoding it skips some bytes (reported on stderr only)
    and continues.  Every output is placed at the first position >= the running position where
    the stream equals the bytes it shows; bytes passed over are 'skipped'.  An input is decoded
    iff outputs tile it exactly from its first to its last byte with nothing skipped and no
    output straddling its borders.  (A text is a function of the bytes it covers, so placing an
    output on equal bytes is always a correct decode of those bytes.)"""
    stream = b"".join(blobs)
    starts = []
    pos = 0
    for b in blobs:
        starts.append(pos)
        pos += len(b)
    placed = {}  # start -> (text, length)
    pos = 0
    for text, enc in outs:
        if not enc:
            continue
        p = pos
        limit = min(len(stream), pos + max_skip)
        while p <= limit and stream[p : p + len(enc)] != enc:
            p += 1
        if p > limit:
            break  # lost: everything after stays undecoded
        placed[p] = (text, len(enc))
        pos = p + len(enc)
    results = []
    for a, b in zip(starts, blobs):
        end = a + len(b)
        p = a
        res = []
        while p < end and p in placed:
            text, n = placed[p]
            res.append((text, n))
            p += n
        results.append(res if (res and p == end) else None)
    return results


def decode(target, blobs, batch=4000):
    """Per input: [(text, nbytes), ...] or None (empty inputs give None)."""
    blobs = [bytes(b) for b in blobs]
    results = [None] * len(blobs)
    todo = [i for i, b in enumerate(blobs) if b]
    for start in range(0, len(todo), batch):
        chunk = todo[start : start + batch]
        data = [blobs[i] for i in chunk]
        for i, r in zip(chunk, _walk(data, _run(target, data))):
            results[i] = r
    return results


# ---------------------------------------------------------------------------
# x86-64: GNU objdump.  llvm-mc's --show-encoding prints the *re-encoded* instruction (redundant
# REX prefixes dropped, branch displacements as fixups), so consumed lengths cannot be read from
# it; objdump prints the address and the raw bytes of every instruction.

_OBJ_LINE = re.compile(r"^\s*([0-9a-f]+):\t((?:[0-9a-f]{2} )+)\s*(?:\t(.*))?$")
_X86_PAD = 16  # NOPs after every input: longer than any instruction, so the sweep re-synchronises


def objdump_exe():
    return shutil.which("objdump")


def decode_x86(blobs, tmpdir=None):
    """Per input: [(text, nbytes), ...] or None.  Branch targets are printed by objdump as
    addresses in the concatenated file; they are rewritten to displacements relative to the end
    of the instruction ("jmp +0x0")."""
    import os
    import tempfile

    exe = objdump_exe()
    if exe is None:
        raise HarnessError("objdump not found")
    blobs = [bytes(b) for b in blobs]
    results = [None] * len(blobs)
    own = tmpdir is None
    d = tempfile.mkdtemp(prefix="vf-objdump-") if own else tmpdir
    path = os.path.join(d, "x86-%d.bin" % os.getpid())
    try:
        starts = []
        pos = 0
        with open(path, "wb") as f:
            for b in blobs:
                starts.append(pos)
                f.write(b + b"\x90" * _X86_PAD)
                pos += len(b) + _X86_PAD
        p = subprocess.run(
            [exe, "-D", "-b", "binary", "-m", "i386:x86-64", "-M", "intel", "--insn-width=16", path],
            capture_output=True,
        )
        if p.returncode != 0:
            raise HarnessError("objdump failed: %s" % p.stderr.decode(errors="replace")[:500])
        ins_at = {}
        for line in p.stdout.decode(errors="replace").splitlines():
            m = _OBJ_LINE.match(line)
            if not m:
                continue
            addr = int(m.group(1), 16)
            n = len(m.group(2).split())
            # objdump appends "# 0x7" (resolved rip-relative address) and "<sym>" annotations
            text = (m.group(3) or "").split("#")[0]
            text = re.sub(r"<[^>]*>", "", text).strip()
            ins_at[addr] = (text, n)
        for i, b in enumerate(blobs):
            if not b:
                continue
            pos = starts[i]
            end = pos + len(b)
            res = []
            while pos < end and pos in ins_at:
                text, n = ins_at[pos]
                if "(bad)" in text or text.startswith(".byte") or not text:
                    res = None
                    break
                text = _x86_reltarget(text, pos + n)
                res.append((text, n))
                pos += n
            if res and pos == end:
                results[i] = res
    finally:
        try:
            os.unlink(path)
        except OSError:
            pass
        if own:
            shutil.rmtree(d, ignore_errors=True)
    return results


_X86_BR = re.compile(r"^((?:j[a-z]+|call|loop[a-z]*|jmp))\s+0x([0-9a-f]+)$")


def _x86_reltarget(text, next_addr):
    m = _X86_BR.match(text)
    if not m:
        return text
    rel = int(m.group(2), 16) - next_addr
    return "%s rel%+d" % (m.group(1), rel)


def reference_decode(target, blobs, tmpdir=None):
    """Decode with the reference disassembler of the target: objdump for x86-64, llvm-mc else.
    Returns None when the target has no reference decoder here."""
    if target == "x86_64":
        return decode_x86(blobs, tmpdir)
    if target in LLVM_TARGETS:
        return decode(target, blobs)
    return None


def has_reference(target):
    return target == "x86_64" or target in LLVM_TARGETS


# ===========================================================================
# Normalisers
#
# norm_ppci(target, text) and norm_ref(target, [text, ...]) turn ppci's printed form and the
# reference disassembler's output into the same canonical shape
#
#     [(mnemonic, (operand, ...)), ...]          one entry per machine instruction
#
# operands:  ("r", name)  register, canonical lower-case architectural name
#            ("i", value) immediate / displacement as a Python int
#            ("L",)       symbolic operand (label): matches any immediate
#            ("t", tok)   structural token that is part of the documented syntax: [ ] ( ) { } !
#            ("s", name)  shift / extend keyword,  ("set", frozenset) register list
#            ("m", base, index, scale, disp)  x86 memory operand
#
# The tables below are written from the ISA manuals (RISC-V unprivileged spec ch. 25 "assembly
# programmer's handbook" pseudo-instructions; ARM ARM A8 / ARMv7-M A7 register names, condition
# synonyms HS=CS LO=CC, PUSH=STMDB SP!, POP=LDMIA SP!; Intel SDM vol. 2 Jcc synonyms).  They are
# not derived from ppci.  Whatever a normaliser cannot interpret makes it return None, which
# callers count as `unverifiable`.

_TOK = re.compile(
    r"\s*(?:(?P<num>[-+]?(?:0x[0-9a-fA-F]+|\d+))(?![A-Za-z_])|(?P<id>[A-Za-z_.$][A-Za-z_0-9.$]*)|(?P<p>[\[\](){}!+\-*:#%=,@&]))"
)


def _lex(s):
    out = []
    pos = 0
    s = s.strip()
    while pos < len(s):
        m = _TOK.match(s, pos)
        if not m:
            return None
        pos = m.end()
        if m.group("num") is not None:
            out.append(("i", int(m.group("num"), 0)))
        elif m.group("id") is not None:
            out.append(("id", m.group("id")))
        else:
            out.append(("p", m.group("p")))
    return out


def _split_mnemonic(text):
    text = text.replace("\t", " ").strip()
    if not text:
        return None, None
    parts = text.split(None, 1)
    return parts[0].lower(), (parts[1] if len(parts) > 1 else "")


def _merge_signs(toks):
    """'#' is dropped, ',' is dropped, a '-'/'+' punctuation directly before a number is folded
    into it (ppci prints '#-4' / LLVM '#-0')."""
    out = []
    i = 0
    while i < len(toks):
        k, v = toks[i]
        if k == "p" and v in "#,":
            i += 1
            continue
        if k == "p" and v in "+-" and i + 1 < len(toks) and toks[i + 1][0] == "i":
            n = toks[i + 1][1]
            out.append(("i", -n if v == "-" else n))
            i += 2
            continue
        out.append((k, v))
        i += 1
    return out


class _Unknown(Exception):
    pass


def _operands(rest, regs, labels, keywords=(), keep="[](){}!"):
    toks = _lex(rest)
    if toks is None:
        raise _Unknown(rest)
    toks = _merge_signs(toks)
    out = []
    for k, v in toks:
        if k == "i":
            out.append(("i", v))
        elif k == "id":
            lv = v.lower()
            if lv in regs:
                out.append(("r", regs[lv]))
            elif lv in keywords:
                out.append(("s", lv))
            elif v in labels:
                out.append(("L",))
            else:
                raise _Unknown(v)
        else:
            if v in keep:
                out.append(("t", v))
            else:
                raise _Unknown(v)
    return out


def _group_sets(ops):
    """{ r, r, ... } -> ("set", frozenset)."""
    out = []
    i = 0
    while i < len(ops):
        if ops[i] == ("t", "{"):
            j = i + 1
            regs = []
            while j < len(ops) and ops[j] != ("t", "}"):
                if ops[j][0] != "r":
                    raise _Unknown("register list")
                regs.append(ops[j][1])
                j += 1
            if j >= len(ops):
                raise _Unknown("register list")
            out.append(("set", frozenset(regs)))
            i = j + 1
        else:
            out.append(ops[i])
            i += 1
    return out


LABEL_NAMES = frozenset(["lbl_a", "sym9", "Zq_target", "l0"])


# --- RISC-V ----------------------------------------------------------------

_RV_REGS = {"x%d" % i: "x%d" % i for i in range(32)}
_RV_REGS.update({"f%d" % i: "f%d" % i for i in range(32)})
# CSR names of the privileged spec that may appear as operands; kept as registers "csr:<name>"
_RV_CSRS = [
    "mstatus", "misa", "medeleg", "mideleg", "mie", "mtvec", "mcounteren", "mscratch", "mepc", "mcause", "mtval",
    "mip", "mvendorid", "marchid", "mimpid", "mhartid", "cycle", "time", "instret", "cycleh", "timeh", "instreth",
    "mcycle", "minstret", "mcycleh", "minstreth", "sstatus", "sie", "stvec", "sscratch", "sepc", "scause", "stval",
    "sip", "satp", "ustatus", "uie", "utvec", "uscratch", "uepc", "ucause", "utval", "uip", "fflags", "frm", "fcsr",
    "mbadaddr",
]
for _n in _RV_CSRS:
    _RV_REGS[_n] = "csr:" + _n
_RV_REGS["mbadaddr"] = "csr:mtval"  # renamed in priv-1.10; same CSR number 0x343
_RV_PCREL = re.compile(r"%[a-z_]+\(([A-Za-z_][A-Za-z_0-9]*)\)")
_RV_SWAP = {"bgt": "blt", "ble": "bge", "bgtu": "bltu", "bleu": "bgeu"}
_RV_RM = ("rne", "rtz", "rdn", "rup", "rmm", "dyn")
# FMV.X.W / FMV.W.X were called FMV.X.S / FMV.S.X before version 2.2 of the F extension
_RV_SYN = {"fmv.x.s": "fmv.x.w", "fmv.s.x": "fmv.w.x"}
# instructions with a rounding-mode field; an omitted rm operand means dyn (F extension, 11.2)
_RV_HAS_RM = ("fadd.s", "fsub.s", "fmul.s", "fdiv.s", "fsqrt.s", "fcvt.s.w", "fcvt.s.wu", "fcvt.w.s", "fcvt.wu.s",
              "fmadd.s", "fmsub.s", "fnmadd.s", "fnmsub.s")
_RV_RDCSR = {
    "rdcycle": "cycle", "rdcycleh": "cycleh", "rdtime": "time", "rdtimeh": "timeh",
    "rdinstret": "instret", "rdinstreth": "instreth",
}


def _rv_common(mn, rest):
    rest = _RV_PCREL.sub(lambda m: " " + m.group(1) + " ", rest)
    ops = _operands(rest, _RV_REGS, LABEL_NAMES, keywords=_RV_RM, keep="()")
    mn = _RV_SYN.get(mn, mn)
    if mn == "c.nop" and len(ops) <= 1:  # C.NOP is C.ADDI x0, 0; with imm != 0 a HINT
        mn, ops = "c.addi", [("r", "x0"), ops[0] if ops else ("i", 0)]
    return mn, ops


def _rv_ppci(text):
    mn, rest = _split_mnemonic(text)
    mn, ops = _rv_common(mn, rest)
    x0 = ("r", "x0")
    kinds = "".join(o[0] for o in ops)
    # pseudo-instructions of the RISC-V assembly programmer's handbook -> base instructions
    if mn == "nop" and not ops:
        return [("addi", (x0, x0, ("i", 0)))]
    if mn == "mv" and kinds == "rr":
        return [("addi", (ops[0], ops[1], ("i", 0)))]
    if mn == "j" and len(ops) == 1:
        return [("jal", (x0, ops[0]))]
    if mn in _RV_SWAP and len(ops) == 3:
        return [(_RV_SWAP[mn], (ops[1], ops[0], ops[2]))]
    if mn in ("csrs", "csrw", "csrc") and kinds == "rr":
        return [("csrr" + mn[3], (x0, ops[0], ops[1]))]
    if mn in ("csrsi", "csrwi", "csrci") and kinds == "ri":
        return [("csrr" + mn[3] + "i", (x0, ops[0], ops[1]))]
    if mn == "csrr" and kinds == "rr":
        return [("csrrs", (ops[0], ops[1], x0))]
    if mn in _RV_RDCSR and kinds == "r":
        return [("csrrs", (ops[0], ("r", "csr:" + _RV_RDCSR[mn]), x0))]
    if mn == "jalr" and kinds in ("rri", "rrL"):  # ppci prints rd,rs1,imm for the documented rd, imm(rs1)
        return [("jalr", (ops[0], ops[2], ("t", "("), ops[1], ("t", ")")))]
    if mn in ("li", "la") or (mn in ("lw", "lh", "lb", "lbu", "lhu", "sw", "sh", "sb") and kinds == "rL"):
        raise _Unknown("multi-instruction pseudo")
    if mn.startswith("f.") and mn.endswith(".s"):
        # ppci spells the F compares f.feq.s ...; FGT/FGE are the handbook pseudo-instructions
        # fgt.s rd, rs, rt = flt.s rd, rt, rs ; fge.s rd, rs, rt = fle.s rd, rt, rs
        inner = mn[2:]
        if inner in ("fgt.s", "fge.s") and kinds == "rrr":
            return [({"fgt.s": "flt.s", "fge.s": "fle.s"}[inner], (ops[0], ops[2], ops[1]))]
        if inner in ("feq.s", "flt.s", "fle.s"):
            return [(inner, tuple(ops))]
        raise _Unknown("no such instruction in the manual: " + mn)
    if mn in _RV_HAS_RM and not (ops and ops[-1][0] == "s"):
        ops = list(ops) + [("s", "dyn")]
    if mn in ("c.addi", "c.slli", "c.srli", "c.srai", "c.andi") and kinds == "rri" and ops[0] == ops[1]:
        ops = [ops[0], ops[2]]  # printed with rd twice; the manual's form is rd, imm
    if mn == "c.addi4spn" and kinds == "ri":  # manual: c.addi4spn rd', sp, nzuimm
        ops = [ops[0], ("r", "x2"), ops[1]]
    if mn == "c.addi16sp" and kinds == "i":  # manual: c.addi16sp sp, nzimm
        ops = [("r", "x2"), ops[0]]
    return [(mn, tuple(ops))]


def _rv_ref(texts):
    out = []
    for t in texts:
        mn, rest = _split_mnemonic(t)
        mn, ops = _rv_common(mn, rest)
        out.append((mn, tuple(ops)))
    return out


# --- ARM / Thumb --------------------------------------------------------------

_ARM_REGS = {"r%d" % i: "r%d" % i for i in range(16)}
_ARM_REGS.update({"sp": "r13", "lr": "r14", "pc": "r15", "sb": "r9", "sl": "r10", "fp": "r11", "ip": "r12"})
_ARM_REGS.update({"p%d" % i: "p%d" % i for i in range(16)})
_ARM_REGS.update({"c%d" % i: "c%d" % i for i in range(16)})
_ARM_REGS.update({"s%d" % i: "s%d" % i for i in range(32)})
_ARM_REGS.update({"d%d" % i: "d%d" % i for i in range(32)})
_ARM_SHIFTS = ("lsl", "lsr", "asr", "ror", "rrx")
_ARM_CONDS = ("eq", "ne", "cs", "hs", "cc", "lo", "mi", "pl", "vs", "vc", "hi", "ls", "ge", "lt", "gt", "le", "al")
_ARM_COND_SYN = {"cs": "hs", "cc": "lo", "al": ""}


def _arm_cond(mn, bases):
    """Split a trailing condition code off a mnemonic whose base is in `bases`; HS/CS and LO/CC
    are synonyms (ARM ARM A8.3)."""
    for c in _ARM_CONDS:
        if mn.endswith(c) and mn[: -len(c)] in bases:
            return mn[: -len(c)], _ARM_COND_SYN.get(c, c)
    return mn, ""


def _arm_ops(rest):
    ops = _operands(rest, _ARM_REGS, LABEL_NAMES, keywords=_ARM_SHIFTS, keep="[]{}!")
    return _group_sets(ops)


def _arm_mem(ops):
    """[rN] == [rN, #0]; [pc, #imm] with a literal operand is a pc-relative reference."""
    out = []
    i = 0
    while i < len(ops):
        if ops[i] == ("t", "[") and i + 2 < len(ops) and ops[i + 1][0] == "r" and ops[i + 2] == ("t", "]"):
            out += [ops[i], ops[i + 1], ("i", 0), ops[i + 2]]
            i += 3
        else:
            out.append(ops[i])
            i += 1
    return out


_ARM_DP = ("and", "eor", "sub", "rsb", "add", "adc", "sbc", "rsc", "orr", "bic", "mov", "mvn", "cmp", "cmn", "tst", "teq",
           "lsl", "lsr", "asr", "ror", "mul", "mla", "mls", "sdiv", "udiv", "ldr", "str", "ldrb", "strb", "ldrh", "strh",
           "ldrsb", "ldrsh", "b", "bl", "blx", "bx", "push", "pop", "adr", "mcr", "mrc")


def _arm_ppci(text):
    mn, rest = _split_mnemonic(text)
    ops = _arm_mem(_arm_ops(rest))
    base, cond = _arm_cond(mn, _ARM_DP)
    if base in ("push", "pop") and ops and all(o[0] == "r" for o in ops):
        ops = [("set", frozenset(o[1] for o in ops))]  # printed without braces (C09-KF3)
    base, ops = _arm_post(base, ops)
    return [(base + cond, tuple(ops))]


def _arm_post(base, ops):
    """Rewrites applied to both sides: immediates are 32-bit patterns; 'lsl #0' is no shift;
    ADD/SUB Rd, PC, #imm is ADR Rd, label (A8.8.12); MOV with a shift is the shift mnemonic."""
    ops = [("i", o[1] & 0xFFFFFFFF) if o[0] == "i" else o for o in ops]
    if len(ops) >= 2 and ops[-2] == ("s", "lsl") and ops[-1] == ("i", 0):
        ops = ops[:-2]
    if base in ("add", "sub") and len(ops) == 3 and ops[1] == ("r", "r15") and ops[2][0] == "i":
        base, ops = "adr", [ops[0], ("L",)]
    if base == "adr" and len(ops) == 2 and ops[1][0] == "i":
        ops = [ops[0], ("L",)]
    return _arm_mov_shift(base, ops)


def _arm_mov_shift(base, ops):
    """MOV Rd, Rm, <shift> #n / Rs is the pre-UAL spelling of <shift> Rd, Rm, #n / Rs (ARM ARM
    A8.8.105: the canonical form is the shift mnemonic)."""
    if base == "mov" and len(ops) == 4 and ops[2][0] == "s" and ops[0][0] == ops[1][0] == "r":
        return ops[2][1], [ops[0], ops[1], ops[3]]
    return base, ops


def _ror32(v, n):
    n %= 32
    return ((v >> n) | (v << (32 - n))) & 0xFFFFFFFF


def _arm_ref(texts):
    out = []
    for t in texts:
        mn, rest = _split_mnemonic(t)
        ops = _arm_mem(_arm_ops(rest))
        base, cond = _arm_cond(mn, _ARM_DP + ("stmdb", "ldm"))
        sp = ("r", "r13")
        if base == "stmdb" and len(ops) == 3 and ops[0] == sp and ops[1] == ("t", "!") and ops[2][0] == "set":
            base, ops = "push", [ops[2]]
        elif base == "ldm" and len(ops) == 3 and ops[0] == sp and ops[1] == ("t", "!") and ops[2][0] == "set":
            base, ops = "pop", [ops[2]]
        # "#imm8, #rot": modified immediate printed unrotated when it is not the canonical form
        if len(ops) >= 2 and ops[-1][0] == "i" and ops[-2][0] == "i" and base in _ARM_DP[:16]:
            ops = ops[:-2] + [("i", _ror32(ops[-2][1], ops[-1][1]))]
        # pc-relative literal / adr: [pc, #imm]  ->  reference
        if base in ("ldr",) and len(ops) == 5 and ops[1] == ("t", "[") and ops[2] == ("r", "r15") and ops[3][0] == "i":
            ops = [ops[0], ("L",)]
        base, ops = _arm_post(base, ops)
        out.append((base + cond, tuple(ops)))
    return out


_THUMB_S = ("mov", "add", "sub", "mul", "and", "orr", "eor", "lsl", "lsr", "asr", "rsb", "adc", "sbc", "bic", "mvn", "ror", "neg")


def _thumb_ppci(text):
    mn, rest = _split_mnemonic(text)
    ops = _arm_mem(_arm_ops(rest))
    # ppci's wide branches: bw, beqw, ... == b.w, beq.w (ARMv7-M A7.7.12 encodings T3/T4)
    if mn.startswith("b") and mn.endswith("w") and len(ops) == 1 and ops[0] == ("L",):
        mn = mn[:-1]
        wide = ".w"
    else:
        wide = ""
    base, cond = _arm_cond(mn, _ARM_DP)
    if base == "mul" and len(ops) == 2:  # MULS Rdm, Rn, Rdm printed as two operands
        ops = [ops[1], ops[0], ops[1]]
    if base == "rsb" and len(ops) == 2:  # RSBS Rd, Rn, #0
        ops = [ops[0], ops[1], ("i", 0)]
    if base in ("add", "sub") and len(ops) == 3 and ops[0] == ops[1] == ("r", "r13") and ops[2][0] == "i":
        ops = [ops[0], ops[2]]  # ADD SP, SP, #imm == ADD SP, #imm (T2)
    ops = [("i", o[1] & 0xFFFFFFFF) if o[0] == "i" else o for o in ops]
    return [(base + cond + wide, tuple(ops))]


def _thumb_ref(texts, sizes):
    out = []
    for t, n in zip(texts, sizes):
        mn, rest = _split_mnemonic(t)
        ops = _arm_mem(_arm_ops(rest))
        wide = ""
        if mn.endswith(".w"):
            mn, wide = mn[:-2], ".w"
        if n == 2 and mn.endswith("s") and mn[:-1] in _THUMB_S:
            mn = mn[:-1]  # 16-bit data processing sets flags outside an IT block: ADDS == ppci's add
        base, cond = _arm_cond(mn, _ARM_DP)
        if base in ("ldr", "adr") and len(ops) >= 2 and ("r", "r15") in ops[1:] and ops[1] == ("t", "["):
            ops = [ops[0], ("L",)]
        if base == "adr" and len(ops) == 2 and ops[1][0] == "i":
            ops = [ops[0], ("L",)]
        if not wide and base == "b" and n == 4:
            wide = ".w"
        ops = [("i", o[1] & 0xFFFFFFFF) if o[0] == "i" else o for o in ops]
        out.append((base + cond + wide, tuple(ops)))
    return out


# --- x86-64 (objdump -M intel) --------------------------------------------------

_X86_R64 = ["rax", "rcx", "rdx", "rbx", "rsp", "rbp", "rsi", "rdi"] + ["r%d" % i for i in range(8, 16)]
_X86_R32 = ["eax", "ecx", "edx", "ebx", "esp", "ebp", "esi", "edi"] + ["r%dd" % i for i in range(8, 16)]
_X86_R16 = ["ax", "cx", "dx", "bx", "sp", "bp", "si", "di"] + ["r%dw" % i for i in range(8, 16)]
_X86_R8 = ["al", "cl", "dl", "bl", "spl", "bpl", "sil", "dil"] + ["r%db" % i for i in range(8, 16)] + ["ah", "ch", "dh", "bh"]
_X86_REGS = {}
for _w, _l in ((64, _X86_R64), (32, _X86_R32), (16, _X86_R16), (8, _X86_R8)):
    for _n in _l:
        _X86_REGS[_n] = (_n, _w)
for _i in range(16):
    _X86_REGS["xmm%d" % _i] = ("xmm%d" % _i, 128)
_X86_REGS["rip"] = ("rip", 64)
_X86_SYN = {
    "jz": "je", "jnz": "jne", "jnae": "jb", "jc": "jb", "jnb": "jae", "jnc": "jae", "jna": "jbe", "jnbe": "ja",
    "jnge": "jl", "jnl": "jge", "jng": "jle", "jnle": "jg", "movabs": "mov", "jmpshort": "jmp", "sal": "shl",
}
_X86_PTR = re.compile(r"\b(BYTE|WORD|DWORD|QWORD|XMMWORD|TBYTE|OWORD)\s+PTR\s+", re.I)
_X86_PREFIX = re.compile(r"^(rex(\.[WRXB]+)?|data16)\s+", re.I)


def _x86_split(rest):
    parts, depth, cur = [], 0, ""
    for ch in rest:
        if ch == "[":
            depth += 1
        elif ch == "]":
            depth -= 1
        if ch == "," and depth == 0:
            parts.append(cur.strip())
            cur = ""
        else:
            cur += ch
    if cur.strip():
        parts.append(cur.strip())
    return parts


def _x86_num(s):
    s = s.strip()
    return int(s, 0)


def _x86_mem_ref(inner):
    """objdump: base+index*scale+disp / rip+disp / disp"""
    base = index = None
    scale = 1
    disp = 0
    s = inner.replace(" ", "").replace("-", "+-")
    for term in [t for t in s.split("+") if t]:
        if "*" in term:
            a, b = term.split("*")
            if a.lower() not in _X86_REGS:
                raise _Unknown(term)
            index, scale = a.lower(), _x86_num(b)
        elif term.lower() in _X86_REGS:
            if base is None:
                base = term.lower()
            elif index is None:
                index = term.lower()
            else:
                raise _Unknown(term)
        else:
            disp += _x86_num(term)
    return ("m", base, index, scale, disp & 0xFFFFFFFFFFFFFFFF)


def _x86_mem_ppci(inner):
    """ppci: [reg] | [reg, disp] | [base, index, disp] | [rip, disp] | [label] | [abs]"""
    parts = [p.strip() for p in inner.split(",")]
    base = index = None
    disp = 0
    items = []
    for p in parts:
        if p.lower() in _X86_REGS:
            items.append(("r", p.lower()))
        elif p in LABEL_NAMES:
            items.append(("L",))
        else:
            items.append(("i", _x86_num(p)))
    kinds = "".join(i[0] for i in items)
    if kinds == "r":
        base = items[0][1]
    elif kinds == "ri":
        base, disp = items[0][1], items[1][1]
    elif kinds == "rri":
        base, index, disp = items[0][1], items[1][1], items[2][1]
    elif kinds == "i":
        disp = items[0][1]
    elif kinds == "L":
        return ("mL",)
    else:
        raise _Unknown(inner)
    return ("m", base, index, 1, disp & 0xFFFFFFFFFFFFFFFF)


def _x86_operand(p, side):
    p = p.strip()
    if side == "ref":
        p = _X86_PTR.sub("", p)
        m = re.match(r"^(ds|es|ss|cs):(0x[0-9a-f]+|\d+)$", p)
        if m:  # absolute address
            return ("m", None, None, 1, _x86_num(m.group(2)) & 0xFFFFFFFFFFFFFFFF)
        p = re.sub(r"^(ds|es|ss|cs):", "", p)
    if p.startswith("*"):
        p = p[1:]
    if p.startswith("[") and p.endswith("]"):
        return _x86_mem_ppci(p[1:-1]) if side == "ppci" else _x86_mem_ref(p[1:-1])
    if p.lower() in _X86_REGS:
        return ("r", p.lower())
    if side == "ppci" and p in LABEL_NAMES:
        return ("L",)
    if side == "ref" and p.startswith("rel"):
        return ("L",)
    if side == "ref" and re.match(r"^(0x[0-9a-f]+|\d+)$", p) is None and re.match(r"^-?(0x[0-9a-f]+|\d+)$", p) is None:
        raise _Unknown(p)
    return ("i", _x86_num(p))


def _x86_width(ops):
    for o in ops:
        if o[0] == "r" and _X86_REGS[o[1]][1] <= 64:
            return _X86_REGS[o[1]][1]
    return 64


def _x86_finish(mn, ops):
    mn = _X86_SYN.get(mn, mn)
    w = _x86_width(ops)
    out = []
    for o in ops:
        if o[0] == "i":
            out.append(("i", o[1] & ((1 << w) - 1)))
        elif o[0] == "r":
            out.append(("r", o[1]))
        else:
            out.append(o)
    return (mn, tuple(out))


def _x86_ppci(text):
    mn, rest = _split_mnemonic(text)
    if mn.startswith("jmpshort") and len(mn) > 8:  # glued (C09-KF1)
        rest, mn = mn[8:] + rest, "jmpshort"
    ops = [_x86_operand(p, "ppci") for p in _x86_split(rest)]
    if mn in ("push", "pop") and ops and ops[0][0] == "r" and ops[0][1].startswith("xmm"):
        raise _Unknown("pseudo push/pop xmm")
    if mn in ("shl", "shr", "sar", "rol", "ror", "sal") and len(ops) == 1:
        ops.append(("i", 1))  # D0/D1 forms: shift by one, printed by ppci without the count
    return [_x86_finish(mn, ops)]


def _x86_ref(texts):
    out = []
    for t in texts:
        t = t.strip()
        while True:
            m = _X86_PREFIX.match(t)
            if not m:
                break
            t = t[m.end() :]
        mn, rest = _split_mnemonic(t)
        if mn in ("movs", "stos", "lods", "scas", "cmps"):
            m = re.search(r"\b(BYTE|WORD|DWORD|QWORD) PTR", rest)
            if m is None:
                raise _Unknown(t)
            out.append((mn + {"BYTE": "b", "WORD": "w", "DWORD": "d", "QWORD": "q"}[m.group(1)], ()))
            continue
        ops = [_x86_operand(p, "ref") for p in _x86_split(rest)]
        out.append(_x86_finish(mn, ops))
    return out


# --- entry points -----------------------------------------------------------------


def normaliser_family(target):
    if target.startswith("riscv"):
        return "riscv"
    if target in ("arm", "arm:thumb", "x86_64"):
        return target
    return None


def norm_ppci(target, text):
    fam = normaliser_family(target)
    try:
        if fam == "riscv":
            return _rv_ppci(text)
        if fam == "arm":
            return _arm_ppci(text)
        if fam == "arm:thumb":
            return _thumb_ppci(text)
        if fam == "x86_64":
            return _x86_ppci(text)
    except (_Unknown, ValueError, KeyError, IndexError):
        return None
    return None


def norm_ref(target, decoded):
    """decoded: [(text, nbytes), ...] as returned by reference_decode."""
    fam = normaliser_family(target)
    texts = [t for t, _ in decoded]
    try:
        if fam == "riscv":
            return _rv_ref(texts)
        if fam == "arm":
            return _arm_ref(texts)
        if fam == "arm:thumb":
            return _thumb_ref(texts, [n for _, n in decoded])
        if fam == "x86_64":
            return _x86_ref(texts)
    except (_Unknown, ValueError, KeyError, IndexError):
        return None
    return None


def compare(a, b):
    """None when the canonical forms agree, else a structured difference:
    ("count", n_a, n_b) | ("mnemonic", i, m_a, m_b) | ("shape", i) | ("operand", i, k, x, y).
    ("L",) matches any immediate/label; x86 ("mL",) matches any memory operand without base."""
    if len(a) != len(b):
        return ("count", len(a), len(b))
    for i, ((ma, oa), (mb, ob)) in enumerate(zip(a, b)):
        if ma != mb:
            return ("mnemonic", i, ma, mb)
        if len(oa) != len(ob):
            return ("shape", i)  # different operand count: syntax variants the normaliser does not bridge
        for k, (x, y) in enumerate(zip(oa, ob)):
            if x == y:
                continue
            if x == ("L",) and y[0] in ("i", "L"):
                continue
            if y == ("L",) and x[0] in ("i", "L"):
                continue
            if x == ("mL",) and y[0] == "m" and y[1] is None and y[2] is None:
                continue
            if x[0] != y[0]:
                return ("shape", i)
            return ("operand", i, k, x, y)
    return None


def describe_diff(d):
    if d[0] == "count":
        return "instruction count %d vs %d" % (d[1], d[2])
    if d[0] == "mnemonic":
        return "mnemonic %s vs %s" % (d[2], d[3])
    if d[0] == "operand":
        return "operand %d: %s vs %s" % (d[2], _show(d[3]), _show(d[4]))
    return d[0]


def _show(o):
    if o[0] == "set":
        return "{%s}" % ",".join(sorted(o[1]))
    return ":".join(str(v) for v in o[1:]) if len(o) > 1 else o[0]
