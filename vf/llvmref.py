"""LLVM MC reference decoding (DESIGN.md 3.8).

`decode(target, [bytes, ...])` runs `llvm-mc --disassemble --show-encoding` once over many
inputs and returns, per input, the list of decoded instructions `[(text, nbytes), ...]` when the
decoder tiles the input exactly, else None (undecodable / partially decodable / swallowed bytes).

llvm-mc treats its whole input as one byte stream (line breaks do not separate instructions), so
outputs are re-associated with inputs by position: every output line carries the bytes it
consumed (`encoding: [..]`), these must match the stream at the running position, and an input is
accepted only when consecutive outputs tile it exactly.  Inputs for which that fails in the batch
(an undecodable neighbour can swallow bytes) are decoded again on their own.

x86-64 is decoded by GNU objdump instead (see decode_x86).  The per-ISA normalisers further down
are written by hand from the ISA manuals (register names, operand order, aliases as *documented*);
they are not derived from ppci's tables.

Round 2 (msp430, avr, mips, m68k): `decode` associates outputs with inputs by *position* for these
targets (see POSITIONAL below: one input per line, NOP padding, positions of llvm-mc's "invalid
instruction encoding" warnings), survives llvm-mc dying on an input (bisection, KNOWN_CRASHERS) and
losing the rest of a stream; `reference_decode` adds two hand-written fallback decoders where
llvm-mc 14 has no usable table (avr_ldst_decode, vf/m68kdec.py) and MIPS32r6 / MIPS64 second opinions for
words MIPS32r2 reserves.  The round-2 normalisers are at the end of the file; their operands are
compared strictly (compare(..., strict=True)).
"""

import re
import shutil
import subprocess

from .core import HarnessError

# target -> (triple, mattr, extra args)
LLVM_TARGETS = {
    "riscv": ("riscv32", "+m,+a,+f,+d,+c", ["-M", "no-aliases", "-M", "numeric"]),
    "riscv:rvc": ("riscv32", "+m,+a,+f,+d,+c", ["-M", "no-aliases", "-M", "numeric"]),
    "riscv:rvf": ("riscv32", "+m,+a,+f,+d,+c", ["-M", "no-aliases", "-M", "numeric"]),
    "arm": ("armv7a", "+hwdiv-arm,+vfp3,+mp", []),
    "arm:thumb": ("thumbv7m", "+hwdiv", []),
    "x86_64": ("x86_64", "", ["--output-asm-variant=1"]),
    "avr": ("avr", "+avr6", []),
    "msp430": ("msp430", "", []),
    "mips": ("mipsel", "+mips32r2", []),  # ppci's mips back-end is little endian
    "mips/r6": ("mipsel", "+mips32r6", []),  # second opinions for words MIPS32r2 reserves (see _reference_decode)
    "mips/64": ("mips64el", "+mips64r2", []),
    "m68k": ("m68k", "", []),
}


def llvm_mc():
    for name in ("llvm-mc-14", "llvm-mc"):
        p = shutil.which(name)
        if p:
            return p
    return None


_ENC = re.compile(r"encoding: \[([^\]]*)\]")


class _Crashed(Exception):
    """llvm-mc terminated abnormally on this input (llvm-mc 14 -triple=msp430 dies with 'stack
    smashing detected' on e.g. `24 12` = push @r4; -triple=avr crashed on some streams)."""


def _run(target, blobs):
    exe = llvm_mc()
    if exe is None:
        raise HarnessError("llvm-mc not found")
    triple, mattr, extra = LLVM_TARGETS[target]
    cmd = [exe, "--disassemble", "--show-encoding", "-triple=" + triple]
    if mattr:
        cmd.append("-mattr=" + mattr)
    cmd += extra
    src = "\n".join(" ".join("0x%02x" % b for b in blob) for blob in blobs) + "\n"
    p = subprocess.run(cmd, input=src.encode(), capture_output=True)
    if p.returncode < 0 or b"PLEASE submit a bug report" in p.stderr:
        raise _Crashed(p.stderr.decode(errors="replace")[:300])  # the tool itself died (decode() bisects)
    if p.returncode != 0:
        raise HarnessError("llvm-mc failed: %s" % p.stderr.decode(errors="replace")[:500])
    outs = []
    for line in p.stdout.decode(errors="replace").splitlines():
        m = _ENC.search(line)
        if not m:
            continue
        enc = bytes(int(x, 16) for x in m.group(1).split(",") if x.strip())
        text = line[: m.start()]
        # strip the comment leader ('#', '@', ';') that precedes "encoding:"
        text = text.rstrip().rstrip("#@;").strip()
        outs.append((text, enc))
    return outs


def _tile(blob, outs):
    pos = 0
    res = []
    for text, enc in outs:
        if blob[pos : pos + len(enc)] != enc or not enc:
            return None
        res.append((text, len(enc)))
        pos += len(enc)
    return res if pos == len(blob) and res else None


def decode_one(target, blob):
    return _decode_chunk(target, [bytes(blob)])[0]


def _decode_chunk(target, data):
    """_walk(_run(data)); when llvm-mc crashes on the stream the chunk is halved recursively and
    the inputs that crash it on their own are reported undecodable (None)."""
    try:
        return _walk(data, _run(target, data))
    except _Crashed:
        if len(data) == 1:
            CRASHES[target] = CRASHES.get(target, 0) + 1
            return [None]
        h = len(data) // 2
        return _decode_chunk(target, data[:h]) + _decode_chunk(target, data[h:])


CRASHES = {}  # target -> number of single inputs on which the reference tool crashed (this process)


def _walk(blobs, outs, max_skip=64):
    """Associate outputs with inputs by position in the concatenated stream.  llvm-mc decodes the
    stream sequentially; after an invalid encoding it skips some bytes (reported on stderr only)
    and continues.  Every output is placed at the first position >= the running position where
    the stream equals the bytes it shows; bytes passed over are 'skipped'.  An input is decoded
    iff outputs tile it exactly from its first to its last byte with nothing skipped and no
    output straddling its borders.  (A text is a function of the bytes it covers, so placing an
    output on equal bytes is always a correct decode of those bytes.)"""
    stream = b"".join(blobs)
    starts = []
    pos = 0
    for b in blobs:
        starts.append(pos)
        pos += len(b)
    placed = {}  # start -> (text, length)
    pos = 0
    for text, enc in outs:
        if not enc:
            continue
        p = pos
        limit = min(len(stream), pos + max_skip)
        while p <= limit and stream[p : p + len(enc)] != enc:
            p += 1
        if p > limit:
            break  # lost: everything after stays undecoded
        placed[p] = (text, len(enc))
        pos = p + len(enc)
    results = []
    for a, b in zip(starts, blobs):
        end = a + len(b)
        p = a
        res = []
        while p < end and p in placed:
            text, n = placed[p]
            res.append((text, n))
            p += n
        results.append(res if (res and p == end) else None)
    return results


# Targets decoded by position (round 2).  For these llvm-mc 14 does not always show the bytes it
# consumed (avr: branch targets become fixups and the shown bytes have the offset field cleared or
# garbled; m68k: the MCInst is re-encoded, don't-care bits differ) and an undecodable input
# swallows bytes of its neighbour (msp430 `b0 12` = call #<next word>).  So every input goes on
# its own line followed by NOP padding, and outputs are associated purely by position: the stream
# is walked from 0; at a position for which llvm-mc printed "invalid instruction encoding"
# (stderr carries line:column, i.e. the byte position) SKIP bytes are passed over, otherwise the
# next output is consumed with the length of its shown encoding.  The walk must use up all
# outputs and end exactly at the end of the stream, and every output whose shown bytes are
# reliable must equal the stream there (all of them for msp430/mips, the opcode word for m68k,
# everything but '<unknown>' fixups for avr); a chunk failing that is halved and retried, a single
# input failing it is undecodable.
#            nop bytes            count  skip   shown bytes compared
POSITIONAL = {
    "msp430": (b"\x03\x43", 3, 2, None),
    "m68k": (b"\x4e\x71", 6, 2, 2),
    "avr": (b"\x00\x00", 2, 4, None),
    "mips": (b"\x00\x00\x00\x00", 1, 4, None),
    "mips/r6": (b"\x00\x00\x00\x00", 1, 4, None),
    "mips/64": (b"\x00\x00\x00\x00", 1, 4, None),
}
_AVR_RELBR = re.compile(r"^(rjmp|rcall|br[a-z]{2})\b")  # shown with the offset field as a fixup: bytes unreliable
_WARN = re.compile(r"^<stdin>:(\d+):(\d+): warning: invalid instruction encoding", re.M)


class _Inconsistent(Exception):
    pass


def _quiet_env():
    import os

    return dict(os.environ, LLVM_DISABLE_CRASH_REPORT="1", LLVM_DISABLE_SYMBOLIZATION="1")  # a crash dies fast


def _run_positional(target, blobs):
    exe = llvm_mc()
    if exe is None:
        raise HarnessError("llvm-mc not found")
    nop, count, skip, ncmp = POSITIONAL[target]
    pad = nop * count
    triple, mattr, extra = LLVM_TARGETS[target]
    cmd = [exe, "--disassemble", "--show-encoding", "-triple=" + triple]
    if mattr:
        cmd.append("-mattr=" + mattr)
    cmd += extra
    lines = [b + pad for b in blobs]
    src = "\n".join(" ".join("0x%02x" % x for x in ln) for ln in lines) + "\n"
    p = subprocess.run(cmd, input=src.encode(), capture_output=True, env=_quiet_env())
    err = p.stderr.decode(errors="replace")
    if p.returncode < 0 or "PLEASE submit a bug report" in err:
        raise _Crashed(err[:300])
    if p.returncode != 0:
        raise HarnessError("llvm-mc failed: %s" % err[:500])
    starts = []
    pos = 0
    for ln in lines:
        starts.append(pos)
        pos += len(ln)
    total = pos
    stream = b"".join(lines)
    bad = set()
    for m in _WARN.finditer(err):
        li, col = int(m.group(1)) - 1, int(m.group(2)) - 1
        if li >= len(lines) or col % 5:
            raise _Inconsistent("warning position")
        bad.add(starts[li] + col // 5)
    outs = []
    for line in p.stdout.decode(errors="replace").splitlines():
        m = _ENC.search(line)
        if not m:
            continue
        enc = bytes(int(x, 16) for x in m.group(1).split(",") if x.strip())
        text = line[: m.start()].rstrip().rstrip("#@;").strip()
        outs.append((text, enc))
    placed = {}
    pos = 0
    k = 0
    last_bad = None
    while pos < total:
        if pos in bad:
            bad.discard(pos)
            last_bad = pos
            pos += skip
            continue
        if k >= len(outs):
            if last_bad is not None and not bad:
                # llvm-mc -triple=m68k gives up on the whole rest of the stream after some invalid
                # encodings (eor.l %d5, (62,%pc)): everything before the input holding that position
                # is decoded, that input is not, the inputs after it are decoded again
                j = max(i for i, a in enumerate(starts) if a <= last_bad)
                raise _Lost(j, _tile_inputs(starts[:j], blobs[:j], placed))
            raise _Inconsistent("outputs exhausted")
        text, enc = outs[k]
        k += 1
        if not enc:
            raise _Inconsistent("empty encoding")
        if "<unknown>" not in text and not (target == "avr" and _AVR_RELBR.match(text)):
            n = len(enc) if ncmp is None else min(ncmp, len(enc))
            if stream[pos : pos + n] != enc[:n]:
                raise _Inconsistent("shown bytes differ")
        placed[pos] = (text, len(enc))
        pos += len(enc)
    if pos != total or k != len(outs) or bad:
        raise _Inconsistent("stream not tiled")
    return _tile_inputs(starts, blobs, placed)


def _tile_inputs(starts, blobs, placed):
    results = []
    for a, b in zip(starts, blobs):
        end = a + len(b)
        q = a
        res = []
        while q < end and q in placed:
            res.append(placed[q])
            q += placed[q][1]
        results.append(res if (res and q == end) else None)
    return results


class _Lost(Exception):
    def __init__(self, index, partial):
        Exception.__init__(self, "stream lost at input %d" % index)
        self.index = index
        self.partial = partial


def _msp430_crasher(blob):
    """PUSH(.B) @Rn / @Rn+ with n in {1, 4..15} (first word 0x122n / 0x123n / 0x126n / 0x127n) kills
    llvm-mc 14 ('stack smashing detected'); found by running all first words 0x1000..0x13ff."""
    if len(blob) < 2:
        return False
    w = blob[0] | (blob[1] << 8)
    return w & 0xFFA0 == 0x1220 and (w & 15) not in (0, 2, 3)


def _avr_crasher(blob):
    """LDD/STD (10q0 qq.d dddd .qqq): llvm-mc 14 dies on q != 0 and prints garbage ('st 2, r0')
    for q == 0.  These words are decoded by avr_ldst_decode instead."""
    return len(blob) >= 2 and (blob[1] & 0xD0) == 0x80


KNOWN_CRASHERS = {"msp430": _msp430_crasher, "avr": _avr_crasher}


_LOST_FORMS = set()  # m68k instruction forms after which llvm-mc 14 printed nothing more (this process)


def _m68k_form(blob):
    """Operation, size and addressing mode of the first word with the register numbers masked
    (PRM section 8: line, opmode bits 8..6 -- bits 11..6 for line 4 without bit 8 -- and the
    effective-address mode; the ea register only for mode 7, where it selects the mode)."""
    if len(blob) < 2:
        return None
    w = (blob[0] << 8) | blob[1]
    mode, reg = (w >> 3) & 7, w & 7
    ea = (mode << 3) | (reg if mode == 7 else 0)
    if w >> 12 == 4 and not w & 0x100:
        return (w & 0xFFC0) | ea
    if w >> 12 == 6:
        return (w & 0xFF00) | (1 if w & 0xFF in (0, 0xFF) else 0)
    if w >> 12 in (1, 2, 3) and (w >> 6) & 7 == 7:
        return (w & 0xFFC0) | ea  # MOVE to a mode-7 destination: its register field selects the mode
    return (w & 0xF1C0) | ea


def _skip_llvm(target, blob):
    pred = KNOWN_CRASHERS.get(target)
    if pred is not None and pred(blob):
        return "known crasher skipped"
    if target == "m68k" and _m68k_form(blob) in _LOST_FORMS:
        return "form that lost the stream before, skipped"
    return None


def _decode_positional(target, data):
    """_run_positional with the repairs: inputs known to kill llvm-mc are not sent; when llvm-mc
    loses the rest of the stream after an invalid input (m68k) that input is undecodable, its form
    (operation + addressing mode) is remembered and not sent again -- in the classes llvm-mc 14 has
    no table for, every input would otherwise cost a run of its own -- and the inputs after it are
    decoded again; on a crash or an inconsistent walk the chunk is halved."""
    res = [None] * len(data)
    idx = list(range(len(data)))
    while idx:
        keep = []
        for i in idx:
            why = _skip_llvm(target, data[i])
            if why:
                CRASHES["%s/%s" % (target, why)] = CRASHES.get("%s/%s" % (target, why), 0) + 1
            else:
                keep.append(i)
        idx = keep
        if not idx:
            break
        try:
            for i, r in zip(idx, _run_positional(target, [data[i] for i in idx])):
                res[i] = r
            break
        except _Lost as e:
            CRASHES[target + "/stream lost after an invalid input"] = CRASHES.get(target + "/stream lost after an invalid input", 0) + 1
            for i, r in zip(idx[: e.index], e.partial):
                res[i] = r
            if target == "m68k":
                _LOST_FORMS.add(_m68k_form(data[idx[e.index]]))
            idx = idx[e.index + 1 :]
        except (_Crashed, _Inconsistent) as e:
            if len(idx) == 1:
                key = target if isinstance(e, _Crashed) else target + "/inconsistent"
                CRASHES[key] = CRASHES.get(key, 0) + 1
                break
            h = len(idx) // 2
            for part in (idx[:h], idx[h:]):
                for i, r in zip(part, _decode_positional(target, [data[i] for i in part])):
                    res[i] = r
            break
    return res


def decode(target, blobs, batch=4000):
    """Per input: [(text, nbytes), ...] or None (empty inputs give None)."""
    blobs = [bytes(b) for b in blobs]
    results = [None] * len(blobs)
    todo = [i for i, b in enumerate(blobs) if b]
    if target in POSITIONAL:
        for start in range(0, len(todo), batch):
            chunk = todo[start : start + batch]
            for i, r in zip(chunk, _decode_positional(target, [blobs[i] for i in chunk])):
                results[i] = r
        return results
    for start in range(0, len(todo), batch):
        chunk = todo[start : start + batch]
        data = [blobs[i] for i in chunk]
        for i, r in zip(chunk, _decode_chunk(target, data)):
            results[i] = r
    return results


# ---------------------------------------------------------------------------
# x86-64: GNU objdump.  llvm-mc's --show-encoding prints the *re-encoded* instruction (redundant
# REX prefixes dropped, branch displacements as fixups), so consumed lengths cannot be read from
# it; objdump prints the address and the raw bytes of every instruction.

_OBJ_LINE = re.compile(r"^\s*([0-9a-f]+):\t((?:[0-9a-f]{2} )+)\s*(?:\t(.*))?$")
_X86_PAD = 16  # NOPs after every input: longer than any instruction, so the sweep re-synchronises


def objdump_exe():
    return shutil.which("objdump")


def decode_x86(blobs, tmpdir=None):
    """Per input: [(text, nbytes), ...] or None.  Branch targets are printed by objdump as
    addresses in the concatenated file; they are rewritten to displacements relative to the end
    of the instruction ("jmp +0x0")."""
    import os
    import tempfile

    exe = objdump_exe()
    if exe is None:
        raise HarnessError("objdump not found")
    blobs = [bytes(b) for b in blobs]
    results = [None] * len(blobs)
    own = tmpdir is None
    d = tempfile.mkdtemp(prefix="vf-objdump-") if own else tmpdir
    path = os.path.join(d, "x86-%d.bin" % os.getpid())
    try:
        starts = []
        pos = 0
        with open(path, "wb") as f:
            for b in blobs:
                starts.append(pos)
                f.write(b + b"\x90" * _X86_PAD)
                pos += len(b) + _X86_PAD
        p = subprocess.run(
            [exe, "-D", "-b", "binary", "-m", "i386:x86-64", "-M", "intel", "--insn-width=16", path],
            capture_output=True,
        )
        if p.returncode != 0:
            raise HarnessError("objdump failed: %s" % p.stderr.decode(errors="replace")[:500])
        ins_at = {}
        for line in p.stdout.decode(errors="replace").splitlines():
            m = _OBJ_LINE.match(line)
            if not m:
                continue
            addr = int(m.group(1), 16)
            n = len(m.group(2).split())
            # objdump appends "# 0x7" (resolved rip-relative address) and "<sym>" annotations
            text = (m.group(3) or "").split("#")[0]
            text = re.sub(r"<[^>]*>", "", text).strip()
            ins_at[addr] = (text, n)
        for i, b in enumerate(blobs):
            if not b:
                continue
            pos = starts[i]
            end = pos + len(b)
            res = []
            while pos < end and pos in ins_at:
                text, n = ins_at[pos]
                if "(bad)" in text or text.startswith(".byte") or not text:
                    res = None
                    break
                text = _x86_reltarget(text, pos + n)
                res.append((text, n))
                pos += n
            if res and pos == end:
                results[i] = res
    finally:
        try:
            os.unlink(path)
        except OSError:
            pass
        if own:
            shutil.rmtree(d, ignore_errors=True)
    return results


_X86_BR = re.compile(r"^((?:j[a-z]+|call|loop[a-z]*|jmp))\s+0x([0-9a-f]+)$")


def _x86_reltarget(text, next_addr):
    m = _X86_BR.match(text)
    if not m:
        return text
    rel = int(m.group(2), 16) - next_addr
    return "%s rel%+d" % (m.group(1), rel)


def reference_decode(target, blobs, tmpdir=None, sources=None):
    """Decode with the reference disassembler of the target: objdump for x86-64, llvm-mc else.
    Returns None when the target has no reference decoder here.  `sources` (a list) receives, per
    input, "own" when the result comes from one of the hand-written fallback decoders
    (avr_ldst_decode, vf/m68kdec.py) and "ref" otherwise."""
    res = _reference_decode(target, blobs, tmpdir, sources)
    if sources is not None and res is not None and len(sources) < len(res):
        sources.extend(["ref"] * (len(res) - len(sources)))
    return res


def _reference_decode(target, blobs, tmpdir, sources):
    if target == "x86_64":
        return decode_x86(blobs, tmpdir)
    if target == "avr":
        # LD/LDD/ST/STD: llvm-mc 14 has no (X, Y+, -Y, Z+, -Z) or a broken (Y+q, Z+q) decoder
        res = [avr_ldst_decode(bytes(b)) for b in blobs]
        rest = [i for i, r in enumerate(res) if r is None]
        if sources is not None:
            sources.extend("ref" if r is None else "own" for r in res)
        for i, r in zip(rest, decode(target, [blobs[i] for i in rest])):
            res[i] = r
        return res
    if target == "mips":
        # what MIPS32r2 reserves is shown as release 6 reads it (lui with rs != 0 is AUI there), marked
        # as such: the printed mnemonic then differs from what any MIPS32 core executes for these bytes
        res = decode(target, blobs)
        for alt, mark in (("mips/r6", _MIPS_MARKS[0]), ("mips/64", _MIPS_MARKS[1])):
            rest = [i for i, r in enumerate(res) if r is None and blobs[i]]
            if rest:
                for i, r in zip(rest, decode(alt, [blobs[i] for i in rest])):
                    if r is not None:
                        res[i] = [(t + mark, n) for t, n in r]
        return res
    if target == "m68k":
        # llvm-mc 14 first; what it rejects goes to the own decoder (vf/m68kdec.py)
        from . import m68kdec

        res = decode(target, blobs)
        if sources is not None:
            sources.extend("own" if r is None else "ref" for r in res)
        for i, r in enumerate(res):
            if r is None:
                res[i] = m68kdec.decode(bytes(blobs[i]))
        return res
    if target in LLVM_TARGETS:
        return decode(target, blobs)
    return None


def has_reference(target):
    return target == "x86_64" or target in LLVM_TARGETS


# ===========================================================================
# Normalisers
#
# norm_ppci(target, text) and norm_ref(target, [text, ...]) turn ppci's printed form and the
# reference disassembler's output into the same canonical shape
#
#     [(mnemonic, (operand, ...)), ...]          one entry per machine instruction
#
# operands:  ("r", name)  register, canonical lower-case architectural name
#            ("i", value) immediate / displacement as a Python int
#            ("L",)       symbolic operand (label): matches any immediate
#            ("t", tok)   structural token that is part of the documented syntax: [ ] ( ) { } !
#            ("s", name)  shift / extend keyword,  ("set", frozenset) register list
#            ("m", base, index, scale, disp)  x86 memory operand
#
# The tables below are written from the ISA manuals (RISC-V unprivileged spec ch. 25 "assembly
# programmer's handbook" pseudo-instructions; ARM ARM A8 / ARMv7-M A7 register names, condition
# synonyms HS=CS LO=CC, PUSH=STMDB SP!, POP=LDMIA SP!; Intel SDM vol. 2 Jcc synonyms).  They are
# not derived from ppci.  Whatever a normaliser cannot interpret makes it return None, which
# callers count as `unverifiable`.

_TOK = re.compile(
    r"\s*(?:(?P<num>[-+]?(?:0x[0-9a-fA-F]+|\d+))(?![A-Za-z_])|(?P<id>[A-Za-z_.$][A-Za-z_0-9.$]*)|(?P<p>[\[\](){}!+\-*:#%=,@&]))"
)


def _lex(s):
    out = []
    pos = 0
    s = s.strip()
    while pos < len(s):
        m = _TOK.match(s, pos)
        if not m:
            return None
        pos = m.end()
        if m.group("num") is not None:
            out.append(("i", int(m.group("num"), 0)))
        elif m.group("id") is not None:
            out.append(("id", m.group("id")))
        else:
            out.append(("p", m.group("p")))
    return out


def _split_mnemonic(text):
    text = text.replace("\t", " ").strip()
    if not text:
        return None, None
    parts = text.split(None, 1)
    return parts[0].lower(), (parts[1] if len(parts) > 1 else "")


def _merge_signs(toks):
    """'#' is dropped, ',' is dropped, a '-'/'+' punctuation directly before a number is folded
    into it (ppci prints '#-4' / LLVM '#-0')."""
    out = []
    i = 0
    while i < len(toks):
        k, v = toks[i]
        if k == "p" and v in "#,":
            i += 1
            continue
        if k == "p" and v in "+-" and i + 1 < len(toks) and toks[i + 1][0] == "i":
            n = toks[i + 1][1]
            out.append(("i", -n if v == "-" else n))
            i += 2
            continue
        out.append((k, v))
        i += 1
    return out


class _Unknown(Exception):
    pass


def _operands(rest, regs, labels, keywords=(), keep="[](){}!"):
    toks = _lex(rest)
    if toks is None:
        raise _Unknown(rest)
    toks = _merge_signs(toks)
    out = []
    for k, v in toks:
        if k == "i":
            out.append(("i", v))
        elif k == "id":
            lv = v.lower()
            if lv in regs:
                out.append(("r", regs[lv]))
            elif lv in keywords:
                out.append(("s", lv))
            elif v in labels:
                out.append(("L",))
            else:
                raise _Unknown(v)
        else:
            if v in keep:
                out.append(("t", v))
            else:
                raise _Unknown(v)
    return out


def _group_sets(ops):
    """{ r, r, ... } -> ("set", frozenset)."""
    out = []
    i = 0
    while i < len(ops):
        if ops[i] == ("t", "{"):
            j = i + 1
            regs = []
            while j < len(ops) and ops[j] != ("t", "}"):
                if ops[j][0] != "r":
                    raise _Unknown("register list")
                regs.append(ops[j][1])
                j += 1
            if j >= len(ops):
                raise _Unknown("register list")
            out.append(("set", frozenset(regs)))
            i = j + 1
        else:
            out.append(ops[i])
            i += 1
    return out


LABEL_NAMES = frozenset(["lbl_a", "sym9", "Zq_target", "l0"])


# --- RISC-V ----------------------------------------------------------------

_RV_REGS = {"x%d" % i: "x%d" % i for i in range(32)}
_RV_REGS.update({"f%d" % i: "f%d" % i for i in range(32)})
# CSR names of the privileged spec that may appear as operands; kept as registers "csr:<name>"
_RV_CSRS = [
    "mstatus", "misa", "medeleg", "mideleg", "mie", "mtvec", "mcounteren", "mscratch", "mepc", "mcause", "mtval",
    "mip", "mvendorid", "marchid", "mimpid", "mhartid", "cycle", "time", "instret", "cycleh", "timeh", "instreth",
    "mcycle", "minstret", "mcycleh", "minstreth", "sstatus", "sie", "stvec", "sscratch", "sepc", "scause", "stval",
    "sip", "satp", "ustatus", "uie", "utvec", "uscratch", "uepc", "ucause", "utval", "uip", "fflags", "frm", "fcsr",
    "mbadaddr",
]
for _n in _RV_CSRS:
    _RV_REGS[_n] = "csr:" + _n
_RV_REGS["mbadaddr"] = "csr:mtval"  # renamed in priv-1.10; same CSR number 0x343
_RV_PCREL = re.compile(r"%[a-z_]+\(([A-Za-z_][A-Za-z_0-9]*)\)")
_RV_SWAP = {"bgt": "blt", "ble": "bge", "bgtu": "bltu", "bleu": "bgeu"}
_RV_RM = ("rne", "rtz", "rdn", "rup", "rmm", "dyn")
# FMV.X.W / FMV.W.X were called FMV.X.S / FMV.S.X before version 2.2 of the F extension
_RV_SYN = {"fmv.x.s": "fmv.x.w", "fmv.s.x": "fmv.w.x"}
# instructions with a rounding-mode field; an omitted rm operand means dyn (F extension, 11.2)
_RV_HAS_RM = ("fadd.s", "fsub.s", "fmul.s", "fdiv.s", "fsqrt.s", "fcvt.s.w", "fcvt.s.wu", "fcvt.w.s", "fcvt.wu.s",
              "fmadd.s", "fmsub.s", "fnmadd.s", "fnmsub.s")
_RV_RDCSR = {
    "rdcycle": "cycle", "rdcycleh": "cycleh", "rdtime": "time", "rdtimeh": "timeh",
    "rdinstret": "instret", "rdinstreth": "instreth",
}


def _rv_common(mn, rest):
    rest = _RV_PCREL.sub(lambda m: " " + m.group(1) + " ", rest)
    ops = _operands(rest, _RV_REGS, LABEL_NAMES, keywords=_RV_RM, keep="()")
    mn = _RV_SYN.get(mn, mn)
    if mn == "c.nop" and len(ops) <= 1:  # C.NOP is C.ADDI x0, 0; with imm != 0 a HINT
        mn, ops = "c.addi", [("r", "x0"), ops[0] if ops else ("i", 0)]
    return mn, ops


def _rv_ppci(text):
    mn, rest = _split_mnemonic(text)
    mn, ops = _rv_common(mn, rest)
    x0 = ("r", "x0")
    kinds = "".join(o[0] for o in ops)
    # pseudo-instructions of the RISC-V assembly programmer's handbook -> base instructions
    if mn == "nop" and not ops:
        return [("addi", (x0, x0, ("i", 0)))]
    if mn == "mv" and kinds == "rr":
        return [("addi", (ops[0], ops[1], ("i", 0)))]
    if mn == "j" and len(ops) == 1:
        return [("jal", (x0, ops[0]))]
    if mn in _RV_SWAP and len(ops) == 3:
        return [(_RV_SWAP[mn], (ops[1], ops[0], ops[2]))]
    if mn in ("csrs", "csrw", "csrc") and kinds == "rr":
        return [("csrr" + mn[3], (x0, ops[0], ops[1]))]
    if mn in ("csrsi", "csrwi", "csrci") and kinds == "ri":
        return [("csrr" + mn[3] + "i", (x0, ops[0], ops[1]))]
    if mn == "csrr" and kinds == "rr":
        return [("csrrs", (ops[0], ops[1], x0))]
    if mn in _RV_RDCSR and kinds == "r":
        return [("csrrs", (ops[0], ("r", "csr:" + _RV_RDCSR[mn]), x0))]
    if mn == "jalr" and kinds in ("rri", "rrL"):  # ppci prints rd,rs1,imm for the documented rd, imm(rs1)
        return [("jalr", (ops[0], ops[2], ("t", "("), ops[1], ("t", ")")))]
    if mn in ("li", "la") or (mn in ("lw", "lh", "lb", "lbu", "lhu", "sw", "sh", "sb") and kinds == "rL"):
        raise _Unknown("multi-instruction pseudo")
    if mn.startswith("f.") and mn.endswith(".s"):
        # ppci spells the F compares f.feq.s ...; FGT/FGE are the handbook pseudo-instructions
        # fgt.s rd, rs, rt = flt.s rd, rt, rs ; fge.s rd, rs, rt = fle.s rd, rt, rs
        inner = mn[2:]
        if inner in ("fgt.s", "fge.s") and kinds == "rrr":
            return [({"fgt.s": "flt.s", "fge.s": "fle.s"}[inner], (ops[0], ops[2], ops[1]))]
        if inner in ("feq.s", "flt.s", "fle.s"):
            return [(inner, tuple(ops))]
        raise _Unknown("no such instruction in the manual: " + mn)
    if mn in _RV_HAS_RM and not (ops and ops[-1][0] == "s"):
        ops = list(ops) + [("s", "dyn")]
    if mn in ("c.addi", "c.slli", "c.srli", "c.srai", "c.andi") and kinds == "rri" and ops[0] == ops[1]:
        ops = [ops[0], ops[2]]  # printed with rd twice; the manual's form is rd, imm
    if mn == "c.addi4spn" and kinds == "ri":  # manual: c.addi4spn rd', sp, nzuimm
        ops = [ops[0], ("r", "x2"), ops[1]]
    if mn == "c.addi16sp" and kinds == "i":  # manual: c.addi16sp sp, nzimm
        ops = [("r", "x2"), ops[0]]
    return [(mn, tuple(ops))]


def _rv_ref(texts):
    out = []
    for t in texts:
        mn, rest = _split_mnemonic(t)
        mn, ops = _rv_common(mn, rest)
        out.append((mn, tuple(ops)))
    return out


# --- ARM / Thumb --------------------------------------------------------------

_ARM_REGS = {"r%d" % i: "r%d" % i for i in range(16)}
_ARM_REGS.update({"sp": "r13", "lr": "r14", "pc": "r15", "sb": "r9", "sl": "r10", "fp": "r11", "ip": "r12"})
_ARM_REGS.update({"p%d" % i: "p%d" % i for i in range(16)})
_ARM_REGS.update({"c%d" % i: "c%d" % i for i in range(16)})
_ARM_REGS.update({"s%d" % i: "s%d" % i for i in range(32)})
_ARM_REGS.update({"d%d" % i: "d%d" % i for i in range(32)})
_ARM_SHIFTS = ("lsl", "lsr", "asr", "ror", "rrx")
_ARM_CONDS = ("eq", "ne", "cs", "hs", "cc", "lo", "mi", "pl", "vs", "vc", "hi", "ls", "ge", "lt", "gt", "le", "al")
_ARM_COND_SYN = {"cs": "hs", "cc": "lo", "al": ""}


def _arm_cond(mn, bases):
    """Split a trailing condition code off a mnemonic whose base is in `bases`; HS/CS and LO/CC
    are synonyms (ARM ARM A8.3)."""
    for c in _ARM_CONDS:
        if mn.endswith(c) and mn[: -len(c)] in bases:
            return mn[: -len(c)], _ARM_COND_SYN.get(c, c)
    return mn, ""


def _arm_ops(rest):
    ops = _operands(rest, _ARM_REGS, LABEL_NAMES, keywords=_ARM_SHIFTS, keep="[]{}!")
    return _group_sets(ops)


def _arm_mem(ops):
    """[rN] == [rN, #0]; [pc, #imm] with a literal operand is a pc-relative reference."""
    out = []
    i = 0
    while i < len(ops):
        if ops[i] == ("t", "[") and i + 2 < len(ops) and ops[i + 1][0] == "r" and ops[i + 2] == ("t", "]"):
            out += [ops[i], ops[i + 1], ("i", 0), ops[i + 2]]
            i += 3
        else:
            out.append(ops[i])
            i += 1
    return out


_ARM_DP = ("and", "eor", "sub", "rsb", "add", "adc", "sbc", "rsc", "orr", "bic", "mov", "mvn", "cmp", "cmn", "tst", "teq",
           "lsl", "lsr", "asr", "ror", "mul", "mla", "mls", "sdiv", "udiv", "ldr", "str", "ldrb", "strb", "ldrh", "strh",
           "ldrsb", "ldrsh", "b", "bl", "blx", "bx", "push", "pop", "adr", "mcr", "mrc")


def _arm_ppci(text):
    mn, rest = _split_mnemonic(text)
    ops = _arm_mem(_arm_ops(rest))
    base, cond = _arm_cond(mn, _ARM_DP)
    if base in ("push", "pop") and ops and all(o[0] == "r" for o in ops):
        ops = [("set", frozenset(o[1] for o in ops))]  # printed without braces (C09-KF3)
    base, ops = _arm_post(base, ops)
    return [(base + cond, tuple(ops))]


def _arm_post(base, ops):
    """Rewrites applied to both sides: immediates are 32-bit patterns; 'lsl #0' is no shift;
    ADD/SUB Rd, PC, #imm is ADR Rd, label (A8.8.12); MOV with a shift is the shift mnemonic."""
    ops = [("i", o[1] & 0xFFFFFFFF) if o[0] == "i" else o for o in ops]
    if len(ops) >= 2 and ops[-2] == ("s", "lsl") and ops[-1] == ("i", 0):
        ops = ops[:-2]
    if base in ("add", "sub") and len(ops) == 3 and ops[1] == ("r", "r15") and ops[2][0] == "i":
        base, ops = "adr", [ops[0], ("L",)]
    if base == "adr" and len(ops) == 2 and ops[1][0] == "i":
        ops = [ops[0], ("L",)]
    return _arm_mov_shift(base, ops)


def _arm_mov_shift(base, ops):
    """MOV Rd, Rm, <shift> #n / Rs is the pre-UAL spelling of <shift> Rd, Rm, #n / Rs (ARM ARM
    A8.8.105: the canonical form is the shift mnemonic)."""
    if base == "mov" and len(ops) == 4 and ops[2][0] == "s" and ops[0][0] == ops[1][0] == "r":
        return ops[2][1], [ops[0], ops[1], ops[3]]
    return base, ops


def _ror32(v, n):
    n %= 32
    return ((v >> n) | (v << (32 - n))) & 0xFFFFFFFF


def _arm_ref(texts):
    out = []
    for t in texts:
        mn, rest = _split_mnemonic(t)
        ops = _arm_mem(_arm_ops(rest))
        base, cond = _arm_cond(mn, _ARM_DP + ("stmdb", "ldm"))
        sp = ("r", "r13")
        if base == "stmdb" and len(ops) == 3 and ops[0] == sp and ops[1] == ("t", "!") and ops[2][0] == "set":
            base, ops = "push", [ops[2]]
        elif base == "ldm" and len(ops) == 3 and ops[0] == sp and ops[1] == ("t", "!") and ops[2][0] == "set":
            base, ops = "pop", [ops[2]]
        # "#imm8, #rot": modified immediate printed unrotated when it is not the canonical form
        if len(ops) >= 2 and ops[-1][0] == "i" and ops[-2][0] == "i" and base in _ARM_DP[:16]:
            ops = ops[:-2] + [("i", _ror32(ops[-2][1], ops[-1][1]))]
        # pc-relative literal / adr: [pc, #imm]  ->  reference
        if base in ("ldr",) and len(ops) == 5 and ops[1] == ("t", "[") and ops[2] == ("r", "r15") and ops[3][0] == "i":
            ops = [ops[0], ("L",)]
        base, ops = _arm_post(base, ops)
        out.append((base + cond, tuple(ops)))
    return out


_THUMB_S = ("mov", "add", "sub", "mul", "and", "orr", "eor", "lsl", "lsr", "asr", "rsb", "adc", "sbc", "bic", "mvn", "ror", "neg")


def _thumb_ppci(text):
    mn, rest = _split_mnemonic(text)
    ops = _arm_mem(_arm_ops(rest))
    # ppci's wide branches: bw, beqw, ... == b.w, beq.w (ARMv7-M A7.7.12 encodings T3/T4)
    if mn.startswith("b") and mn.endswith("w") and len(ops) == 1 and ops[0] == ("L",):
        mn = mn[:-1]
        wide = ".w"
    else:
        wide = ""
    base, cond = _arm_cond(mn, _ARM_DP)
    if base == "mul" and len(ops) == 2:  # MULS Rdm, Rn, Rdm printed as two operands
        ops = [ops[1], ops[0], ops[1]]
    if base == "rsb" and len(ops) == 2:  # RSBS Rd, Rn, #0
        ops = [ops[0], ops[1], ("i", 0)]
    if base in ("add", "sub") and len(ops) == 3 and ops[0] == ops[1] == ("r", "r13") and ops[2][0] == "i":
        ops = [ops[0], ops[2]]  # ADD SP, SP, #imm == ADD SP, #imm (T2)
    ops = [("i", o[1] & 0xFFFFFFFF) if o[0] == "i" else o for o in ops]
    return [(base + cond + wide, tuple(ops))]


def _thumb_ref(texts, sizes):
    out = []
    for t, n in zip(texts, sizes):
        mn, rest = _split_mnemonic(t)
        ops = _arm_mem(_arm_ops(rest))
        wide = ""
        if mn.endswith(".w"):
            mn, wide = mn[:-2], ".w"
        if n == 2 and mn.endswith("s") and mn[:-1] in _THUMB_S:
            mn = mn[:-1]  # 16-bit data processing sets flags outside an IT block: ADDS == ppci's add
        base, cond = _arm_cond(mn, _ARM_DP)
        if base in ("ldr", "adr") and len(ops) >= 2 and ("r", "r15") in ops[1:] and ops[1] == ("t", "["):
            ops = [ops[0], ("L",)]
        if base == "adr" and len(ops) == 2 and ops[1][0] == "i":
            ops = [ops[0], ("L",)]
        if not wide and base == "b" and n == 4:
            wide = ".w"
        ops = [("i", o[1] & 0xFFFFFFFF) if o[0] == "i" else o for o in ops]
        out.append((base + cond + wide, tuple(ops)))
    return out


# --- x86-64 (objdump -M intel) --------------------------------------------------

_X86_R64 = ["rax", "rcx", "rdx", "rbx", "rsp", "rbp", "rsi", "rdi"] + ["r%d" % i for i in range(8, 16)]
_X86_R32 = ["eax", "ecx", "edx", "ebx", "esp", "ebp", "esi", "edi"] + ["r%dd" % i for i in range(8, 16)]
_X86_R16 = ["ax", "cx", "dx", "bx", "sp", "bp", "si", "di"] + ["r%dw" % i for i in range(8, 16)]
_X86_R8 = ["al", "cl", "dl", "bl", "spl", "bpl", "sil", "dil"] + ["r%db" % i for i in range(8, 16)] + ["ah", "ch", "dh", "bh"]
_X86_REGS = {}
for _w, _l in ((64, _X86_R64), (32, _X86_R32), (16, _X86_R16), (8, _X86_R8)):
    for _n in _l:
        _X86_REGS[_n] = (_n, _w)
for _i in range(16):
    _X86_REGS["xmm%d" % _i] = ("xmm%d" % _i, 128)
_X86_REGS["rip"] = ("rip", 64)
_X86_SYN = {
    "jz": "je", "jnz": "jne", "jnae": "jb", "jc": "jb", "jnb": "jae", "jnc": "jae", "jna": "jbe", "jnbe": "ja",
    "jnge": "jl", "jnl": "jge", "jng": "jle", "jnle": "jg", "movabs": "mov", "jmpshort": "jmp", "sal": "shl",
}
_X86_PTR = re.compile(r"\b(BYTE|WORD|DWORD|QWORD|XMMWORD|TBYTE|OWORD)\s+PTR\s+", re.I)
_X86_PREFIX = re.compile(r"^(rex(\.[WRXB]+)?|data16)\s+", re.I)


def _x86_split(rest):
    parts, depth, cur = [], 0, ""
    for ch in rest:
        if ch == "[":
            depth += 1
        elif ch == "]":
            depth -= 1
        if ch == "," and depth == 0:
            parts.append(cur.strip())
            cur = ""
        else:
            cur += ch
    if cur.strip():
        parts.append(cur.strip())
    return parts


def _x86_num(s):
    s = s.strip()
    return int(s, 0)


def _x86_mem_ref(inner):
    """objdump: base+index*scale+disp / rip+disp / disp"""
    base = index = None
    scale = 1
    disp = 0
    s = inner.replace(" ", "").replace("-", "+-")
    for term in [t for t in s.split("+") if t]:
        if "*" in term:
            a, b = term.split("*")
            if a.lower() not in _X86_REGS:
                raise _Unknown(term)
            index, scale = a.lower(), _x86_num(b)
        elif term.lower() in _X86_REGS:
            if base is None:
                base = term.lower()
            elif index is None:
                index = term.lower()
            else:
                raise _Unknown(term)
        else:
            disp += _x86_num(term)
    return ("m", base, index, scale, disp & 0xFFFFFFFFFFFFFFFF)


def _x86_mem_ppci(inner):
    """ppci: [reg] | [reg, disp] | [base, index, disp] | [rip, disp] | [label] | [abs]"""
    parts = [p.strip() for p in inner.split(",")]
    base = index = None
    disp = 0
    items = []
    for p in parts:
        if p.lower() in _X86_REGS:
            items.append(("r", p.lower()))
        elif p in LABEL_NAMES:
            items.append(("L",))
        else:
            items.append(("i", _x86_num(p)))
    kinds = "".join(i[0] for i in items)
    if kinds == "r":
        base = items[0][1]
    elif kinds == "ri":
        base, disp = items[0][1], items[1][1]
    elif kinds == "rri":
        base, index, disp = items[0][1], items[1][1], items[2][1]
    elif kinds == "i":
        disp = items[0][1]
    elif kinds == "L":
        return ("mL",)
    else:
        raise _Unknown(inner)
    return ("m", base, index, 1, disp & 0xFFFFFFFFFFFFFFFF)


def _x86_operand(p, side):
    p = p.strip()
    if side == "ref":
        p = _X86_PTR.sub("", p)
        m = re.match(r"^(ds|es|ss|cs):(0x[0-9a-f]+|\d+)$", p)
        if m:  # absolute address
            return ("m", None, None, 1, _x86_num(m.group(2)) & 0xFFFFFFFFFFFFFFFF)
        p = re.sub(r"^(ds|es|ss|cs):", "", p)
    if p.startswith("*"):
        p = p[1:]
    if p.startswith("[") and p.endswith("]"):
        return _x86_mem_ppci(p[1:-1]) if side == "ppci" else _x86_mem_ref(p[1:-1])
    if p.lower() in _X86_REGS:
        return ("r", p.lower())
    if side == "ppci" and p in LABEL_NAMES:
        return ("L",)
    if side == "ref" and p.startswith("rel"):
        return ("L",)
    if side == "ref" and re.match(r"^(0x[0-9a-f]+|\d+)$", p) is None and re.match(r"^-?(0x[0-9a-f]+|\d+)$", p) is None:
        raise _Unknown(p)
    return ("i", _x86_num(p))


def _x86_width(ops):
    for o in ops:
        if o[0] == "r" and _X86_REGS[o[1]][1] <= 64:
            return _X86_REGS[o[1]][1]
    return 64


def _x86_finish(mn, ops):
    mn = _X86_SYN.get(mn, mn)
    w = _x86_width(ops)
    out = []
    for o in ops:
        if o[0] == "i":
            out.append(("i", o[1] & ((1 << w) - 1)))
        elif o[0] == "r":
            out.append(("r", o[1]))
        else:
            out.append(o)
    return (mn, tuple(out))


def _x86_ppci(text):
    mn, rest = _split_mnemonic(text)
    if mn.startswith("jmpshort") and len(mn) > 8:  # glued (C09-KF1)
        rest, mn = mn[8:] + rest, "jmpshort"
    ops = [_x86_operand(p, "ppci") for p in _x86_split(rest)]
    if mn in ("push", "pop") and ops and ops[0][0] == "r" and ops[0][1].startswith("xmm"):
        raise _Unknown("pseudo push/pop xmm")
    if mn in ("shl", "shr", "sar", "rol", "ror", "sal") and len(ops) == 1:
        ops.append(("i", 1))  # D0/D1 forms: shift by one, printed by ppci without the count
    return [_x86_finish(mn, ops)]


def _x86_ref(texts):
    out = []
    for t in texts:
        t = t.strip()
        while True:
            m = _X86_PREFIX.match(t)
            if not m:
                break
            t = t[m.end() :]
        mn, rest = _split_mnemonic(t)
        if mn in ("movs", "stos", "lods", "scas", "cmps"):
            m = re.search(r"\b(BYTE|WORD|DWORD|QWORD) PTR", rest)
            if m is None:
                raise _Unknown(t)
            out.append((mn + {"BYTE": "b", "WORD": "w", "DWORD": "d", "QWORD": "q"}[m.group(1)], ()))
            continue
        ops = [_x86_operand(p, "ref") for p in _x86_split(rest)]
        out.append(_x86_finish(mn, ops))
    return out


# ===========================================================================
# Round 2 families: msp430, avr, mips, m68k.
#
# Operands of these families are compared strictly (compare(..., strict=True)): a different
# operand kind or operand count is a difference, not "unverifiable".  Memory operands are
#     ("a", mode, register | None, displacement | "L")
# with the modes named below; "L" (a label) matches any displacement of the same mode/register.


def _num(s):
    s = s.strip()
    neg = s.startswith("-")
    if s[:1] in "+-":
        s = s[1:]
    if s.startswith("$"):
        v = int(s[1:], 16)
    else:
        v = int(s, 0)
    return -v if neg else v


_NUM = r"[-+]?(?:0[xX][0-9a-fA-F]+|\d+)"


def _split_commas(rest):
    parts, depth, cur = [], 0, ""
    for ch in rest:
        if ch in "([":
            depth += 1
        elif ch in ")]":
            depth -= 1
        if ch == "," and depth == 0:
            parts.append(cur.strip())
            cur = ""
        else:
            cur += ch
    if cur.strip():
        parts.append(cur.strip())
    return parts


# --- MSP430 (SLAU144 "MSP430x2xx Family User's Guide", ch. 3: CPU) -----------------------------
# Addressing modes (3.3): Rn | X(Rn) | ADDR (symbolic = X(PC)) | &ADDR (absolute = X(SR), SR read
# as 0) | @Rn | @Rn+ | #N (= @PC+).  Constant generators (3.2.4, table 3-2), source operand only:
#   R2: As=01 -> absolute mode, As=10 -> #4, As=11 -> #8;  R3: As=00 -> #0, 01 -> #1, 10 -> #2, 11 -> #-1
# Emulated instructions: table 3-13 ("MSP430 instruction set", the rows marked emulated) and 3.4.

_MSP_REGS = {"r%d" % i: "r%d" % i for i in range(16)}
_MSP_REGS.update({"pc": "r0", "sp": "r1", "sr": "r2", "cg": "r3", "cg1": "r2", "cg2": "r3"})
_MSP_CG = {("reg", "r3"): 0, ("ind", "r3"): 2, ("inc", "r3"): -1, ("ind", "r2"): 4, ("inc", "r2"): 8}
_MSP_JSYN = {"jnz": "jne", "jz": "jeq", "jnc": "jlo", "jc": "jhs"}
_MSP_FMT1 = ("mov", "add", "addc", "subc", "sub", "cmp", "dadd", "bit", "bic", "bis", "xor", "and")
_MSP_FMT2 = ("rrc", "swpb", "rra", "sxt", "push", "call")
_MSP_JUMPS = ("jne", "jeq", "jlo", "jhs", "jn", "jge", "jl", "jmp")
_SR, _PC, _SP = ("r", "r2"), ("r", "r0"), ("r", "r1")
# emulated mnemonic -> (core mnemonic, source operand or None = "the operand itself")
_MSP_EMU1 = {  # one operand: dst
    "adc": ("addc", ("i", 0)), "clr": ("mov", ("i", 0)), "dadc": ("dadd", ("i", 0)), "dec": ("sub", ("i", 1)),
    "decd": ("sub", ("i", 2)), "inc": ("add", ("i", 1)), "incd": ("add", ("i", 2)), "inv": ("xor", ("i", 0xFFFF)),
    "sbc": ("subc", ("i", 0)), "tst": ("cmp", ("i", 0)), "rla": ("add", None), "rlc": ("addc", None),
}
_MSP_EMU0 = {  # no operand
    "clrc": ("bic", ("i", 1), _SR), "clrn": ("bic", ("i", 4), _SR), "clrz": ("bic", ("i", 2), _SR),
    "setc": ("bis", ("i", 1), _SR), "setn": ("bis", ("i", 4), _SR), "setz": ("bis", ("i", 2), _SR),
    "dint": ("bic", ("i", 8), _SR), "eint": ("bis", ("i", 8), _SR), "nop": ("mov", ("i", 0), ("r", "r3")),
    "ret": ("mov", ("a", "inc", "r1", 0), _PC),
}
_MSP_OP = re.compile(
    r"^(?:#(?P<imm>%s)|#(?P<ilab>[A-Za-z_]\w*)|&(?P<abs>%s)|&(?P<alab>[A-Za-z_]\w*)|@(?P<ind>\w+)(?P<inc>\+?)"
    r"|(?P<x>%s)\((?P<xr>\w+)\)|(?P<sym>%s)|(?P<id>[A-Za-z_]\w*))$" % (_NUM, _NUM, _NUM, _NUM)
)


def _msp_reg(name):
    r = _MSP_REGS.get(name.lower())
    if r is None:
        raise _Unknown(name)
    return r


def _msp_operand(text, source):
    m = _MSP_OP.match(text.strip())
    if not m:
        raise _Unknown(text)
    if m.group("imm") is not None:
        return ("i", _num(m.group("imm")) & 0xFFFF)
    if m.group("ilab") is not None:
        if m.group("ilab") not in LABEL_NAMES:
            raise _Unknown(text)
        return ("L",)
    if m.group("abs") is not None:
        return ("a", "abs", None, _num(m.group("abs")) & 0xFFFF)
    if m.group("alab") is not None:
        if m.group("alab") not in LABEL_NAMES:
            raise _Unknown(text)
        return ("a", "abs", None, "L")
    if m.group("ind") is not None:
        mode, r = ("inc" if m.group("inc") else "ind"), _msp_reg(m.group("ind"))
        if source and (mode, r) in _MSP_CG:
            return ("i", _MSP_CG[(mode, r)] & 0xFFFF)
        if r == "r0" and mode == "inc":
            raise _Unknown("@pc+ is the immediate mode: the operand is the next word")
        return ("a", mode, r, 0)
    if m.group("x") is not None:
        r, x = _msp_reg(m.group("xr")), _num(m.group("x")) & 0xFFFF
        if r == "r2":
            return ("a", "abs", None, x)  # X(SR) is the absolute mode
        # (X(R3) as a source does not exist: As=01/R3 is the constant #1 without an index word;
        # the reference never prints it, so a printed X(R3) source cannot compare equal)
        return ("a", "idx", r, x)
    if m.group("sym") is not None:  # symbolic mode ADDR = X(PC), printed by the reference as a bare number
        return ("a", "idx", "r0", _num(m.group("sym")) & 0xFFFF)
    name = m.group("id")
    if name.lower() in _MSP_REGS:
        r = _msp_reg(name)
        if source and ("reg", r) in _MSP_CG:
            return ("i", _MSP_CG[("reg", r)])
        return ("r", r)
    raise _Unknown(text)


def _msp_norm(text, ref):
    mn, rest = _split_mnemonic(text)
    size = ""
    if mn.endswith(".b"):
        mn, size = mn[:-2], ".b"
    elif mn.endswith(".w"):
        mn = mn[:-2]
    mn = _MSP_JSYN.get(mn, mn)
    parts = _split_commas(rest)
    if mn in _MSP_JUMPS:
        if len(parts) != 1:
            raise _Unknown(text)
        t = parts[0]
        if not (t in LABEL_NAMES or (ref and re.match(r"^\$[-+]\d+$|^%s$" % _NUM, t))):
            raise _Unknown(text)
        return (mn, (("L",),))
    if mn == "reti" and not parts:
        return ("reti", ())
    if mn in _MSP_EMU0 and not parts:
        core, src, dst = _MSP_EMU0[mn]
        return (core + size, (src, dst))
    if mn == "br" and len(parts) == 1:  # BR dst = MOV dst, PC
        return ("mov", (_msp_operand(parts[0], True), _PC))
    if mn == "pop" and len(parts) == 1:  # POP dst = MOV @SP+, dst
        return ("mov" + size, (("a", "inc", "r1", 0), _msp_operand(parts[0], False)))
    if mn in _MSP_EMU1 and len(parts) == 1:
        core, src = _MSP_EMU1[mn]
        if src is None:  # RLA dst = ADD dst, dst
            return (core + size, (_msp_operand(parts[0], True), _msp_operand(parts[0], False)))
        if mn == "inv" and size:
            src = ("i", 0xFFFF)  # the constant generator gives -1; byte operations use the low byte
        return (core + size, (src, _msp_operand(parts[0], False)))
    if mn in _MSP_FMT1 and len(parts) == 2:
        return (mn + size, (_msp_operand(parts[0], True), _msp_operand(parts[1], False)))
    if mn in _MSP_FMT2 and len(parts) == 1:
        return (mn + size, (_msp_operand(parts[0], True),))
    raise _Unknown(text)


def _msp_ppci(text):
    return [_msp_norm(text, False)]


def _msp_ref(texts):
    return [_msp_norm(t, True) for t in texts]


# --- AVR (Atmel "AVR Instruction Set Manual", 0856) ---------------------------------------------
# Register pairs are named by their low register (MOVW Rd+1:Rd; ADIW Rd+1:Rd with d in
# {24,26,28,30}); X = r27:r26, Y = r29:r28, Z = r31:r30.  Aliases as documented: LSL Rd = ADD Rd,Rd;
# ROL Rd = ADC Rd,Rd; TST Rd = AND Rd,Rd; CLR Rd = EOR Rd,Rd; SER Rd = LDI Rd,0xFF; SBR = ORI;
# CBR Rd,K = ANDI Rd,~K; BRLO = BRCS, BRSH = BRCC; LD Rd,Y = LDD Rd,Y+0.

_AVR_REGS = {"r%d" % i: "r%d" % i for i in range(32)}
_AVR_PAIRS = {"w": "r24", "x": "r26", "y": "r28", "z": "r30"}
for _i in range(0, 32, 2):
    _AVR_PAIRS["r%d:r%d" % (_i + 1, _i)] = "r%d" % _i
_AVR_PTR = {"x": "r26", "y": "r28", "z": "r30"}
_AVR_BR = ("brne", "breq", "brlt", "brge", "brcs", "brcc", "brmi", "brpl", "brvs", "brvc", "brhs", "brhc", "brts", "brtc",
           "brie", "brid", "rjmp", "rcall", "jmp", "call")
_AVR_BRSYN = {"brlo": "brcs", "brsh": "brcc"}
_AVR_IMM8 = ("ldi", "cpi", "subi", "sbci", "andi", "ori")
_AVR_WORD = {  # ppci's word pseudo-instructions -> the two byte operations they stand for
    "addw": ("add", "adc"), "subw": ("sub", "sbc"), "cpw": ("cp", "cpc"), "andw": ("and", "and"), "orw": ("or", "or"),
}
_AVR_MEM = re.compile(r"^(?:(?P<pre>-)?(?P<p>[xyzXYZ])(?P<post>\+)?|(?P<q>[yzYZ])\s*\+\s*(?P<d>%s))$" % _NUM)


def _avr_operand(t, pair=False):
    t = t.strip()
    lt = t.lower()
    m = _AVR_MEM.match(t)
    if pair and lt in _AVR_PAIRS:
        return ("r", _AVR_PAIRS[lt])
    if m:
        if m.group("q"):
            return ("a", "disp", _AVR_PTR[m.group("q").lower()], _num(m.group("d")))
        r = _AVR_PTR[m.group("p").lower()]
        if m.group("pre"):
            return ("a", "predec", r, 0)
        if m.group("post"):
            return ("a", "postinc", r, 0)
        return ("a", "disp", r, 0)
    if lt in _AVR_REGS:
        return ("r", lt)
    if lt in _AVR_PAIRS:
        return ("r", _AVR_PAIRS[lt])
    m = re.match(r"^(low|high|lo8|hi8)\((\w+)\)$", t)
    if m and m.group(2) in LABEL_NAMES:
        return ("L",)
    if t in LABEL_NAMES or t == "<unknown>" or re.match(r"^\.[-+]\d+$", t):
        return ("L",)
    if re.match("^%s$" % _NUM, t):
        return ("i", _num(t))
    raise _Unknown(t)


def _avr_one(mn, parts):
    mn = _AVR_BRSYN.get(mn, mn)
    if mn in _AVR_BR:
        if len(parts) != 1:
            raise _Unknown(mn)
        o = _avr_operand(parts[0])
        if o[0] == "i":
            o = ("L",)
        if o != ("L",):
            raise _Unknown(parts[0])
        return (mn, (o,))
    ops = [_avr_operand(p, pair=mn in ("movw", "adiw", "sbiw")) for p in parts]
    if mn in ("lsl", "rol", "tst", "clr") and len(ops) == 1:
        return ({"lsl": "add", "rol": "adc", "tst": "and", "clr": "eor"}[mn], (ops[0], ops[0]))
    if mn == "ser" and len(ops) == 1:
        return ("ldi", (ops[0], ("i", 255)))
    if mn == "sbr":
        mn = "ori"
    if mn == "cbr" and len(ops) == 2 and ops[1][0] == "i":
        mn, ops = "andi", [ops[0], ("i", ~ops[1][1] & 0xFF)]
    if mn in _AVR_IMM8 and len(ops) == 2 and ops[1][0] == "i" and -128 <= ops[1][1] <= 255:
        ops[1] = ("i", ops[1][1] & 0xFF)  # an 8-bit register operand: -1 and 255 are the same byte
    if mn in ("lds", "sts"):
        ops = [("i", o[1] & 0xFFFF) if o[0] == "i" and -32768 <= o[1] <= 65535 else o for o in ops]
    if mn in ("ld", "ldd", "st", "std"):
        mn = mn[:2]  # LD Rd, Y is LDD Rd, Y+0: one mnemonic, the mode is in the operand
    return (mn, tuple(ops))


def _avr_ppci(text):
    mn, rest = _split_mnemonic(text)
    parts = _split_commas(rest)
    if mn in _AVR_WORD and len(parts) == 2:
        lo, hi = _AVR_WORD[mn]
        (da, db), (ra, rb) = _avr_pair(parts[0]), _avr_pair(parts[1])
        return [(lo, (("r", da), ("r", ra))), (hi, (("r", db), ("r", rb)))]
    if mn == "ldiw" and len(parts) == 2:
        da, db = _avr_pair(parts[0])
        m = re.match(r"^@\((\w+)\)$", parts[1])
        if m and m.group(1) in LABEL_NAMES:
            return [("ldi", (("r", da), ("L",))), ("ldi", (("r", db), ("L",)))]
        k = _num(parts[1])
        if not -32768 <= k <= 65535:
            raise _Unknown("ldiw operand beyond 16 bits")
        return [("ldi", (("r", da), ("i", k & 0xFF))), ("ldi", (("r", db), ("i", (k >> 8) & 0xFF)))]
    if mn == "stw" and len(parts) == 2:
        da, db = _avr_pair(parts[1])
        o = _avr_operand(parts[0])
        if o[:2] != ("a", "postinc"):
            raise _Unknown(text)
        return [("st", (o, ("r", da))), ("st", (o, ("r", db)))]  # little endian: low byte first
    if mn in ("ldd_word", "std_word") and len(parts) == 2:
        ld = mn == "ldd_word"
        da, db = _avr_pair(parts[0 if ld else 1])
        o = _avr_operand(parts[1 if ld else 0])
        if o[:2] != ("a", "disp"):
            raise _Unknown(text)
        o2 = ("a", "disp", o[2], o[3] + 1)
        if ld:
            return [("ld", (("r", da), o)), ("ld", (("r", db), o2))]
        return [("st", (o, ("r", da))), ("st", (o2, ("r", db)))]
    if mn == "negw":
        raise _Unknown("multi-instruction pseudo without a fixed expansion")
    return [_avr_one(mn, parts)]


def _avr_pair(t):
    lo = _AVR_PAIRS.get(t.strip().lower())
    if lo is None:
        raise _Unknown(t)
    return lo, "r%d" % (int(lo[1:]) + 1)


def _avr_ref(texts):
    out = []
    for t in texts:
        mn, rest = _split_mnemonic(t)
        out.append(_avr_one(mn, _split_commas(rest)))
    return out


def avr_ldst_decode(blob):
    """Own decoder for the AVR loads/stores llvm-mc 14 has no decoder table for, from the AVR
    Instruction Set Manual (LD/LDD: 1001 000d dddd 11mm (X), 10q0 qq0d dddd 1qqq (Y+q),
    10q0 qq0d dddd 0qqq (Z+q), 1001 000d dddd {1001 Y+, 1010 -Y, 0001 Z+, 0010 -Z}; ST/STD: the
    same with bit 9 set).  -> [(text, 2), ...] when every 16-bit word of blob is one of them."""
    if not blob or len(blob) % 2:
        return None
    out = []
    for i in range(0, len(blob), 2):
        w = blob[i] | (blob[i + 1] << 8)
        d = "r%d" % ((w >> 4) & 31)
        st = bool(w & 0x0200)
        if w & 0xFC00 == 0x9000:
            mode = {0xC: "X", 0xD: "X+", 0xE: "-X", 0x9: "Y+", 0xA: "-Y", 0x1: "Z+", 0x2: "-Z"}.get(w & 15)
            if mode is None:
                return None
            mn = "st" if st else "ld"
        elif w & 0xD000 == 0x8000:
            q = ((w >> 8) & 0x20) | ((w >> 7) & 0x18) | (w & 7)
            mode = "%s+%d" % ("Y" if w & 8 else "Z", q)
            mn = "std" if st else "ldd"
        else:
            return None
        out.append(("%s\t%s, %s" % (mn, mode, d) if st else "%s\t%s, %s" % (mn, d, mode), 2))
    return out


# --- MIPS32 (MIPS Architecture for Programmers vol. II-A) -----------------------------------------
# Register names of the o32 ABI.  Assembly idioms as documented: NOP = SLL r0,r0,0; MOVE rd,rs =
# ADDU/OR rd,rs,r0; NOT rd,rs = NOR rd,rs,r0; NEGU rd,rt = SUBU rd,r0,rt; JALR rs = JALR r31,rs;
# JR rs; LUI rt,imm (rs field must be 0); SLLV/SRLV/SRAV rd, rt, rs (the amount is the LAST operand).

_MIPS_ABI = ["zero", "at", "v0", "v1", "a0", "a1", "a2", "a3", "t0", "t1", "t2", "t3", "t4", "t5", "t6", "t7",
             "s0", "s1", "s2", "s3", "s4", "s5", "s6", "s7", "t8", "t9", "k0", "k1", "gp", "sp", "fp", "ra"]
_MIPS_REGS = {}
for _i, _n in enumerate(_MIPS_ABI):
    for _k in (_n, "$" + _n, "r%d" % _i, "$%d" % _i):
        _MIPS_REGS[_k] = "$%d" % _i
_MIPS_REGS["s8"] = _MIPS_REGS["$s8"] = "$30"
_MIPS_UIMM = ("andi", "ori", "xori", "lui")


_MIPS_MARKS = (" <mips32r6; reserved in mips32r2>", " <mips64; reserved in mips32r2>")


def _mips_ops(rest):
    out = []
    for part in _split_commas(rest):
        m = re.match(r"^(%s)\(([$\w]+)\)$" % _NUM, part)
        if m:
            out.append(("a", "disp", _mips_reg(m.group(2)), _num(m.group(1))))
        elif part.lower() in _MIPS_REGS:
            out.append(("r", _MIPS_REGS[part.lower()]))
        elif part in LABEL_NAMES:
            out.append(("L",))
        elif re.match("^%s$" % _NUM, part):
            out.append(("i", _num(part)))
        else:
            raise _Unknown(part)
    return out


def _mips_reg(t):
    r = _MIPS_REGS.get(t.lower())
    if r is None:
        raise _Unknown(t)
    return r


def _mips_common(mn, ops):
    zero, ra = ("r", "$0"), ("r", "$31")
    kinds = "".join(o[0] for o in ops)
    if mn == "nop" and not ops:
        return ("sll", (zero, zero, ("i", 0)))
    if mn in ("addu", "or") and kinds == "rrr" and ops[2] == zero:
        return ("move", (ops[0], ops[1]))
    if mn == "not" and kinds == "rr":
        return ("nor", (ops[0], ops[1], zero))
    if mn in ("negu", "neg") and kinds == "rr":
        return ("sub" + mn[3:], (ops[0], zero, ops[1]))
    if mn == "jalr" and kinds == "r":
        return ("jalr", (ra, ops[0]))
    if mn in ("j", "jal") and kinds in ("i", "L"):
        return (mn, (("L",),))
    return (mn, tuple(ops))


def _mips_ppci(text):
    mn, rest = _split_mnemonic(text)
    ops = _mips_ops(rest)
    if mn == "lui" and len(ops) == 3 and ops[1] == ("r", "$0"):
        ops = [ops[0], ops[2]]  # printed with the rs field, which the architecture requires to be 0
    return [_mips_common(mn, ops)]


def _mips_ref(texts):
    out = []
    for t in texts:
        for mark in _MIPS_MARKS:
            t = t.replace(mark, "")
        mn, rest = _split_mnemonic(t)
        ops = _mips_ops(rest)
        out.append(_mips_common(mn, ops))
    return out


# --- M68000 (M68000 Family Programmer's Reference Manual) ------------------------------------------
# ppci glues the size to the mnemonic (addb/addw/addl, moveaw, ...); the reference prints
# Motorola syntax with %-prefixed registers: add.b (d16,%an), %dn.  MOVE with an address register
# destination is MOVEA (PRM 4-116).  d16 / abs.W / immediates are compared modulo the operand size.

_M68_REGS = {"d%d" % i: "d%d" % i for i in range(8)}
_M68_REGS.update({"a%d" % i: "a%d" % i for i in range(8)})
_M68_REGS["sp"] = "a7"
_M68_SIZED = ("add", "and", "cmp", "eor", "or", "sub", "neg", "not", "move", "movea", "adda", "suba", "cmpa")
_M68_BITS = {"b": 8, "w": 16, "l": 32}
_M68_BCC = ("bne", "beq", "bge", "blt", "bgt", "ble", "bra", "bsr", "bhi", "bls", "bcc", "bcs", "bvc", "bvs", "bpl", "bmi")


def _m68_reg(t):
    r = _M68_REGS.get(t.strip().lstrip("%").lower())
    if r is None:
        raise _Unknown(t)
    return r


def _m68_operand(t, bits):
    t = t.strip()
    if t.startswith("#"):
        return ("i", _num(t[1:]) & ((1 << bits) - 1))
    if t in LABEL_NAMES:
        return ("a", "pcrel", None, "L")
    m = re.match(r"^\(\s*(%s)\s*\)\.([wl])$" % _NUM, t)
    if m:
        return ("a", "abs" + m.group(2), None, _num(m.group(1)) & (0xFFFF if m.group(2) == "w" else 0xFFFFFFFF))
    m = re.match(r"^\(\s*(%s)\s*,\s*(%%?\w+)\s*\)$" % _NUM, t)
    if m:
        if m.group(2).lstrip("%").lower() == "pc":
            return ("a", "pcrel", None, _num(m.group(1)) & 0xFFFF)
        return ("a", "disp", _m68_reg(m.group(2)), _num(m.group(1)) & 0xFFFF)
    m = re.match(r"^(-)?\(\s*(%?\w+)\s*\)(\+)?$", t)
    if m:
        mode = "predec" if m.group(1) else ("postinc" if m.group(3) else "ind")
        if m.group(1) and m.group(3):
            raise _Unknown(t)
        return ("a", mode, _m68_reg(m.group(2)), 0)
    if t.lstrip("%").lower() in _M68_REGS:
        return ("r", _m68_reg(t))
    raise _Unknown(t)


def _m68_norm(text, ref):
    mn, rest = _split_mnemonic(text)
    size = None
    if ref:
        if "." in mn:
            mn, sz = mn.split(".", 1)
            if sz not in _M68_BITS:
                raise _Unknown(text)
            size = sz
    else:
        if mn[-1:] in _M68_BITS and mn[:-1] in _M68_SIZED:
            mn, size = mn[:-1], mn[-1]
    parts = _split_commas(rest)
    if mn in _M68_BCC:
        if len(parts) != 1 or not (parts[0] in LABEL_NAMES or (ref and re.match(r"^\$[0-9a-fA-F]+$|^%s$" % _NUM, parts[0]))):
            raise _Unknown(text)
        return (mn, (("L",),))
    bits = _M68_BITS.get(size, 32)
    if mn == "moveq":
        bits = 8
    if mn == "lea" or mn == "jsr":
        bits = 32
    ops = [_m68_operand(p, bits) for p in parts]
    if mn == "move" and len(ops) == 2 and ops[1][0] == "r" and ops[1][1].startswith("a"):
        mn = "movea"
    return (mn + ("." + size if size else ""), tuple(ops))


def _m68_ppci(text):
    return [_m68_norm(text, False)]


def _m68_ref(texts):
    return [_m68_norm(t, True) for t in texts]


STRICT_FAMILIES = ("msp430", "avr", "mips", "m68k")


# --- entry points -----------------------------------------------------------------


def normaliser_family(target, round2=False):
    """Family of the hand-written normaliser for the target, or None.  The round-2 families
    (msp430, avr, mips, m68k) are only reported when asked for: C10's decode part keys on this
    function and was built and triaged for the first six configurations only."""
    if target.startswith("riscv"):
        return "riscv"
    if target in ("arm", "arm:thumb", "x86_64"):
        return target
    if round2 and target in STRICT_FAMILIES:
        return target
    return None


_R2_PPCI = {"msp430": _msp_ppci, "avr": _avr_ppci, "mips": _mips_ppci, "m68k": _m68_ppci}
_R2_REF = {"msp430": _msp_ref, "avr": _avr_ref, "mips": _mips_ref, "m68k": _m68_ref}


def norm_ppci(target, text):
    fam = normaliser_family(target, round2=True)
    try:
        if fam in _R2_PPCI:
            return _R2_PPCI[fam](text)
        if fam == "riscv":
            return _rv_ppci(text)
        if fam == "arm":
            return _arm_ppci(text)
        if fam == "arm:thumb":
            return _thumb_ppci(text)
        if fam == "x86_64":
            return _x86_ppci(text)
    except (_Unknown, ValueError, KeyError, IndexError):
        return None
    return None


def norm_ref(target, decoded):
    """decoded: [(text, nbytes), ...] as returned by reference_decode."""
    fam = normaliser_family(target, round2=True)
    texts = [t for t, _ in decoded]
    try:
        if fam in _R2_REF:
            return _R2_REF[fam](texts)
        if fam == "riscv":
            return _rv_ref(texts)
        if fam == "arm":
            return _arm_ref(texts)
        if fam == "arm:thumb":
            return _thumb_ref(texts, [n for _, n in decoded])
        if fam == "x86_64":
            return _x86_ref(texts)
    except (_Unknown, ValueError, KeyError, IndexError):
        return None
    return None


def compare(a, b, strict=False):
    """None when the canonical forms agree, else a structured difference:
    ("count", n_a, n_b) | ("mnemonic", i, m_a, m_b) | ("shape", i) | ("operand", i, k, x, y) |
    ("arity", i, n_a, n_b) (strict only).
    ("L",) matches any immediate/label; x86 ("mL",) matches any memory operand without base;
    ("a", mode, reg, "L") matches any displacement of the same mode and register.
    strict (round-2 families): another operand count is ("arity", ...) and another operand kind is
    an ("operand", ...) difference instead of the unverifiable "shape"."""
    if len(a) != len(b):
        return ("count", len(a), len(b))
    for i, ((ma, oa), (mb, ob)) in enumerate(zip(a, b)):
        if ma != mb:
            return ("mnemonic", i, ma, mb)
        if len(oa) != len(ob):
            if strict:
                return ("arity", i, len(oa), len(ob))
            return ("shape", i)  # different operand count: syntax variants the normaliser does not bridge
        for k, (x, y) in enumerate(zip(oa, ob)):
            if x == y:
                continue
            if x == ("L",) and y[0] in ("i", "L"):
                continue
            if y == ("L",) and x[0] in ("i", "L"):
                continue
            if x == ("mL",) and y[0] == "m" and y[1] is None and y[2] is None:
                continue
            if x[0] == y[0] == "a" and x[1:3] == y[1:3] and "L" in (x[3], y[3]):
                continue
            if x[0] != y[0]:
                if strict:
                    return ("operand", i, k, x, y)
                return ("shape", i)
            return ("operand", i, k, x, y)
    return None


def describe_diff(d):
    if d[0] == "count":
        return "instruction count %d vs %d" % (d[1], d[2])
    if d[0] == "mnemonic":
        return "mnemonic %s vs %s" % (d[2], d[3])
    if d[0] == "operand":
        return "operand %d: %s vs %s" % (d[2], _show(d[3]), _show(d[4]))
    if d[0] == "arity":
        return "%d operands vs %d" % (d[2], d[3])
    return d[0]


def _show(o):
    if o[0] == "set":
        return "{%s}" % ",".join(sorted(o[1]))
    return ":".join(str(v) for v in o[1:]) if len(o) > 1 else o[0]
