"""Worker process of C30: compiles units and reports every observable stage.

stdin : {"warmup": [unit...], "units": [unit...], "texts": bool}
        unit = {"kind": "c", "src": text, "target", "level", "opt"} | {"kind": "ir", "desc": genir description, ...}
stdout: one JSON line {"results": [{"ir", "selected", "allocated", "object", "image"} (texts or digests) | {"error": ..}],
        "hashseed": ..., "pid": ...}
The process is started by vf/props/c30.py with an explicit environment (PYTHONHASHSEED, with/without setarch -R).
"""

import json
import logging
import os
import sys


def compile_unit(u):
    from . import cgstage, genir
    from ppci.api import ir_to_object, optimize

    if u["kind"] == "c":
        m = cgstage.c_frontend(u["src"], u["target"])
    else:
        m = genir.build(u["desc"])
    optimize(m, level=u["level"])
    res = {"ir": cgstage.ir_text(m)}
    with cgstage.Observer() as obs:
        obj = ir_to_object([m], u["target"], opt=u["opt"])
    res["selected"] = "\n".join(obs.selected)
    res["allocated"] = "\n".join(obs.allocated)
    res["object"] = cgstage.object_text(obj)
    img, why = cgstage.link_image(obj)
    res["image"] = img if img is not None else "link refused: " + why
    res["spills"] = obs.spills
    return res


def main():
    logging.disable(logging.WARNING)
    repo = os.environ.get("VERIF_REPO", "/repo")
    if repo != "/repo":
        sys.path.insert(0, repo)
    job = json.load(sys.stdin)
    for u in job.get("warmup", []):
        try:
            compile_unit(u)
        except Exception:
            pass
    out = []
    for u in job["units"]:
        try:
            out.append(compile_unit(u))
        except Exception as e:
            out.append({"error": "%s: %s" % (type(e).__name__, str(e)[:200])})
    json.dump({"results": out, "hashseed": os.environ.get("PYTHONHASHSEED"), "pid": os.getpid()}, sys.stdout)
    sys.stdout.write("\n")


if __name__ == "__main__":
    main()
