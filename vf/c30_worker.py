"""Worker process of C30: compiles units and reports every observable stage.

stdin : {"units": [unit...]}   compiled in the given order in this one process
        unit = {"kind": "c", "src": text, "target", "level", "opt"} | {"kind": "ir", "desc": genir description, ...}
stdout: one JSON line {"results": [{"ir", "selected", "allocated", "object", "image", "spills", "callee_saved"} | {"error": ..}],
        "hashseed": ..., "pid": ..., "aslr": bool}
The process is started by vf/props/c30.py with an explicit environment (PYTHONHASHSEED, with/without setarch -R).
"""

import json
import logging
import os
import sys


def compile_unit(u):
    from . import cgstage
    from ppci.api import ir_to_object, optimize

    if u["kind"] == "c":
        m = cgstage.c_frontend(u["src"], u["target"])
    else:
        from . import genir  # imports hypothesis: only when needed

        m = genir.build(u["desc"])
    optimize(m, level=u["level"])
    res = {"ir": cgstage.ir_text(m)}
    with cgstage.Observer() as obs:
        obj = ir_to_object([m], u["target"], opt=u["opt"])
    res["selected"] = "\n".join(obs.selected)
    res["allocated"] = "\n".join(obs.allocated)
    res["object"] = cgstage.object_text(obj)
    img, why = cgstage.link_image(obj)
    res["image"] = img if img is not None else "link refused: " + why
    res["spills"] = obs.spills
    res["callee_saved"] = obs.callee_saved
    return res


ADDR_NO_RANDOMIZE = 0x0040000


def personality():
    try:
        with open("/proc/self/personality") as f:
            return int(f.read().strip(), 16)
    except (OSError, ValueError):
        return None


def ensure_aslr():
    """C30_ASLR=1: make sure address-space randomisation is ON in this process (the check runs under setarch -R and
    the flag is inherited): clear ADDR_NO_RANDOMIZE and re-exec; the new image is then laid out randomly."""
    if os.environ.get("C30_ASLR") != "1" or os.environ.get("C30_REEXEC") == "1":
        return
    cur = personality()
    if cur is None or not cur & ADDR_NO_RANDOMIZE:
        return
    import ctypes

    libc = ctypes.CDLL(None, use_errno=True)
    if libc.personality(ctypes.c_ulong(cur & ~ADDR_NO_RANDOMIZE)) == -1:
        return
    os.environ["C30_REEXEC"] = "1"
    os.execv(sys.executable, [sys.executable, "-m", "vf.c30_worker"])


def main():
    ensure_aslr()
    logging.disable(logging.WARNING)
    repo = os.environ.get("VERIF_REPO", "/repo")
    if repo != "/repo":
        sys.path.insert(0, repo)
    job = json.load(sys.stdin)
    out = []
    for u in job["units"]:
        try:
            out.append(compile_unit(u))
        except Exception as e:
            out.append({"error": "%s: %s" % (type(e).__name__, str(e)[:200])})
    cur = personality()
    json.dump({"results": out, "hashseed": os.environ.get("PYTHONHASHSEED"), "pid": os.getpid(),
               "aslr": None if cur is None else not cur & ADDR_NO_RANDOMIZE}, sys.stdout)
    sys.stdout.write("\n")


if __name__ == "__main__":
    main()
