"""Run a wasm binary through ppci's `instantiate` in a forked child and report what happened in
the same vocabulary as vf/noderun.py (values as (type, python value): ints signed, floats as
IEEE bit patterns).

    out = run_ppci(wasm_bytes, target, calls, globals, memory, imports, timeout_s, twice=False)
    out = {"status": "ok" | "killed:<SIGNAME>" | "timeout" | "exit:<n>",
           "load": None | {"exc": type, "msg", "frame"},          Module(bytes) failed
           "instantiate": None | {"exc", "msg", "frame", "trap": bool},
           "calls": [{"v": [(t, value)]} | {"exc", "msg", "frame", "trap": bool}],   (may be short)
           "globals": {name: value | {"exc",...}}, "mem": None | {"pages", "sha256", "lo"} | {"exc",...}}

The child writes one JSON line per step, so that the parent knows how far it got when native code
kills the process.  `trap` is True for ppci's own trap exceptions (WasmTrapException and
runtime.Unreachable); any other exception type is reported by name.
"""

import hashlib
import json
import os
import select
import signal
import struct
import sys
import traceback

from . import core


def _bits(t, v):
    """python value returned by ppci -> wire value."""
    if t == "i32" or t == "i64":
        bits = int(t[1:])
        v = int(v) & ((1 << bits) - 1)
        return v - (1 << bits) if v >> (bits - 1) else v
    if t == "f32":
        try:
            return struct.unpack("<I", struct.pack("<f", v))[0]
        except OverflowError:
            return "overflow:%r" % (v,)
    if t == "f64":
        return struct.unpack("<Q", struct.pack("<d", v))[0]
    raise ValueError(t)


def _unbits(t, v):
    """wire value -> python argument for a ppci exported function."""
    if t in ("i32", "i64"):
        bits = int(t[1:])
        v = int(v) & ((1 << bits) - 1)
        return v - (1 << bits) if v >> (bits - 1) else v
    if t == "f32":
        return struct.unpack("<f", struct.pack("<I", int(v) & 0xFFFFFFFF))[0]
    return struct.unpack("<d", struct.pack("<Q", int(v) & 0xFFFFFFFFFFFFFFFF))[0]


def _exc_info(e):
    tb = traceback.extract_tb(e.__traceback__)
    frame = ""
    for fr in reversed(tb):
        if "/ppci/" in fr.filename:
            frame = "%s:%s" % (fr.filename.split("/ppci/", 1)[1], fr.name)
            break
    name = type(e).__name__
    return {"exc": name, "msg": str(e)[:300], "frame": frame, "trap": name in ("WasmTrapException", "Unreachable")}


def host_imports():
    """The same catalogue as hostImports() in noderun.js, annotated the way ppci's native loader
    needs (ir types)."""
    from ppci import ir
    from ppci.wasm import components

    state = {"last": 0}

    def w32(v):
        v &= 0xFFFFFFFF
        return v - (1 << 32) if v >> 31 else v

    def w64(v):
        v &= 0xFFFFFFFFFFFFFFFF
        return v - (1 << 64) if v >> 63 else v

    def imp_i32(x: ir.i32) -> ir.i32:
        return w32(x * 3 + 1)

    def imp_i64(x: ir.i64) -> ir.i64:
        return w64(w64(x) ^ 0x5555555555555555)

    def imp_f64(x: ir.f64) -> ir.f64:
        return x + 1.5

    def imp_f32(x: ir.f32) -> ir.f32:
        return struct.unpack("<f", struct.pack("<f", x * 2))[0] if abs(x) < 1e38 else x * 2

    def imp_add(a: ir.i32, b: ir.i32) -> ir.i32:
        return w32(a + b)

    def imp_put(x: ir.i32) -> None:
        state["last"] = w32(x)

    def imp_get() -> ir.i32:
        return state["last"]

    return {
        "env": {
            "imp_i32": imp_i32,
            "imp_i64": imp_i64,
            "imp_f64": imp_f64,
            "imp_f32": imp_f32,
            "imp_add": imp_add,
            "imp_put": imp_put,
            "imp_get": imp_get,
            "g_i32": components.Global("$g_i32", "i32", False, [components.Instruction("i32.const", 1234567)]),
            "g_i64": components.Global("$g_i64", "i64", False, [components.Instruction("i64.const", -9876543210)]),
        }
    }


def _child(w, wasm, target, calls, globals_, memory, imports, memlo, twice=False):
    def put(kind, val):
        os.write(w, (json.dumps([kind, val]) + "\n").encode())

    # silence ppci logging and ctypes' "Exception ignored on calling ctypes callback" chatter
    devnull = os.open(os.devnull, os.O_WRONLY)
    os.dup2(devnull, 1)
    os.dup2(devnull, 2)
    import logging

    logging.disable(logging.CRITICAL)
    try:
        from ppci.wasm import Module, instantiate

        try:
            m = Module(bytes(wasm))
        except Exception as e:
            put("load", _exc_info(e))
            return
        put("load", None)
        try:
            inst = instantiate(m, imports=host_imports() if imports else None, target=target)
            if twice:  # the same Module object instantiated again; the second instance is the one observed
                inst = instantiate(m, imports=host_imports() if imports else None, target=target)
        except Exception as e:
            put("instantiate", _exc_info(e))
            return
        put("instantiate", None)
        for f, args, rt in calls:
            try:
                fn = inst.exports[f]
                r = fn(*[_unbits(t, v) for t, v in args])
                put("call", {"v": [[rt[0], _bits(rt[0], r)]] if rt else []})
            except Exception as e:
                put("call", _exc_info(e))
        for name, t in (globals_ or {}).items():
            try:
                put("global", [name, _bits(t, inst.exports[name].read())])
            except Exception as e:
                put("global", [name, _exc_info(e)])
        if memory:
            try:
                mem = inst.exports[memory]
                pages = mem.size()
                data = bytes(mem.read(0, pages * 65536)) if pages else b""
                put("mem", {"pages": pages, "sha256": hashlib.sha256(data).hexdigest(), "lo": data[:memlo].hex()})
            except Exception as e:
                put("mem", _exc_info(e))
        put("done", None)
    except BaseException as e:  # harness problem inside the child
        put("harness", traceback.format_exc()[-2000:])


def run_ppci(wasm, target, calls=(), globals=None, memory=None, imports=False, timeout_s=60.0, memlo=256, twice=False):
    r, w = os.pipe()
    sys.stdout.flush()
    sys.stderr.flush()
    pid = os.fork()
    if pid == 0:
        code = 0
        try:
            os.close(r)
            _child(w, wasm, target, list(calls), globals, memory, imports, memlo, twice)
        except BaseException:
            code = 99
        finally:
            os._exit(code)
    os.close(w)
    buf = b""
    timed_out = False
    import time

    t_end = time.time() + timeout_s
    while True:
        left = t_end - time.time()
        if left <= 0:
            timed_out = True
            break
        rd, _, _ = select.select([r], [], [], left)
        if not rd:
            timed_out = True
            break
        chunk = os.read(r, 1 << 16)
        if not chunk:
            break
        buf += chunk
    os.close(r)
    if timed_out:
        try:
            os.kill(pid, signal.SIGKILL)
        except OSError:
            pass
    _, st = os.waitpid(pid, 0)
    out = {"status": "ok", "load": None, "instantiate": None, "calls": [], "globals": {}, "mem": None, "done": False}
    for line in buf.split(b"\n"):
        if not line.strip():
            continue
        try:
            kind, val = json.loads(line)
        except ValueError:
            continue  # torn last line of a killed child
        if kind == "load":
            out["load"] = val
        elif kind == "instantiate":
            out["instantiate"] = val
        elif kind == "call":
            if "v" in val:
                val["v"] = [tuple(x) for x in val["v"]]
            out["calls"].append(val)
        elif kind == "global":
            out["globals"][val[0]] = val[1]
        elif kind == "mem":
            out["mem"] = val
        elif kind == "done":
            out["done"] = True
        elif kind == "harness":
            raise core.HarnessError("ppci child: " + val)
    if timed_out:
        out["status"] = "timeout"
    elif os.WIFSIGNALED(st):
        sig = os.WTERMSIG(st)
        try:
            out["status"] = "killed:" + signal.Signals(sig).name
        except ValueError:
            out["status"] = "killed:%d" % sig
    elif os.WEXITSTATUS(st) != 0:
        out["status"] = "exit:%d" % os.WEXITSTATUS(st)
    return out
