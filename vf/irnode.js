// Node/V8 runner for modules produced by ppci.wasm.ir_to_wasm (C23).  Differs from noderun.js in two ways:
//  * host imports are synthesised from a signature list (ppci imports every used ir external from module "js");
//    they log (name, arguments) and return the value of vf/irsem.py:ext_default, so that the external call trace
//    and the values flowing back are the ones the reference interpreter uses;
//  * a job consists of GROUPS of calls; every group runs on a fresh instance (ir_to_wasm does not export the
//    memory, so state is observed through exported reader functions called after the function under test).
// Line protocol: one JSON job per input line, one JSON answer per output line.
//
// job = { id, wasm: <base64>,
//         ext:    [ {name, args: [irtype...], ret: irtype|null} ],
//         groups: [ [ {f: exportName, args: [[wasmtype, valueString] | ["ref", k]], rt: wasmtype|null} ... ] ... ] }
//   an argument ["ref", k] is the result of call k of the same group (addresses handed out by the module itself).
//   values: i32/i64 signed decimal strings, f32/f64 hex bit patterns.
// answer = { id, compile: null|errString,
//            groups: [ {inst: null|{trap,msg}, calls: [ {v: valueString|null} | {trap, msg} ], trace: [[name, [argString...]]]} ] }
//   a group stops at its first trap.  trace argument strings: integers normalised to their ir type (decimal),
//   floats as "f:<16 hex digits of the double>" or "nan" (the format of vf/irsem.py observations).
'use strict';
const readline = require('readline');

const cvt = new DataView(new ArrayBuffer(8));
const M64 = (1n << 64n) - 1n;

function decodeArg(t, s) {
  switch (t) {
    case 'i32': return Number(s) | 0;
    case 'i64': return BigInt.asIntN(64, BigInt(s));
    case 'f32': cvt.setUint32(0, parseInt(s, 16)); return cvt.getFloat32(0);
    case 'f64': cvt.setBigUint64(0, BigInt('0x' + s)); return cvt.getFloat64(0);
  }
  throw new Error('bad arg type ' + t);
}

function encodeVal(t, v) {
  switch (t) {
    case 'i32': return String(v | 0);
    case 'i64': return BigInt.asIntN(64, BigInt(v)).toString();
    case 'f32':
      if (Number.isNaN(v)) return 'nan';
      cvt.setFloat32(0, v); return cvt.getUint32(0).toString(16).padStart(8, '0');
    case 'f64':
      if (Number.isNaN(v)) return 'nan';
      cvt.setFloat64(0, v); return cvt.getBigUint64(0).toString(16).padStart(16, '0');
  }
  throw new Error('bad result type ' + t);
}

function trapClass(e) {
  const m = String(e && e.message || e);
  if (e instanceof WebAssembly.RuntimeError) {
    if (/divide by zero|remainder by zero/.test(m)) return 'div0';
    if (/divide result unrepresentable/.test(m)) return 'overflow';
    if (/float unrepresentable/.test(m)) return 'trunc';
    if (/memory access out of bounds/.test(m)) return 'oob';
    if (/data segment/.test(m)) return 'oob-data';
    if (/table index is out of bounds|table access out of bounds|element segment/.test(m)) return 'oob-table';
    if (/unreachable/.test(m)) return 'unreachable';
    if (/null function|signature mismatch|function signature|indirect call/.test(m)) return 'indirect';
    return 'trap';
  }
  if (e instanceof RangeError) return 'exhaustion';
  if (e instanceof WebAssembly.LinkError) return 'link';
  return 'error';
}

const IRBITS = { i8: 8, u8: 8, i16: 16, u16: 16, i32: 32, u32: 32, i64: 64, u64: 64, ptr: 32 };
const WIDE = { u32: 1, i64: 1, u64: 1 };   // ir types ppci keeps in a wasm i64

function f64bits(x) { cvt.setFloat64(0, x); return cvt.getBigUint64(0); }

// value as the ir type sees it: BigInt (integers) or Number (floats)
function normArg(t, v) {
  if (t === 'f32' || t === 'f64') return Number(v);
  const b = BigInt(IRBITS[t]);
  const x = BigInt(typeof v === 'bigint' ? v : Math.trunc(v));
  return (t[0] === 'i') ? BigInt.asIntN(Number(b), x) : BigInt.asUintN(Number(b), x);
}

function traceString(t, n) {
  if (t === 'f32' || t === 'f64') return Number.isNaN(n) ? 'nan' : 'f:' + f64bits(n).toString(16).padStart(16, '0');
  return n.toString();
}

// vf/irsem.py: ext_default
function extDefault(name, args, index) {
  let h = 0x9E3779B97F4A7C15n;
  for (const ch of Buffer.from(name, 'utf8')) h = ((h ^ BigInt(ch)) * 0x100000001B3n) & M64;
  for (let a of args) {
    if (typeof a === 'number') a = f64bits(a);
    h = ((h ^ (a & M64)) * 0xFF51AFD7ED558CCDn) & M64;
    h ^= h >> 33n;
  }
  h = ((h ^ BigInt(index)) * 0xC4CEB9FE1A85EC53n) & M64;
  h ^= h >> 29n;
  return h & 0x7Fn;
}

function hostImports(ext, trace) {
  const js = {};
  for (const e of ext || []) {
    js[e.name] = (...raw) => {
      const args = e.args.map((t, i) => normArg(t, raw[i]));
      const index = trace.length;
      trace.push([e.name, e.args.map((t, i) => traceString(t, args[i]))]);
      if (!e.ret) return undefined;
      const r = extDefault(e.name, args, index);
      if (e.ret === 'f32' || e.ret === 'f64') return Number(r);
      return WIDE[e.ret] ? r : Number(r);
    };
  }
  return { js };
}

function runJob(job) {
  const out = { id: job.id, compile: null, groups: [] };
  let mod;
  try {
    mod = new WebAssembly.Module(Buffer.from(job.wasm, 'base64'));
  } catch (e) {
    out.compile = String(e && e.message || e);
    return out;
  }
  for (const group of job.groups || []) {
    const g = { inst: null, calls: [], trace: [] };
    out.groups.push(g);
    let inst;
    try {
      inst = new WebAssembly.Instance(mod, hostImports(job.ext, g.trace));
    } catch (e) {
      g.inst = { trap: trapClass(e), msg: String(e && e.message || e).slice(0, 200) };
      continue;
    }
    const raw = [];
    for (const c of group) {
      try {
        const f = inst.exports[c.f];
        if (typeof f !== 'function') throw new Error('no exported function ' + c.f);
        const r = f(...c.args.map(a => a[0] === 'ref' ? raw[a[1]] : decodeArg(a[0], a[1])));
        raw.push(r);
        g.calls.push({ v: c.rt ? encodeVal(c.rt, r) : null });
      } catch (e) {
        g.calls.push({ trap: trapClass(e), msg: String(e && e.message || e).slice(0, 200) });
        break;
      }
    }
  }
  return out;
}

const rl = readline.createInterface({ input: process.stdin, terminal: false });
rl.on('line', (line) => {
  if (!line.trim()) return;
  let ans;
  try { ans = runJob(JSON.parse(line)); }
  catch (e) { ans = { error: String(e && e.stack || e) }; }
  process.stdout.write(JSON.stringify(ans) + '\n');
});
