"""Instruction-instance generator over every ppci ISA (DESIGN.md 3.7).

An *instance description* is plain JSON:

    {"target": "riscv:rvc", "cls": "Addi", "args": [<arg>, ...]}

with one <arg> per formal argument of the class' syntax:

    ["r", "R3"]                 a register of the formal argument's register class (by name)
    123                         an int operand
    "lbl_a"                     a str operand (label / symbol name)
    ["c", "RmMem", [<arg>...]]  a constructor (sub-syntax) operand, class chosen by name among
                                the options of the formal argument
    ["s", ["R0", "LR"]]         a register set (ARM/Thumb push/pop lists)

`cls` is the class name; when several classes of one ISA share a name the k-th (k>=2) one
in `isa.instructions` order is called "Name#k".  `build(desc)` reconstructs the real object.

The generator is generic: it only looks at `syntax.formal_arguments` and the declared class of
each formal argument.  Integer operands are drawn from a *probed* set: for every int leaf a fixed
candidate list (0, +-1, +-2^k, +-2^k+-1, ...) is tried against `encode()` with all other operands
at a default, the accepted candidates delimit an interval, and draws come from the accepted
candidates, the interval, and its neighbourhood.
"""

import functools

TARGETS = (
    "arm",
    "arm:thumb",
    "avr",
    "m68k",
    "microblaze",
    "mips",
    "msp430",
    "or1k",
    "riscv",
    "riscv:rvc",
    "riscv:rvf",
    "stm8",
    "x86_64",
    "xtensa",
    "mcs6500",
)

LABELS = ("lbl_a", "sym9", "Zq_target", "l0")

# Data pseudo-instructions (db/dw/dd/dq/dcd/ds/...) take their operand as data, not as an
# instruction operand; they are outside the domain of C08 (DESIGN 3.8) but inside C09.
DATA_MNEMONICS = frozenset(
    ["db", "dw", "dd", "dq", "dcd", "dcd2", "ds", "dz", "dword", "word", "byte", "zero"]
)


def preload():
    """Import everything the workers need (ppci's arch modules, Hypothesis) in the parent, so that
    forked workers do not each compile the sources again; architectures are not instantiated."""
    import hypothesis  # noqa: F401
    import hypothesis.strategies  # noqa: F401
    import ppci.api  # noqa: F401
    import ppci.arch.target_list  # noqa: F401
    import ppci.binutils.outstream  # noqa: F401
    import gc

    gc.collect()
    gc.freeze()  # keep the collector from touching (and thereby copying) the inherited heap


class BuildError(Exception):
    """The description cannot be turned into an instance (harness-side problem or
    argument of a kind this generator does not model)."""


@functools.lru_cache(maxsize=None)
def arch(target):
    from ppci.api import get_arch

    return get_arch(target)


@functools.lru_cache(maxsize=None)
def _class_table(target):
    seen = {}
    table = []
    for cls in arch(target).isa.instructions:
        if not getattr(cls, "syntax", None):
            continue
        n = seen.get(cls.__name__, 0) + 1
        seen[cls.__name__] = n
        cid = cls.__name__ if n == 1 else "%s#%d" % (cls.__name__, n)
        table.append((cid, cls))
    return tuple(table)


def instruction_classes(target):
    """[(class id, class)] for every instruction class of the target that has a syntax."""
    return _class_table(target)


@functools.lru_cache(maxsize=None)
def _class_map(target):
    return dict(_class_table(target))


def class_by_id(target, cid):
    try:
        return _class_map(target)[cid]
    except KeyError:
        raise BuildError("no class %s in %s" % (cid, target))


def mnemonic(cls):
    """First literal identifier of the syntax (lower case) or ''."""
    for e in cls.syntax.syntax:
        if isinstance(e, str) and not e.isspace():
            return e
        if not isinstance(e, str):
            return ""
    return ""


def is_data_pseudo(cls):
    return mnemonic(cls) in DATA_MNEMONICS


# ---------------------------------------------------------------------------
# kinds of formal arguments


def kind_of(c):
    from ppci.arch.encoding import Constructor
    from ppci.arch.registers import Register

    if isinstance(c, tuple):
        return "ctor"
    if isinstance(c, type):
        if issubclass(c, bool):
            return "other"
        if issubclass(c, Register):
            return "reg"
        if c is int:
            return "int"
        if c is str:
            return "str"
        if issubclass(c, Constructor):
            return "ctor"
        if issubclass(c, (set, frozenset)):
            return "set"
    return "other"


def ctor_options(c):
    return c if isinstance(c, tuple) else (c,)


def registers_of(c):
    return tuple(c.all_registers())


def _uniq_ids(regs):
    seen = {}
    out = []
    for r in regs:
        n = seen.get(r.name, 0) + 1
        seen[r.name] = n
        out.append(r.name if n == 1 else "%s#%d" % (r.name, n))
    return out


_REG_IDS = {}


def reg_ids(c):
    """Identifiers of the registers of a class, aligned with registers_of(c): the register name,
    or "name#k" for the k-th register carrying an already used name."""
    if c not in _REG_IDS:
        regs = registers_of(c)
        ids = _uniq_ids(regs)
        _REG_IDS[c] = (tuple(ids), dict(zip(ids, regs)), {id(r): i for i, r in zip(ids, regs)})
    return _REG_IDS[c]


def reg_id_of(c, reg):
    return reg_ids(c)[2].get(id(reg), reg.name)


def _set_registers(target):
    """Registers a register-set operand ranges over (ARM / Thumb)."""
    from ppci.arch.arm.registers import ArmRegister

    return tuple(ArmRegister.all_registers())


# ---------------------------------------------------------------------------
# description -> object


def _build_args(target, cls, argdescs):
    fargs = cls.syntax.formal_arguments
    if len(fargs) != len(argdescs):
        raise BuildError("%s takes %d arguments, got %d" % (cls.__name__, len(fargs), len(argdescs)))
    out = []
    for fa, d in zip(fargs, argdescs):
        k = kind_of(fa._cls)
        if k == "reg":
            if not (isinstance(d, list) and len(d) == 2 and d[0] == "r"):
                raise BuildError("register expected, got %r" % (d,))
            r = reg_ids(fa._cls)[1].get(d[1])
            if r is None:
                raise BuildError("no register %s in %s" % (d[1], fa._cls.__name__))
            out.append(r)
        elif k == "int":
            if isinstance(d, bool) or not isinstance(d, int):
                raise BuildError("int expected, got %r" % (d,))
            out.append(d)
        elif k == "str":
            if not isinstance(d, str):
                raise BuildError("str expected, got %r" % (d,))
            out.append(d)
        elif k == "ctor":
            if not (isinstance(d, list) and len(d) == 3 and d[0] == "c"):
                raise BuildError("constructor expected, got %r" % (d,))
            for sub in ctor_options(fa._cls):
                if sub.__name__ == d[1]:
                    out.append(sub(*_build_args(target, sub, d[2])))
                    break
            else:
                raise BuildError("no constructor %s" % d[1])
        elif k == "set":
            if not (isinstance(d, list) and len(d) == 2 and d[0] == "s"):
                raise BuildError("register set expected, got %r" % (d,))
            regs = dict(zip(_uniq_ids(_set_registers(target)), _set_registers(target)))
            try:
                out.append(fa._cls(regs[n] for n in d[1]))
            except KeyError as e:
                raise BuildError("no register %s" % e)
        else:
            raise BuildError("unsupported argument class %r" % (fa._cls,))
    return out


def build(desc):
    """Rebuild the instruction instance a description stands for."""
    target = desc["target"]
    cls = class_by_id(target, desc["cls"])
    return cls(*_build_args(target, cls, desc["args"]))


# ---------------------------------------------------------------------------
# walking descriptions


def int_paths(cls):
    """Paths (tuples of indices / (index, ctor name)) of all int leaves reachable from cls.
    A path element is an int i (formal argument i) optionally followed, for constructor
    arguments, by the constructor name."""
    out = []

    def walk(c, prefix):
        for i, fa in enumerate(c.syntax.formal_arguments):
            k = kind_of(fa._cls)
            if k == "int":
                out.append(prefix + (i,))
            elif k == "ctor":
                for sub in ctor_options(fa._cls):
                    if sub.syntax:
                        walk(sub, prefix + (i, sub.__name__))

    walk(cls, ())
    return out


def get_at(args, path):
    """Value of the int leaf `path` in an args description, or None when the description
    takes another constructor alternative."""
    cur = args
    i = 0
    while i < len(path):
        d = cur[path[i]]
        i += 1
        if i < len(path) and isinstance(path[i], str):
            if not (isinstance(d, list) and d and d[0] == "c" and d[1] == path[i]):
                return None
            cur = d[2]
            i += 1
        else:
            return d
    return None


def set_at(args, path, value):
    """Copy of args with int leaf `path` replaced."""
    args = list(args)
    if len(path) == 1:
        args[path[0]] = value
        return args
    d = args[path[0]]
    assert d[0] == "c" and d[1] == path[1]
    args[path[0]] = ["c", d[1], set_at(d[2], path[2:], value)]
    return args


def leaves(cls, args):
    """Yield (kind, value) of every leaf of a description."""
    for fa, d in zip(cls.syntax.formal_arguments, args):
        k = kind_of(fa._cls)
        if k == "ctor":
            for sub in ctor_options(fa._cls):
                if sub.__name__ == d[1]:
                    yield from leaves(sub, d[2])
        else:
            yield k, d


# ---------------------------------------------------------------------------
# default descriptions and probing of int operands


def _default_args(target, cls, ival, choice=0, force=(), depth=0):
    """Default argument descriptions: second register of each class, `ival` for ints, the
    `choice`-th constructor alternative -- except along `force` (an int-leaf path), where the
    alternatives named by the path are taken."""
    out = []
    for i, fa in enumerate(cls.syntax.formal_arguments):
        k = kind_of(fa._cls)
        if k == "reg":
            ids = reg_ids(fa._cls)[0]
            out.append(["r", ids[1 if len(ids) > 1 else 0]])
        elif k == "int":
            out.append(ival)
        elif k == "str":
            out.append(LABELS[0])
        elif k == "ctor":
            opts = [s for s in ctor_options(fa._cls) if s.syntax]
            if not opts or depth > 6:
                raise BuildError("no constructor alternative")
            sub_force = ()
            sub = opts[choice % len(opts)]
            if len(force) >= 2 and force[0] == i and isinstance(force[1], str):
                for s in opts:
                    if s.__name__ == force[1]:
                        sub = s
                        sub_force = force[2:]
            out.append(["c", sub.__name__, _default_args(target, sub, ival, choice, sub_force, depth + 1)])
        elif k == "set":
            out.append(["s", [_set_registers(target)[1].name]])
        else:
            raise BuildError("unsupported argument class %r" % (fa._cls,))
    return out


def encoding_of(desc):
    """(bytes, relocation summary) of the instance, or None when ppci does not accept it (it
    cannot be built, encoded, asked for relocations or printed)."""
    try:
        ins = build(desc)
        data, relocs = emit_direct_parts(ins)
        str(ins)
        return data, tuple((r.name, r.symbol_name, r.offset, r.addend) for r in relocs)
    except BuildError:
        raise
    except Exception:
        return None


def accepts(desc):
    """True when the instance can be built, encoded, asked for relocations and printed."""
    return encoding_of(desc) is not None


def emit_direct_parts(ins):
    """(bytes, relocation objects) of an instance, expanding artificial instructions the way
    OutputStream.emit does."""
    from ppci.arch.generic_instructions import ArtificialInstruction

    if isinstance(ins, ArtificialInstruction):
        data = b""
        relocs = list(ins.relocations())
        for sub in ins.render():
            d, r = emit_direct_parts(sub)
            relocs.extend(x.shifted(len(data)) for x in r)
            data += d
        return data, relocs
    return ins.encode(), list(ins.relocations())


def value_cap(cls):
    """Largest operand magnitude worth trying: space-reserving directives (`ds n`, `.zero n`)
    emit n bytes, so their operand is kept small; everything else is unbounded."""
    if cls.__module__.endswith("data_instructions") and not getattr(cls, "tokens", None) and (
        mnemonic(cls) in ("ds", ".")
    ):
        return 4100
    return 1 << 70


def candidate_ints(full=True):
    """Boundary candidates: 0, small values, +-2^k and +-2^k+-1, aligned values just inside 2^k.
    The reduced list (quick tier) keeps every k up to 33 and samples the exponents above (the
    large ones only tell whether an operand is range-checked at all)."""
    vals = {0, 1, -1, 2, -2, 3, -3, 5, 6, 7, 10, 12, 20, 24, 100, -100}
    ks = range(1, 66) if full else list(range(1, 34)) + [40, 48, 56, 63, 64, 65]
    for k in ks:
        for d in (-1, 0, 1) if full or k <= 12 else (-1, 0):
            vals.add((1 << k) + d)  # 2^k - 1 | 2^k : last value of a k-bit unsigned field, first beyond
            vals.add(-(1 << k) - d - (0 if full or k <= 12 else 1))  # -2^k | -2^k - 1
    for k in range(2, 33 if full else 22):  # aligned values just inside a power of two
        for a in (2, 4, 8):
            vals.add((1 << k) - a)
            vals.add(-(1 << k) + a)
    return sorted(vals)


CANDIDATES = candidate_ints()


def configure(thorough):
    """Select the candidate list for the tier; call before any probing (the probes are cached)."""
    global CANDIDATES
    CANDIDATES = candidate_ints(full=bool(thorough))
    _probe_full.cache_clear()
    probe.cache_clear()
    probe_reps.cache_clear()
    base_desc.cache_clear()
_SEED_VALUES = (0, 1, 2, 4, 8, 16, 3, 32, 64, 256, 5)


def _find_base(target, cid, force=()):
    cls = class_by_id(target, cid)
    for choice in range(4):
        for v in _SEED_VALUES:
            try:
                args = _default_args(target, cls, v, choice, force)
            except BuildError:
                return None
            d = {"target": target, "cls": cid, "args": args}
            try:
                if accepts(d):
                    return d
            except BuildError:
                return None
    return None


@functools.lru_cache(maxsize=None)
def base_desc(target, cid, path=()):
    """An accepted description of the class that takes the constructor alternatives named by
    `path`; the fixed context in which one int operand is varied.  None if none was found."""
    return _find_base(target, cid, path)


@functools.lru_cache(maxsize=None)
def _probe_full(target, cid):
    cls = class_by_id(target, cid)
    res = {}
    cap = value_cap(cls)
    for path in int_paths(cls):
        acc = {}
        b = base_desc(target, cid, path)
        if b is not None and get_at(b["args"], path) is not None:
            for v in CANDIDATES:
                if abs(v) > cap:
                    continue
                d = dict(b, args=set_at(b["args"], path, v))
                try:
                    e = encoding_of(d)
                except BuildError:
                    e = None
                if e is not None:
                    acc[v] = e
        res[path] = acc
    return res


@functools.lru_cache(maxsize=None)
def probe(target, cid):
    """{path: sorted tuple of accepted candidate values} for every int leaf of the class."""
    return {p: tuple(sorted(acc)) for p, acc in _probe_full(target, cid).items()}


@functools.lru_cache(maxsize=None)
def probe_reps(target, cid):
    """{path: sorted tuple of representatives}: the accepted candidates grouped by the encoding
    they produce (other operands fixed); per group the value of smallest magnitude and the
    smallest non-negative one.  Two candidates in one group are aliases of each other (a C10
    matter); the representatives of an n-bit field are its signed and its unsigned range."""
    out = {}
    for p, acc in _probe_full(target, cid).items():
        groups = {}
        for v, e in acc.items():
            groups.setdefault(e, []).append(v)
        reps = []
        for g in groups.values():
            reps.append(min(g, key=lambda v: (abs(v), v < 0)))
            nonneg = [v for v in g if v >= 0]
            if nonneg:  # the unsigned reading of the same field
                reps.append(min(nonneg))
        reps = sorted(set(reps))
        cap = 1 << (64 if target == "x86_64" else 32)
        out[p] = tuple(sorted(v for v in reps if abs(v) <= cap))
    return out


def int_pool(accepted):
    """Values to draw an int operand from: accepted candidates, neighbours of the interval
    edges (inside and just outside) and a few mid-interval values."""
    if not accepted:
        return (0, 1, 2, 4, -1)
    lo, hi = accepted[0], accepted[-1]
    pool = set(accepted)
    for e in (lo, hi):
        for d in (-2, -1, 1, 2):
            pool.add(e + d)
    return tuple(sorted(pool))


# ---------------------------------------------------------------------------
# Hypothesis strategies


def args_strategy(target, cid, cls=None, path_prefix=(), exclude_ctors=frozenset(), canonical=False, reg_filter=None, int_filter=None):
    """Strategy for the argument descriptions of one class (recursive for constructors).
    `exclude_ctors`: names of constructor alternatives that must not be drawn.
    `canonical`: draw int operands only from the alias-free representatives (probe_reps) and the
    interval they span.  `reg_filter(path, register class, ids) -> ids` restricts register operands,
    `int_filter(path) -> predicate or None` restricts the values of one int operand (the predicate
    must hold for most values)."""
    from hypothesis import strategies as st

    top = class_by_id(target, cid)
    cls = cls or top
    pr = probe_reps(target, cid) if canonical else probe(target, cid)
    parts = []
    for i, fa in enumerate(cls.syntax.formal_arguments):
        k = kind_of(fa._cls)
        if k == "reg":
            names = list(reg_ids(fa._cls)[0])
            if reg_filter is not None:
                names = list(reg_filter(path_prefix + (i,), fa._cls, names)) or names
            parts.append(st.sampled_from(names).map(lambda n: ["r", n]))
        elif k == "int":
            acc = pr.get(path_prefix + (i,), ())
            pred = int_filter(path_prefix + (i,)) if int_filter is not None else None
            if pred is not None:
                acc = tuple(v for v in acc if pred(v))
            pool = acc if canonical and acc else int_pool(acc)
            if pred is not None:
                pool = tuple(v for v in pool if pred(v)) or acc
            if acc:
                lo, hi = acc[0], acc[-1]
                s = st.one_of(st.sampled_from(acc), st.integers(lo, hi), st.sampled_from(pool))
                if hi - lo > 64:
                    # small magnitudes are the common case in real programs
                    s = st.one_of(s, st.integers(max(lo, -64), min(hi, 64)))
            else:
                s = st.sampled_from(pool)
            if pred is not None:
                s = s.filter(pred)
            parts.append(s)
        elif k == "str":
            parts.append(st.sampled_from(LABELS))
        elif k == "ctor":
            alts = []
            for sub in ctor_options(fa._cls):
                if not sub.syntax or sub.__name__ in exclude_ctors:
                    continue
                alts.append(
                    args_strategy(target, cid, sub, path_prefix + (i, sub.__name__), exclude_ctors, canonical, reg_filter, int_filter).map(
                        lambda a, n=sub.__name__: ["c", n, a]
                    )
                )
            if not alts:
                raise BuildError("no constructor alternative")
            parts.append(st.one_of(alts))
        elif k == "set":
            names = _uniq_ids(_set_registers(target))
            parts.append(
                st.lists(st.sampled_from(names), min_size=1, max_size=6, unique=True).map(
                    lambda l: ["s", sorted(l)]
                )
            )
        else:
            raise BuildError("unsupported argument class %r" % (fa._cls,))
    return st.tuples(*parts).map(list)


def supported(target, cid):
    """True when every formal argument (recursively) is of a kind this generator models."""
    cls = class_by_id(target, cid)

    def ok(c, depth=0):
        if depth > 6:
            return False
        for fa in c.syntax.formal_arguments:
            k = kind_of(fa._cls)
            if k == "other":
                return False
            if k == "ctor":
                subs = [s for s in ctor_options(fa._cls) if s.syntax]
                if not subs or not all(ok(s, depth + 1) for s in subs):
                    return False
        return True

    return ok(cls)


def instance_strategy(target, cids=None):
    """Strategy of instance descriptions over the classes `cids` (default: all supported)."""
    from hypothesis import strategies as st

    if cids is None:
        cids = [cid for cid, _ in instruction_classes(target) if supported(target, cid)]
    cids = list(cids)

    def for_class(cid):
        return args_strategy(target, cid).map(lambda a: {"target": target, "cls": cid, "args": a})

    return st.sampled_from(cids).flatmap(for_class)


def has_operands(desc):
    """Non-trivial rule shared by C08/C09: at least one register or immediate operand."""
    cls = class_by_id(desc["target"], desc["cls"])
    return any(k in ("reg", "int", "set") for k, _ in leaves(cls, desc["args"]))


def key_of(desc):
    return (desc["target"], desc["cls"], repr(desc["args"]))


# ---------------------------------------------------------------------------
# object -> description (inverse of build; used to describe what the assembler produced)


@functools.lru_cache(maxsize=None)
def _cid_map(target):
    return {cls: cid for cid, cls in _class_table(target)}


def class_id_of(target, cls):
    return _cid_map(target).get(cls)


def describe_args(obj):
    """Argument descriptions of an instruction / constructor object, or None when an operand
    is of a kind this generator does not model."""
    out = []
    for fa in obj.syntax.formal_arguments:
        k = kind_of(fa._cls)
        v = getattr(obj, fa._name)
        if k == "reg":
            out.append(["r", reg_id_of(fa._cls, v)])
        elif k in ("int", "str"):
            out.append(v)
        elif k == "ctor":
            sub = describe_args(v)
            if sub is None:
                return None
            out.append(["c", type(v).__name__, sub])
        elif k == "set":
            ids = dict((id(r), i) for i, r in zip(_uniq_ids(_set_registers("arm")), _set_registers("arm")))
            out.append(["s", sorted(ids.get(id(r), r.name) for r in v)])
        else:
            return None
    return out


def describe(target, ins):
    cid = class_id_of(target, type(ins))
    if cid is None or not type(ins).syntax:
        return None
    args = describe_args(ins)
    if args is None:
        return None
    return {"target": target, "cls": cid, "args": args}


def syntax_literals(cls):
    """The syntax with operands replaced by None and whitespace dropped."""
    return tuple(None if not isinstance(e, str) else e for e in cls.syntax.syntax if not (isinstance(e, str) and e.isspace()))


# ---------------------------------------------------------------------------
# printed form with the repairs of two known printing defects (C09-KF1: no separator after the
# mnemonic; C09-KF3: ARM register sets without braces).  Used by C09 as the *model* of those
# findings and by C08 to read operands out of an otherwise unreadable text.


def glued(cls):
    """An identifier-like literal immediately followed by an operand or another identifier."""
    from ppci.arch.encoding import Operand

    s = cls.syntax.syntax
    for a, b in zip(s, s[1:]):
        if isinstance(a, str) and a.isidentifier():
            if isinstance(b, Operand) or (isinstance(b, str) and b.isidentifier()):
                return True
    return False


def any_glued(obj):
    from ppci.arch.encoding import Constructor

    if glued(type(obj)):
        return True
    for fa in obj.syntax.formal_arguments:
        v = getattr(obj, fa._name)
        if isinstance(v, Constructor) and v.syntax and any_glued(v):
            return True
    return False


def render(obj, unglue=False, braces=False):
    """Syntax.render with the repairs of KF1 (separator after an identifier) / KF3 (braces)."""
    from ppci.arch.encoding import Constructor, Operand

    out = []
    prev_ident = False
    for e in obj.syntax.syntax:
        if isinstance(e, Operand):
            v = getattr(obj, e._name)
            if isinstance(v, Constructor) and v.syntax:
                t = render(v, unglue, braces)
            else:
                t = str(v)
                if braces and isinstance(v, (set, frozenset)) and not t.lstrip().startswith("{"):
                    t = "{" + t + "}"
            if unglue and prev_ident:
                out.append(" ")
            out.append(t)
            prev_ident = False
        else:
            if unglue and prev_ident and e.isidentifier():
                out.append(" ")
            out.append(e)
            prev_ident = e.isidentifier()
    return "".join(out)




# ---------------------------------------------------------------------------
# deterministic register sweeps: every register of every register field, one field at a time,
# for every constructor alternative (addressing mode) of a class


def reg_paths(cls, args, prefix=()):
    """(path, register class) of every register leaf of a description."""
    for i, (fa, a) in enumerate(zip(cls.syntax.formal_arguments, args)):
        k = kind_of(fa._cls)
        if k == "reg":
            yield prefix + (i,), fa._cls
        elif k == "ctor":
            for sub in ctor_options(fa._cls):
                if sub.__name__ == a[1]:
                    for r in reg_paths(sub, a[2], prefix + (i, sub.__name__)):
                        yield r


def ctor_alternatives(cls):
    """(argument index, constructor class) of the top-level constructor alternatives."""
    for i, fa in enumerate(cls.syntax.formal_arguments):
        if kind_of(fa._cls) == "ctor":
            for sub in ctor_options(fa._cls):
                if sub.syntax:
                    yield i, sub


def sweep_descs(target, cid, reg_filter=None, alternatives=None, pair_product=True):
    """Descriptions that put every register into every register field of the class, one field at
    a time, starting from an accepted base description -- once for the default form and once per
    constructor alternative in `alternatives` (names; None = all).  For a constructor with exactly
    two register fields (base + index) the full product is produced as well."""
    cls = class_by_id(target, cid)
    forces = [()]
    for i, sub in ctor_alternatives(cls):
        if alternatives is None or sub.__name__ in alternatives:
            forces.append((i, sub.__name__))
    seen = set()
    for force in forces:
        base = base_desc(target, cid, force)
        if base is None:
            continue
        leaves = list(reg_paths(cls, base["args"]))
        allowed = {}
        for path, rcls in leaves:
            ids = list(reg_ids(rcls)[0])
            if reg_filter is not None:
                ids = list(reg_filter(path, rcls, ids)) or ids
            allowed[path] = ids
        out = []
        for path, rcls in leaves:
            for rid in allowed[path]:
                out.append(set_at(base["args"], path, ["r", rid]))
        if pair_product:
            groups = {}
            for path, rcls in leaves:
                if len(path) >= 3:
                    groups.setdefault(path[:-1], []).append(path)
            for g in groups.values():
                if len(g) == 2:
                    for ra in allowed[g[0]]:
                        a1 = set_at(base["args"], g[0], ["r", ra])
                        for rb in allowed[g[1]]:
                            out.append(set_at(a1, g[1], ["r", rb]))
        for args in out:
            key = repr(args)
            if key not in seen:
                seen.add(key)
                yield {"target": target, "cls": cid, "args": args}


def small_int_descs(target, cid, max_values=8, int_filter=None):
    """Descriptions that give every int operand with at most `max_values` alias-free accepted
    values (probe_reps) each of these values, other operands at their defaults -- once per
    constructor alternative that has such an operand (msp430 constant-generator sources
    #-1/0/1/2/4/8, ...)."""
    cls = class_by_id(target, cid)
    reps = probe_reps(target, cid)
    seen = set()
    for path in int_paths(cls):
        vals = reps.get(path, ())
        if not vals or len(vals) > max_values:
            continue
        base = base_desc(target, cid, path)
        if base is None or get_at(base["args"], path) is None:
            continue
        pred = int_filter(path) if int_filter is not None else None
        for v in vals:
            if pred is not None and not pred(v):
                continue
            args = set_at(base["args"], path, v)
            key = repr(args)
            if key not in seen:
                seen.add(key)
                yield {"target": target, "cls": cid, "args": args}

