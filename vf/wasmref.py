"""Reference renderers for the wasm module descriptions produced by vf/wasmgen.py.

Written from the WebAssembly 1.0 core specification (binary format ch. 5, text format ch. 6)
with its OWN opcode table - nothing here imports ppci.

    encode(desc, **variants) -> bytes     reference binary (canonical by default)
    to_wat(desc, folded, style, inline_exports, names) -> str   text rendering: flat or folded, integer
                                          spelling, export abbreviation, numeric / unique / shadowing names
    flatten(body)                         tree body -> linear [(op, imms)] with block markers
    func_type(desc, funcidx)              (params, results) of a function index (imports first)

Module description (plain JSON data):
    {"types":   [[[param vt...], [result vt...]], ...],
     "imports": [{"mod","name","kind":"func","type":ti} | {"mod","name","kind":"global","vt","mut"}],
     "funcs":   [{"type": ti, "locals": [vt...], "body": [node...]}],
     "table":   None | {"min": n, "max": n|None},
     "mem":     None | {"min": n, "max": n|None},
     "globals": [{"vt","mut","init": node}],            init is a const or global.get node
     "exports": [{"name","kind": func|global|memory|table, "idx"}],
     "start":   None | funcidx,
     "elems":   [{"offset": n, "funcs": [funcidx...]}],
     "datas":   [{"offset": n, "bytes": hex}]}
node:
    [op, [imm...], [child node...]]                     plain instruction; children are its operands
    ["block", bt, [node...]]   ["loop", bt, [node...]]  bt = None | vt
    ["if", bt, cond_node, [then...], [else...] | None]
immediates: const -> [value] (ints; f32/f64 as IEEE bit patterns), local/global -> [idx],
    load/store -> [align_log2, offset], br/br_if -> [depth], br_table -> [[depth...], default],
    call -> [funcidx], call_indirect -> [typeidx], memory.size/grow -> [].

Degrees of freedom of the binary format, resolved the way ppci's writer resolves them (read once
in ppci/wasm/binary/writer.py; see ASSUMPTIONS of vf/props/c21.py): sections with no entries are
omitted; locals are declared as maximal runs of equal type; every LEB128 is minimal; no custom,
name or data-count section; active segments use the one-byte (memory/table 0) form.
"""

import struct

VT = {"i32": 0x7F, "i64": 0x7E, "f32": 0x7D, "f64": 0x7C}

# --- opcode table (spec appendix "Index of Instructions") ---------------------------------------
OP = {
    "unreachable": 0x00, "nop": 0x01, "block": 0x02, "loop": 0x03, "if": 0x04, "else": 0x05, "end": 0x0B,
    "br": 0x0C, "br_if": 0x0D, "br_table": 0x0E, "return": 0x0F, "call": 0x10, "call_indirect": 0x11,
    "drop": 0x1A, "select": 0x1B,
    "local.get": 0x20, "local.set": 0x21, "local.tee": 0x22, "global.get": 0x23, "global.set": 0x24,
    "memory.size": 0x3F, "memory.grow": 0x40,
    "i32.const": 0x41, "i64.const": 0x42, "f32.const": 0x43, "f64.const": 0x44,
}  # fmt: skip

_MEM = [
    "i32.load", "i64.load", "f32.load", "f64.load", "i32.load8_s", "i32.load8_u", "i32.load16_s",
    "i32.load16_u", "i64.load8_s", "i64.load8_u", "i64.load16_s", "i64.load16_u", "i64.load32_s",
    "i64.load32_u", "i32.store", "i64.store", "f32.store", "f64.store", "i32.store8", "i32.store16",
    "i64.store8", "i64.store16", "i64.store32",
]  # fmt: skip
for _i, _n in enumerate(_MEM):
    OP[_n] = 0x28 + _i

_ICMP = ["eqz", "eq", "ne", "lt_s", "lt_u", "gt_s", "gt_u", "le_s", "le_u", "ge_s", "ge_u"]
_FCMP = ["eq", "ne", "lt", "gt", "le", "ge"]
_IUN = ["clz", "ctz", "popcnt"]
_IBIN = ["add", "sub", "mul", "div_s", "div_u", "rem_s", "rem_u", "and", "or", "xor", "shl", "shr_s", "shr_u", "rotl", "rotr"]
_FUN = ["abs", "neg", "ceil", "floor", "trunc", "nearest", "sqrt"]
_FBIN = ["add", "sub", "mul", "div", "min", "max", "copysign"]
_CVT = [
    "i32.wrap_i64", "i32.trunc_f32_s", "i32.trunc_f32_u", "i32.trunc_f64_s", "i32.trunc_f64_u",
    "i64.extend_i32_s", "i64.extend_i32_u", "i64.trunc_f32_s", "i64.trunc_f32_u", "i64.trunc_f64_s",
    "i64.trunc_f64_u", "f32.convert_i32_s", "f32.convert_i32_u", "f32.convert_i64_s", "f32.convert_i64_u",
    "f32.demote_f64", "f64.convert_i32_s", "f64.convert_i32_u", "f64.convert_i64_s", "f64.convert_i64_u",
    "f64.promote_f32", "i32.reinterpret_f32", "i64.reinterpret_f64", "f32.reinterpret_i32", "f64.reinterpret_i64",
]  # fmt: skip
_SIGNEXT = ["i32.extend8_s", "i32.extend16_s", "i64.extend8_s", "i64.extend16_s", "i64.extend32_s"]

# SIG: op -> ([operand types], [result types]) for the plain numeric instructions
SIG = {}
_c = 0x45
for _t in ("i32", "i64"):
    for _n in _ICMP:
        OP["%s.%s" % (_t, _n)] = _c
        SIG["%s.%s" % (_t, _n)] = ([_t] if _n == "eqz" else [_t, _t], ["i32"])
        _c += 1
for _t in ("f32", "f64"):
    for _n in _FCMP:
        OP["%s.%s" % (_t, _n)] = _c
        SIG["%s.%s" % (_t, _n)] = ([_t, _t], ["i32"])
        _c += 1
for _t in ("i32", "i64"):
    for _n in _IUN:
        OP["%s.%s" % (_t, _n)] = _c
        SIG["%s.%s" % (_t, _n)] = ([_t], [_t])
        _c += 1
    for _n in _IBIN:
        OP["%s.%s" % (_t, _n)] = _c
        SIG["%s.%s" % (_t, _n)] = ([_t, _t], [_t])
        _c += 1
for _t in ("f32", "f64"):
    for _n in _FUN:
        OP["%s.%s" % (_t, _n)] = _c
        SIG["%s.%s" % (_t, _n)] = ([_t], [_t])
        _c += 1
    for _n in _FBIN:
        OP["%s.%s" % (_t, _n)] = _c
        SIG["%s.%s" % (_t, _n)] = ([_t, _t], [_t])
        _c += 1
assert _c == 0xA7
for _n in _CVT:
    OP[_n] = _c
    _dst, _rest = _n.split(".")
    _src = _dst if False else None
    for _cand in ("i32", "i64", "f32", "f64"):
        if "_" + _cand in _rest:
            _src = _cand
    SIG[_n] = ([_src], [_dst])
    _c += 1
assert _c == 0xC0
for _n in _SIGNEXT:  # sign-extension operators proposal (merged into the spec; V8 has them)
    OP[_n] = _c
    SIG[_n] = ([_n[:3]], [_n[:3]])
    _c += 1

for _n in _MEM:
    _t = _n[:3]
    SIG[_n] = (["i32"], [_t]) if ".load" in _n else (["i32", _t], [])


def natural_align(op):
    """log2 of the access width of a load/store."""
    t, what = op.split(".")
    for w, a in (("8", 0), ("16", 1), ("32", 2)):
        if what.endswith(w) or what.endswith(w + "_s") or what.endswith(w + "_u"):
            return a
    return 2 if t in ("i32", "f32") else 3


# --- LEB128 (spec 5.2.2), independent of ppci ---------------------------------------------------
def uleb(v, pad=0, maxlen=5):
    assert v >= 0
    out = bytearray()
    while True:
        b = v & 0x7F
        v >>= 7
        if v:
            out.append(b | 0x80)
        else:
            out.append(b)
            break
    for _ in range(pad):  # non-minimal variant: continuation bytes carrying zero
        if len(out) >= maxlen:  # the format caps a LEB at ceil(N/7) bytes
            break
        out[-1] |= 0x80
        out.append(0x00)
    return bytes(out)


def sleb(v, pad=0, maxlen=5):
    out = bytearray()
    while True:
        b = v & 0x7F
        v >>= 7  # arithmetic
        if (v == 0 and not b & 0x40) or (v == -1 and b & 0x40):
            out.append(b)
            break
        out.append(b | 0x80)
    for _ in range(pad):
        if len(out) >= maxlen:
            break
        fill = 0x7F if v == -1 else 0x00
        out[-1] |= 0x80
        out.append(fill)
    return bytes(out)


def _signed(v, bits):
    v &= (1 << bits) - 1
    return v - (1 << bits) if v >> (bits - 1) else v


def _name(s):
    b = s.encode("utf-8")
    return uleb(len(b)) + b


def _limits(lim):
    if lim["max"] is None:
        return b"\x00" + uleb(lim["min"])
    return b"\x01" + uleb(lim["min"]) + uleb(lim["max"])


# --- flattening ---------------------------------------------------------------------------------
def flatten(body, out=None):
    """Tree body -> linear list of (op, imms); structured ops become ('block', [bt]) ... ('end', [])."""
    if out is None:
        out = []
    for node in body:
        _flat_node(node, out)
    return out


def _flat_node(node, out):
    op = node[0]
    if op in ("block", "loop"):
        out.append((op, [node[1]]))
        flatten(node[2], out)
        out.append(("end", []))
    elif op == "if":
        _flat_node(node[2], out)
        out.append(("if", [node[1]]))
        flatten(node[3], out)
        if node[4] is not None:
            out.append(("else", []))
            flatten(node[4], out)
        out.append(("end", []))
    else:
        for ch in node[2]:
            _flat_node(ch, out)
        out.append((op, node[1]))


def n_func_imports(desc):
    return sum(1 for i in desc.get("imports", []) if i["kind"] == "func")


def n_global_imports(desc):
    return sum(1 for i in desc.get("imports", []) if i["kind"] == "global")


def func_type(desc, idx):
    imps = [i for i in desc.get("imports", []) if i["kind"] == "func"]
    ti = imps[idx]["type"] if idx < len(imps) else desc["funcs"][idx - len(imps)]["type"]
    return desc["types"][ti]


def global_type(desc, idx):
    imps = [i for i in desc.get("imports", []) if i["kind"] == "global"]
    if idx < len(imps):
        return imps[idx]["vt"], imps[idx]["mut"]
    g = desc["globals"][idx - len(imps)]
    return g["vt"], g["mut"]


# --- binary encoder -----------------------------------------------------------------------------
def _blocktype(bt):
    return b"\x40" if bt is None else bytes([VT[bt]])


def enc_instr(op, imms, pad=0):
    b = bytearray([OP[op]])
    if op in ("block", "loop", "if"):
        b += _blocktype(imms[0])
    elif op in ("br", "br_if", "call", "local.get", "local.set", "local.tee", "global.get", "global.set"):
        b += uleb(imms[0], pad)
    elif op == "br_table":
        b += uleb(len(imms[0]))
        for x in imms[0]:
            b += uleb(x)
        b += uleb(imms[1])
    elif op == "call_indirect":
        b += uleb(imms[0], pad) + b"\x00"
    elif op in ("memory.size", "memory.grow"):
        b += b"\x00"
    elif op == "i32.const":
        b += sleb(_signed(imms[0], 32), pad)
    elif op == "i64.const":
        b += sleb(_signed(imms[0], 64), pad, 10)
    elif op == "f32.const":
        b += struct.pack("<I", imms[0] & 0xFFFFFFFF)
    elif op == "f64.const":
        b += struct.pack("<Q", imms[0] & 0xFFFFFFFFFFFFFFFF)
    elif op in SIG and (".load" in op or ".store" in op):
        b += uleb(imms[0]) + uleb(imms[1], pad)
    return bytes(b)


def enc_expr(body, pad=0):
    return b"".join(enc_instr(op, imms, pad) for op, imms in flatten(body)) + b"\x0b"


def _section(sid, payload, pad=0):
    return bytes([sid]) + uleb(len(payload), pad) + payload


def _vec(items, pad=0):
    return uleb(len(items), pad) + b"".join(items)


def encode(desc, leb_pad=0, split_locals=False, empty_sections=False):
    """Reference binary.  Variants (all still valid encodings of the same module):
    leb_pad>0: indices/const/section sizes carry that many redundant LEB continuation bytes;
    split_locals: every local gets its own (1, type) declaration; empty_sections: emit empty
    type/function/code... sections instead of omitting them is NOT done (V8 accepts both, ppci omits)."""
    pad = leb_pad
    out = bytearray(b"\x00asm\x01\x00\x00\x00")
    secs = []
    types = [b"\x60" + _vec([bytes([VT[p]]) for p in ps]) + _vec([bytes([VT[r]]) for r in rs]) for ps, rs in desc["types"]]
    if types:
        secs.append((1, _vec(types)))
    imps = []
    for im in desc.get("imports", []):
        b = _name(im["mod"]) + _name(im["name"])
        if im["kind"] == "func":
            b += b"\x00" + uleb(im["type"])
        elif im["kind"] == "global":
            b += b"\x03" + bytes([VT[im["vt"]], 1 if im["mut"] else 0])
        else:
            raise ValueError(im["kind"])
        imps.append(b)
    if imps:
        secs.append((2, _vec(imps)))
    if desc["funcs"]:
        secs.append((3, _vec([uleb(f["type"], pad) for f in desc["funcs"]])))
    if desc.get("table"):
        secs.append((4, _vec([b"\x70" + _limits(desc["table"])])))
    if desc.get("mem"):
        secs.append((5, _vec([_limits(desc["mem"])])))
    if desc.get("globals"):
        secs.append((6, _vec([bytes([VT[g["vt"]], 1 if g["mut"] else 0]) + enc_expr([g["init"]], pad) for g in desc["globals"]])))
    if desc.get("exports"):
        kinds = {"func": 0, "table": 1, "memory": 2, "global": 3}
        secs.append((7, _vec([_name(e["name"]) + bytes([kinds[e["kind"]]]) + uleb(e["idx"], pad) for e in desc["exports"]])))
    if desc.get("start") is not None:
        secs.append((8, uleb(desc["start"], pad)))
    if desc.get("elems"):
        secs.append((9, _vec([b"\x00" + enc_expr([["i32.const", [e["offset"]], []]]) + _vec([uleb(x, pad) for x in e["funcs"]]) for e in desc["elems"]])))
    if desc["funcs"]:
        bodies = []
        for f in desc["funcs"]:
            runs = []
            for t in f["locals"]:
                if runs and runs[-1][1] == t and not split_locals:
                    runs[-1][0] += 1
                else:
                    runs.append([1, t])
            code = _vec([uleb(n) + bytes([VT[t]]) for n, t in runs]) + enc_expr(f["body"], pad)
            bodies.append(uleb(len(code), pad) + code)
        secs.append((10, _vec(bodies)))
    if desc.get("datas"):
        secs.append((11, _vec([b"\x00" + enc_expr([["i32.const", [d["offset"]], []]]) + uleb(len(d["bytes"]) // 2) + bytes.fromhex(d["bytes"]) for d in desc["datas"]])))
    for sid, payload in secs:
        out += _section(sid, payload, pad)
    return bytes(out)


# --- text renderer ------------------------------------------------------------------------------
def _f32_text(bits):
    bits &= 0xFFFFFFFF
    sign = "-" if bits >> 31 else ""
    exp = (bits >> 23) & 0xFF
    frac = bits & 0x7FFFFF
    if exp == 0xFF:
        if frac == 0:
            return sign + "inf"
        return sign + ("nan" if frac == 0x400000 else "nan:0x%x" % frac)
    return struct.unpack("<f", struct.pack("<I", bits))[0].hex()


def _f64_text(bits):
    bits &= 0xFFFFFFFFFFFFFFFF
    sign = "-" if bits >> 63 else ""
    exp = (bits >> 52) & 0x7FF
    frac = bits & 0xFFFFFFFFFFFFF
    if exp == 0x7FF:
        if frac == 0:
            return sign + "inf"
        return sign + ("nan" if frac == 0x8000000000000 else "nan:0x%x" % frac)
    return struct.unpack("<d", struct.pack("<Q", bits))[0].hex()


class _Names:
    """Symbolic identifiers of the text rendering.  mode 0: numeric indices only; 1: unique names
    ($f3, $g0, $l2, $B5); 2: names that shadow and collide on purpose - nested labels re-use $L0/$L1
    (a reference means the INNERMOST enclosing label of that name; a shadowed outer label is
    referenced by depth), and function k, global k and local k are all called $x<k> (separate index
    spaces).  Parameters are always referenced by index (a `(type n)` use binds no names)."""

    def __init__(self, mode, nparams=0, cond_names=True):
        self.mode = mode
        self.nparams = nparams
        self.labels = []  # innermost last; None = anonymous
        self.count = 0
        self.cond_names = cond_names  # False: labels are referenced by depth inside a folded if's condition
        self.numeric = 0

    def func(self, i):
        return str(i) if not self.mode else ("$f%d" if self.mode == 1 else "$x%d") % i

    def glob(self, i):
        return str(i) if not self.mode else ("$g%d" if self.mode == 1 else "$x%d") % i

    def local(self, i):
        if not self.mode or i < self.nparams:
            return str(i)
        return ("$l%d" if self.mode == 1 else "$x%d") % i

    def open(self):
        """Enter a block/loop/if; returns its label name or None."""
        name = None
        if self.mode == 1:
            name = "$B%d" % self.count
        elif self.mode == 2 and self.count % 4 != 3:
            name = "$L%d" % (len(self.labels) % 2)
        self.count += 1
        self.labels.append(name)
        return name

    def close(self):
        return self.labels.pop()

    def label(self, depth):
        if depth >= len(self.labels) or self.numeric:
            return str(depth)  # the function's own label has no name
        name = self.labels[len(self.labels) - 1 - depth]
        if name is None or name in self.labels[len(self.labels) - depth :]:
            return str(depth)  # anonymous, or shadowed by an inner label of the same name
        return name


def _imm_text(op, imms, style=0, names=None):
    names = names or _Names(0)
    if op == "i32.const":
        v = _signed(imms[0], 32)
        if style == 1 and v < 0:
            return " %d" % (v + (1 << 32))  # unsigned spelling of the same bit pattern
        if style == 2:
            return " 0x%x" % (v & 0xFFFFFFFF)
        return " %d" % v
    if op == "i64.const":
        v = _signed(imms[0], 64)
        if style == 2:
            return " 0x%x" % (v & 0xFFFFFFFFFFFFFFFF)
        return " %d" % v
    if op == "f32.const":
        return " " + _f32_text(imms[0])
    if op == "f64.const":
        return " " + _f64_text(imms[0])
    if op == "br_table":
        return " " + " ".join(names.label(x) for x in list(imms[0]) + [imms[1]])
    if op in ("br", "br_if"):
        return " " + names.label(imms[0])
    if op == "call":
        return " " + names.func(imms[0])
    if op in ("local.get", "local.set", "local.tee"):
        return " " + names.local(imms[0])
    if op in ("global.get", "global.set"):
        return " " + names.glob(imms[0])
    if op == "call_indirect":
        return " (type %d)" % imms[0]
    if op in ("memory.size", "memory.grow"):
        return ""
    if op in SIG and (".load" in op or ".store" in op):
        s = ""
        if imms[1]:
            s += " offset=%d" % imms[1]
        if imms[0] != natural_align(op):
            s += " align=%d" % (1 << imms[0])
        return s
    if imms:
        return " " + " ".join(str(x) for x in imms)
    return ""


def _bt_text(bt):
    return "" if bt is None else " (result %s)" % bt


def _id_text(name):
    return "" if name is None else " " + name


def _wat_flat(body, ind, lines, style, names=None):
    names = names or _Names(0)
    for op, imms in flatten(body):
        if op in ("end", "else"):
            ind[0] -= 1
        if op in ("block", "loop", "if"):
            lines.append("  " * ind[0] + op + _id_text(names.open()) + _bt_text(imms[0]))
        elif op == "end":
            name = names.close()
            lines.append("  " * ind[0] + op + (_id_text(name) if names.mode == 1 else ""))  # `end $id` is optional
        elif op == "else":
            lines.append("  " * ind[0] + op + (_id_text(names.labels[-1]) if names.mode == 1 else ""))
        else:
            lines.append("  " * ind[0] + op + _imm_text(op, imms, style, names))
        if op in ("block", "loop", "if", "else"):
            ind[0] += 1


def _wat_folded(node, style, names=None):
    names = names or _Names(0)
    op = node[0]
    if op in ("block", "loop"):
        name = names.open()
        s = "(%s%s%s %s)" % (op, _id_text(name), _bt_text(node[1]), " ".join(_wat_folded(n, style, names) for n in node[2]))
        names.close()
        return s
    if op == "if":
        if not names.cond_names:
            names.numeric += 1
        cond = _wat_folded(node[2], style, names)  # the condition is outside the scope of the if's label
        if not names.cond_names:
            names.numeric -= 1
        name = names.open()
        s = "(if%s%s %s (then %s)" % (_id_text(name), _bt_text(node[1]), cond, " ".join(_wat_folded(n, style, names) for n in node[3]))
        if node[4] is not None:
            s += " (else %s)" % " ".join(_wat_folded(n, style, names) for n in node[4])
        names.close()
        return s + ")"
    return "(%s%s%s)" % (op, _imm_text(op, node[1], style, names), "".join(" " + _wat_folded(c, style, names) for c in node[2]))


def _data_text(hexs):
    b = bytes.fromhex(hexs)
    return "".join(chr(c) if 32 <= c < 127 and c not in (34, 92) else "\\%02x" % c for c in b)


def wat_name(s):
    """Contents of a WAT string literal for the name s (spec 6.3.3): '"' and backslash escaped, control characters as \\hh
    escapes of their UTF-8 bytes, everything else - non-ASCII included - as is."""
    out = []
    for ch in s:
        if ch in '"\\':
            out.append("\\" + ch)
        elif ord(ch) < 32 or ord(ch) == 127:
            out.append("".join("\\%02x" % b for b in ch.encode("utf-8")))
        else:
            out.append(ch)
    return "".join(out)


def to_wat(desc, folded=False, style=0, inline_exports=False, names=0, cond_names=True):
    """WAT text of the module.  style: 0 signed decimal ints, 1 unsigned spelling of negative
    i32 constants, 2 hex integers.  inline_exports: `(func (export "n") ...)` abbreviations for
    function exports instead of separate export fields.  names: 0 numeric indices, 1 unique
    symbolic names for labels/functions/globals/locals, 2 shadowing labels and names colliding
    across index spaces (see _Names).  cond_names=False: branches inside the condition of a folded
    `if` use numeric depths (exclusion for C21-KF3)."""
    N0 = _Names(names)
    L = ["(module"]
    for ps, rs in desc["types"]:
        s = "  (type (func"
        if ps:
            s += " (param %s)" % " ".join(ps)
        if rs:
            s += " (result %s)" % " ".join(rs)
        L.append(s + "))")
    fi = gi = 0
    for im in desc.get("imports", []):
        if im["kind"] == "func":
            L.append('  (import "%s" "%s" (func%s (type %d)))' % (wat_name(im["mod"]), wat_name(im["name"]), " " + N0.func(fi) if names else "", im["type"]))
            fi += 1
        else:
            gt = "(mut %s)" % im["vt"] if im["mut"] else im["vt"]
            L.append('  (import "%s" "%s" (global%s %s))' % (wat_name(im["mod"]), wat_name(im["name"]), " " + N0.glob(gi) if names else "", gt))
            gi += 1
    nfi = n_func_imports(desc)
    ngi = n_global_imports(desc)
    inl = {}
    if inline_exports:
        for e in desc.get("exports", []):
            if e["kind"] == "func" and e["idx"] >= nfi:
                inl.setdefault(e["idx"], []).append(e["name"])
    # ppci's parser orders definitions by section, so textual order is free; keep spec order
    if desc.get("table"):
        t = desc["table"]
        L.append("  (table %d%s funcref)" % (t["min"], "" if t["max"] is None else " %d" % t["max"]))
    if desc.get("mem"):
        m = desc["mem"]
        L.append("  (memory %d%s)" % (m["min"], "" if m["max"] is None else " %d" % m["max"]))
    for i, g in enumerate(desc.get("globals", [])):
        gt = "(mut %s)" % g["vt"] if g["mut"] else g["vt"]
        L.append("  (global%s %s %s)" % (" " + N0.glob(ngi + i) if names else "", gt, _wat_folded(g["init"], style, N0)))
    for i, f in enumerate(desc["funcs"]):
        nparams = len(desc["types"][f["type"]][0])
        N = _Names(names, nparams, cond_names)
        head = "  (func"
        if names:
            head += " " + N.func(nfi + i)
        for n in inl.get(i + nfi, []):
            head += ' (export "%s")' % wat_name(n)
        head += " (type %d)" % f["type"]
        if f["locals"]:
            if names:
                head += "".join(" (local %s %s)" % (N.local(nparams + k), t) for k, t in enumerate(f["locals"]))
            else:
                head += " (local %s)" % " ".join(f["locals"])
        L.append(head)
        if folded:
            for n in f["body"]:
                L.append("    " + _wat_folded(n, style, N))
        else:
            ind = [2]
            _wat_flat(f["body"], ind, L, style, N)
        L.append("  )")
    for e in desc.get("exports", []):
        if inline_exports and e["kind"] == "func" and e["idx"] >= nfi:
            continue
        ref = N0.func(e["idx"]) if e["kind"] == "func" else N0.glob(e["idx"]) if e["kind"] == "global" else str(e["idx"])
        L.append('  (export "%s" (%s %s))' % (wat_name(e["name"]), e["kind"], ref))
    if desc.get("start") is not None:
        L.append("  (start %s)" % N0.func(desc["start"]))
    for e in desc.get("elems", []):
        L.append("  (elem (i32.const %d) %s)" % (e["offset"], " ".join(N0.func(x) for x in e["funcs"])))
    for d in desc.get("datas", []):
        if folded:
            L.append('  (data (offset (i32.const %d)) "%s")' % (d["offset"], _data_text(d["bytes"])))
        else:
            L.append('  (data (i32.const %d) "%s")' % (d["offset"], _data_text(d["bytes"])))
    L.append(")")
    return "\n".join(L) + "\n"


# --- description statistics (used for non-triviality rules) -------------------------------------
def walk(body):
    """Yield every node of a body, depth first."""
    for n in body:
        yield n
        op = n[0]
        if op in ("block", "loop"):
            yield from walk(n[2])
        elif op == "if":
            yield from walk([n[2]])
            yield from walk(n[3])
            if n[4] is not None:
                yield from walk(n[4])
        else:
            yield from walk(n[2])


def ops_of(desc):
    s = set()
    for f in desc["funcs"]:
        for n in walk(f["body"]):
            s.add(n[0])
    return s
