"""Generator of valid C3 modules restricted to what ppci's docs, tests, samples and librt use (C28).

`modules(cfg)` -> {"src": text, "features": [...]}.  The grammar and typing rules follow docs/reference/lang/c3
and test/lang/test_c3.py: one scope per function (unique local names), `var` declarations, assignment operators
= += -= *= |= &=, if/else and loops always braced, `for (init; cond; final)` with assignment clauses, switch with
block cases and a mandatory default (no fall-through), conditions of type bool built from comparisons and
and/or/not, explicit cast<T>(e), sizeof(type), *(p + n) pointer arithmetic, struct and array types, named-field
struct initialisers, global initialisers from literals and + - * of same-module constants, every non-void
function ending in an unconditional return.  Implicit conversions are limited to the ones the type checker
documents (byte -> int, int -> byte/float via assignment "hack" excluded: explicit casts are used instead).
"""

from hypothesis import strategies as st


class Cfg:
    def __init__(self, avoid=(), max_funcs=3, max_depth=3, floats=True):
        self.avoid = frozenset(avoid)
        self.max_funcs = max_funcs
        self.max_depth = max_depth
        self.floats = floats


class _G:
    def __init__(self, draw, cfg):
        self.draw = draw
        self.cfg = cfg
        self.feats = set()
        self.avoided = set()
        self.n = 0
        self.lines = []
        self.consts = []  # int constants
        self.gints = []  # global int variables
        self.gbytes = []
        self.gbools = []
        self.garrs = []  # (name, size) of int arrays
        self.gstructs = []  # (name, type name)
        self.types = {}  # struct type name -> [(field, kind)] kind in int/byte/arr:N/struct:T
        self.funcs = []  # (name, ret kind, [param kinds])

    def i(self, lo, hi):
        return self.draw(st.integers(lo, hi))

    def pick(self, xs):
        return self.draw(st.sampled_from(list(xs)))

    def chance(self, num, den=10):
        return self.draw(st.integers(0, den - 1)) >= den - num

    def want(self, tag, num=5, den=10):
        if not self.chance(num, den):
            return False
        if tag in self.cfg.avoid:
            self.avoided.add(tag)
            return False
        self.feats.add(tag)
        return True

    def name(self, p):
        self.n += 1
        return "%s%d" % (p, self.n)

    # -- module level -------------------------------------------------------------
    def const_expr(self, depth=1):
        k = self.i(0, 5)
        if k < 3 or depth <= 0:
            return str(self.pick([0, 1, 2, 3, 7, 10, 100, 255, 1000, "0x10", "0xff"]))
        if k < 4 and self.consts:
            return self.pick(self.consts)
        op = self.pick(["+", "+", "-", "*"])
        if op != "+":
            self.feats.add("const:op" + op)
        return "(%s %s %s)" % (self.const_expr(depth - 1), op, self.const_expr(depth - 1))

    def gen_module_items(self):
        for _ in range(self.i(0, 3)):
            nm = self.name("C")
            self.lines.append("const int %s = %s;" % (nm, self.const_expr(2)))
            self.consts.append(nm)
        for _ in range(self.i(0, 2)):
            tn = self.name("T")
            fields = []
            for _ in range(self.i(1, 3)):
                fn = self.name("m")
                kind = self.pick(["int", "int", "byte", "arr:%d" % self.i(1, 4)] + (["struct:" + t for t in self.types if not any(k == "struct:" + t for _, k in fields)]))
                fields.append((fn, kind))
            body = " ".join("%s %s;" % (self.type_text(k), f) for f, k in fields)
            self.lines.append("type struct { %s } %s;" % (body, tn))
            self.types[tn] = fields
            self.feats.add("type:struct")
        for _ in range(self.i(0, 4)):
            nm = self.name("g")
            k = self.i(0, 9)
            pub = "public " if self.chance(2) else ""
            if k < 4:
                init = " = %s" % self.const_expr(2) if self.chance(6) else ""
                self.lines.append("%svar int %s%s;" % (pub, nm, init))
                self.gints.append(nm)
            elif k < 5:
                init = " = %s" % self.pick([0, 1, 7, 200, 255]) if self.chance(5) else ""
                self.lines.append("%svar byte %s%s;" % (pub, nm, init))
                self.gbytes.append(nm)
            elif k < 7:
                n = self.i(1, 5)
                init = ""
                if self.want("init:global-array", 5):
                    init = " = {%s}" % ", ".join(self.const_expr(1) for _ in range(n))
                size = str(n)
                if self.want("type:array-size-constant", 3):
                    size = self.name("N")  # as in docs: const int N = 10; ... int[N]
                    self.lines.append("const int %s = %d;" % (size, n))
                    self.consts.append(size)
                self.lines.append("%svar int[%s] %s%s;" % (pub, size, nm, init))
                self.garrs.append((nm, n))
            elif k < 9 and self.types:
                tn = self.pick(sorted(self.types))
                init = ""
                if self.want("init:global-struct", 4):
                    init = " = " + self.struct_init(tn, True)
                self.lines.append("%svar %s %s%s;" % (pub, tn, nm, init))
                self.gstructs.append((nm, tn))
            else:
                kk = self.i(0, 5)
                if kk < 2:
                    init = " = 0" if self.want("init:global-pointer", 5) else ""
                    self.lines.append("%svar int* %s%s;" % (pub, nm, init))
                    self.feats.add("type:pointer")
                elif kk < 4:
                    init = " = %s" % self.pick(["true", "false"]) if self.want("init:global-bool", 5) else ""
                    self.lines.append("%svar bool %s%s;" % (pub, nm, init))
                    self.gbools.append(nm)
                elif kk < 5 and self.want("init:global-wide-int", 10):
                    self.lines.append("%svar %s %s = %s;" % (pub, self.pick(["uint16_t", "uint32_t", "int64_t", "uint64_t"]), nm, self.i(0, 9)))
                elif self.want("init:literal-out-of-range", 10):
                    self.lines.append("%svar int %s = %s;" % (pub, nm, self.pick([2147483648, 4294967296, 5000000000])))
                    self.gints.append(nm)

    def type_text(self, kind):
        if kind.startswith("arr:"):
            return "int[%s]" % kind[4:]
        if kind.startswith("struct:"):
            return kind[7:]
        return kind

    def struct_init(self, tn, const, env=None):
        parts = []
        for f, k in self.types[tn]:
            if k == "int":
                v = self.const_expr(1) if const else self.int_expr(env, 1)
            elif k == "byte":
                v = str(self.pick([0, 1, 200]))
            elif k.startswith("arr:"):
                v = "{%s}" % ", ".join((self.const_expr(0) if const else self.int_expr(env, 0)) for _ in range(int(k[4:])))
            else:
                v = self.struct_init(k[7:], const, env)
            parts.append(".%s = %s" % (f, v))
        return "{ %s }" % ", ".join(parts)

    # -- expressions -----------------------------------------------------------------
    def int_expr(self, env, depth):
        """Expression of type int."""
        ints = env["int"] + self.gints + self.consts
        k = self.i(0, 15) if depth > 0 else self.i(0, 3)
        if k < 2:
            return str(self.pick([0, 1, 2, 5, 10, 255, 4096, "0x7f", "0x1000"]))
        if k < 4:
            return self.pick(ints) if ints else "3"
        if k < 9:
            op = self.pick(["+", "-", "*", "/", "%", "<<", ">>", "&", "|", "^"])
            self.feats.add("op:" + op)
            return "(%s %s %s)" % (self.int_expr(env, depth - 1), op, self.int_expr(env, depth - 1))
        if k < 10:
            return "(- %s)" % self.int_expr(env, depth - 1)
        if k < 11 and self.garrs:
            a, n = self.pick(self.garrs)
            self.feats.add("expr:index")
            return "%s[%s]" % (a, self.i(0, n - 1) if self.chance(6) else "(%s & 0)" % self.int_expr(env, depth - 1))
        if k < 12:
            fl = [f for f in self.funcs if f[1] == "int"]
            if fl:
                f = self.pick(fl)
                self.feats.add("expr:call")
                return "%s(%s)" % (f[0], ", ".join(self.arg(env, p, depth - 1) for p in f[2]))
        if k < 13:
            bs = env["byte"] + self.gbytes
            if bs:
                self.feats.add("expr:cast")
                return "cast<int>(%s)" % self.pick(bs)
        if k < 14 and self.gstructs:
            s, tn = self.pick(self.gstructs)
            fl = [f for f, kk in self.types[tn] if kk == "int"]
            if fl:
                self.feats.add("expr:member")
                return "%s.%s" % (s, self.pick(fl))
        if k < 15:
            self.feats.add("expr:sizeof")
            return "sizeof(%s)" % self.pick(["int", "byte", "int*"] + sorted(self.types))
        if env["ptr"]:
            self.feats.add("expr:deref")
            return "*%s" % self.pick(env["ptr"])
        return str(self.i(0, 9))

    def arg(self, env, kind, depth):
        if kind == "int":
            return self.int_expr(env, max(depth, 0))
        if kind == "byte":
            return str(self.pick([0, 1, 65, 255]))
        if kind == "bool":
            return self.cond(env, 0)
        if kind == "ptr":
            return "&%s" % self.pick(self.gints) if self.gints else "cast<int*>(0)"
        raise ValueError(kind)

    def cond(self, env, depth):
        k = self.i(0, 9) if depth > 0 else self.i(0, 4)
        if k < 5:
            return "%s %s %s" % (self.int_expr(env, 1), self.pick(["==", "!=", "<", ">", "<=", ">="]), self.int_expr(env, 1))
        if k < 7:
            self.feats.add("cond:and-or")
            return "(%s) %s (%s)" % (self.cond(env, depth - 1), self.pick(["and", "or"]), self.cond(env, depth - 1))
        if k < 8:
            self.feats.add("cond:not")
            return "not (%s)" % self.cond(env, depth - 1)
        if k < 9 and (env["bool"] or self.gbools):
            return self.pick(env["bool"] + self.gbools)
        return self.pick(["true", "false"])

    # -- statements --------------------------------------------------------------------
    def block(self, env, depth):
        out = []
        for _ in range(self.i(1, 4)):
            out += self.statement(env, depth)
        return out

    def statement(self, env, depth):
        k = self.i(0, 15) if depth > 0 else self.i(0, 6)
        ints = env["int"] + self.gints
        if k < 3 and ints:
            op = self.pick(["=", "=", "+=", "-=", "*=", "|=", "&="])
            return ["%s %s %s;" % (self.pick(ints), op, self.int_expr(env, 2))]
        if k < 5:
            nm = self.name("v")
            kk = self.i(0, 9)
            if kk < 5:
                env["int"].append(nm)
                return ["var int %s = %s;" % (nm, self.int_expr({**env, "int": env["int"][:-1]}, 2))]
            if kk < 6:
                env["byte"].append(nm)
                return ["var byte %s;" % nm, "%s = %s;" % (nm, self.pick([0, 1, 100, 255]))]
            if kk < 7:
                env["bool"].append(nm)
                self.feats.add("type:bool")
                return ["var bool %s = %s;" % (nm, self.cond(env, 1))]
            if kk < 8 and self.want("local:array-initializer", 10):
                n = self.i(1, 4)
                return ["var int[%d] %s = {%s};" % (n, nm, ", ".join(self.int_expr(env, 1) for _ in range(n)))]
            if kk < 9 and self.types and self.want("local:struct-initializer", 10):
                tn = self.pick(sorted(self.types))
                return ["var %s %s = %s;" % (tn, nm, self.struct_init(tn, False, env))]
            if self.gints:
                env["ptr"].append(nm)
                self.feats.add("type:pointer")
                return ["var int* %s;" % nm, "%s = &%s;" % (nm, self.pick(self.gints))]
            env["int"].append(nm)
            return ["var int %s;" % nm, "%s = 0;" % nm]
        if k < 6:
            vf = [f for f in self.funcs if f[1] == "void"]
            if vf:
                f = self.pick(vf)
                self.feats.add("stmt:call")
                return ["%s(%s);" % (f[0], ", ".join(self.arg(env, p, 1) for p in f[2]))]
        if k < 7 and self.garrs:
            a, n = self.pick(self.garrs)
            return ["%s[%d] = %s;" % (a, self.i(0, n - 1), self.int_expr(env, 2))]
        d = depth - 1
        if k < 10:
            if self.chance(5):
                return ["if (%s) {" % self.cond(env, 2)] + self.block(env, d) + ["} else {"] + self.block(env, d) + ["}"]
            return ["if (%s) {" % self.cond(env, 2)] + self.block(env, d) + ["}"]
        if k < 12:
            self.feats.add("stmt:while")
            return ["while (%s) {" % self.cond(env, 1)] + self.block(env, d) + ["}"]
        if k < 14 and ints:
            self.feats.add("stmt:for")
            v = self.pick(ints)
            return ["for (%s = 0; %s < %d; %s += 1) {" % (v, v, self.i(0, 9), v)] + self.block(env, d) + ["}"]
        if k < 15:
            self.feats.add("stmt:switch")
            out = ["switch (%s) {" % self.int_expr(env, 1)]
            vals = sorted(set(self.i(0, 9) for _ in range(self.i(0, 3))))
            items = [("case %d:" % v) for v in vals]
            pos = self.i(0, len(items))
            items.insert(pos, "default:")
            if pos != len(items) - 1:
                self.feats.add("stmt:default-not-last")
            for it in items:
                out += [it, "{"] + self.block(env, d) + ["}"]
            out.append("}")
            return out
        if ints and self.gstructs:
            s, tn = self.pick(self.gstructs)
            fl = [f for f, kk in self.types[tn] if kk == "int"]
            if fl:
                return ["%s.%s = %s;" % (s, self.pick(fl), self.int_expr(env, 1))]
        return ["{"] + self.block(env, d) + ["}"]

    def gen_functions(self):
        for _ in range(self.i(1, self.cfg.max_funcs)):
            nm = self.name("f")
            ret = self.pick(["int", "int", "void", "byte", "bool"])
            params = [self.pick(["int", "int", "byte", "bool", "ptr"]) for _ in range(self.i(0, 3))]
            pn = [self.name("p") for _ in params]
            env = {"int": [], "byte": [], "bool": [], "ptr": []}
            for p, n in zip(params, pn):
                env[p].append(n)
            ptxt = ", ".join("%s %s" % ("int*" if p == "ptr" else p, n) for p, n in zip(params, pn))
            pub = "public " if self.chance(2) else ""
            body = self.block(env, self.cfg.max_depth)
            if ret != "void" and self.want("sem:missing-return", 1):
                body += self.pick([["if (%s) {" % self.cond(env, 1), "return %s;" % {"int": "1", "byte": "1", "bool": "true"}[ret], "}"],
                                   ["while (%s) {" % self.cond(env, 1)] + self.block(env, 0) + ["}"], []])
            elif ret == "int":
                body.append("return %s;" % self.int_expr(env, 2))
            elif ret == "byte":
                body.append("return %s;" % self.pick([0, 7, 255]))
            elif ret == "bool":
                body.append("return %s;" % self.cond(env, 1))
                self.feats.add("type:bool")
            elif self.chance(3):
                body.append("return;")
            self.lines += ["%sfunction %s %s(%s)" % (pub, ret, nm, ptxt), "{"] + ["  " + l for l in body] + ["}"]
            self.funcs.append((nm, ret, params))


@st.composite
def modules(draw, cfg):
    g = _G(draw, cfg)
    g.lines.append("module m%d;" % draw(st.integers(0, 3)))
    g.gen_module_items()
    g.gen_functions()
    return {"src": "\n".join(g.lines) + "\n", "features": sorted(g.feats), "avoided": sorted(g.avoided)}
