"""Object-set and layout generators for the linker / ELF properties (C12, C17, C11).

A *link case* is plain JSON:

    {"arch": "arm",
     "objects": [ {"sections": [{"name": "code", "align": 4, "data": "<hex>"} ...],
                   "symbols":  [{"id": 3, "name": "g0", "binding": "global"|"local",
                                 "section": "code"|None, "value": 8|None, "typ": "object"|"func", "size": 0} ...],
                   "relocs":   [{"type": "absaddr32", "sym": 3, "section": "code", "offset": 4, "addend": 0} ...],
                   "entry": None | <symbol id>} ...],
     "layout": None | {"entry": None|"name",
                       "memories": [{"name": "flash", "location": 256, "size": 4096,
                                     "inputs": [["section","code"],["align",8],["symbol","code_end"],
                                                ["sectiondata","data"]]} ...]},
     "layout_form": "object" | "text",
     "mode": "final" | "partial" | "two_stage", "split": k}

build_objects / build_layout turn it back into ppci objects.  The reference
model of the linker's placement ("append with alignment padding") also lives
here, because the generator uses it to put memory sizes right on the edge.
"""

import io

from hypothesis import strategies as st

ALIGNS = [1, 2, 4, 8, 16, 64]
# ObjectFile.Section() starts with alignment 4 (documented API default); an output
# section created by the linker therefore never has a smaller alignment.
DEFAULT_SECTION_ALIGNMENT = 4

# (relocation name, site size, required site alignment) - the data-word
# relocations shared by the targets that import data_isa.
DATA_RELOCS = {
    "arm": [("absaddr32", 4, 4), ("absaddr64", 8, 4)],
    "x86_64": [("absaddr32", 4, 4), ("absaddr64", 8, 4)],
    "riscv": [("absaddr32", 4, 4), ("absaddr64", 8, 4)],
    "xtensa": [("absaddr32", 4, 4), ("absaddr64", 8, 4)],
    "microblaze": [],
    "example": [],
}

ID_NAMES = ["code", "data", "bss", "rodata", "s_1", "Text2", "_x", "vectors"]
FREE_NAMES = [".text", ".data", ".rodata.str1", "my sec", "a-b", "0sec"]
LAYOUT_KEYWORDS = {"MEMORY", "ALIGN", "ENTRY", "LOCATION", "SECTION", "SECTIONDATA", "SIZE", "DEFINESYMBOL"}


def align_up(x, a):
    return (x + a - 1) // a * a


# ---------------------------------------------------------------------------
# rebuilding ppci objects from a case


def get_arch(name):
    from ppci.api import get_arch as ga

    if name == "example":
        from ppci.arch.example import ExampleArch

        return ExampleArch()
    return ga(name)


def build_object(arch, od):
    from ppci.binutils.objectfile import ObjectFile, RelocationEntry

    obj = ObjectFile(arch)
    for s in od["sections"]:
        sec = obj.get_section(s["name"], create=True)
        sec.alignment = s["align"]
        sec.add_data(bytes.fromhex(s["data"]))
    for y in od["symbols"]:
        obj.add_symbol(y["id"], y["name"], y["binding"], y["value"], y["section"], y["typ"], y["size"])
    for r in od["relocs"]:
        obj.add_relocation(RelocationEntry(r["type"], r["sym"], r["section"], r["offset"], r["addend"]))
    if od.get("entry") is not None:
        obj.entry_symbol_id = od["entry"]
    return obj


def build_objects(case):
    arch = get_arch(case["arch"])
    return [build_object(arch, od) for od in case["objects"]]


def layout_text(ld):
    """Render a layout description as layout-script text."""
    blocks = []
    for i, m in enumerate(ld["memories"]):
        lines = []
        loc = "0x%x" % m["location"] if i % 2 == 0 else "%d" % m["location"]
        lines.append("MEMORY %s LOCATION=%s SIZE=0x%x {" % (m["name"], loc, m["size"]))
        for kind, arg in m["inputs"]:
            if kind == "section":
                lines.append("  SECTION(%s)" % arg)
            elif kind == "sectiondata":
                lines.append("  SECTIONDATA(%s)" % arg)
            elif kind == "align":
                lines.append("  ALIGN(%d)" % arg)
            elif kind == "symbol":
                lines.append("  DEFINESYMBOL(%s)" % arg)
            else:
                raise ValueError(kind)
        lines.append("}")
        blocks.append("\n".join(lines))
    if ld.get("entry"):
        # ENTRY is a top-level item: before, between or after the memories
        blocks.insert(len(ld["entry"]) % (len(blocks) + 1), "ENTRY(%s)" % ld["entry"])
    lines = blocks
    return "\n".join(lines) + "\n"


def build_layout(ld, form="object"):
    from ppci.binutils import layout as L

    if ld is None:
        return None
    if form == "text":
        return L.Layout.load(io.StringIO(layout_text(ld)))
    lay = L.Layout()
    for m in ld["memories"]:
        mem = L.Memory(m["name"])
        mem.location = m["location"]
        mem.size = m["size"]
        for kind, arg in m["inputs"]:
            if kind == "section":
                mem.add_input(L.Section(arg))
            elif kind == "sectiondata":
                mem.add_input(L.SectionData(arg))
            elif kind == "align":
                mem.add_input(L.Align(arg))
            elif kind == "symbol":
                mem.add_input(L.SymbolDefinition(arg))
            else:
                raise ValueError(kind)
        lay.add_memory(mem)
    if ld.get("entry"):
        lay.entry = L.EntrySymbol(ld["entry"])
    return lay


# ---------------------------------------------------------------------------
# reference model: append with alignment padding


def merge_model(objects):
    """Concatenate same-named sections in input order, padding each piece to
    its own alignment.  Returns (order, info) with
    info[name] = {"size", "align_min", "pieces": [(obj_index, sec_index, offset)]}."""
    order = []
    info = {}
    for oi, od in enumerate(objects):
        for si, s in enumerate(od["sections"]):
            e = info.get(s["name"])
            if e is None:
                e = info[s["name"]] = {"size": 0, "align_min": 1, "pieces": []}
                order.append(s["name"])
            e["align_min"] = max(e["align_min"], s["align"])
            off = align_up(e["size"], s["align"])
            e["pieces"].append((oi, si, off))
            e["size"] = off + len(s["data"]) // 2
    return order, info


def layout_model(info, ld, default_align):
    """Place the merged sections as the layout says.  default_align: minimum
    alignment of an output section (1 = tightest packing any linker could do,
    DEFAULT_SECTION_ALIGNMENT = ppci's Section default).
    Returns per memory: {"placed": [(name, kind, address, size)], "image_size": n}."""
    res = []
    sizes = {k: v["size"] for k, v in info.items()}
    for m in ld["memories"]:
        cur = m["location"]
        placed = []
        for kind, arg in m["inputs"]:
            if kind == "section":
                e = info.get(arg)
                al = max(default_align, e["align_min"]) if e else default_align
                cur = align_up(cur, al)
                size = sizes.get(arg, 0)
                sizes.setdefault(arg, 0)
                placed.append((arg, "section", cur, size))
                cur += size
            elif kind == "sectiondata":
                size = sizes.get(arg, 0)
                placed.append(("_$%s_" % arg, "sectiondata", cur, size))
                cur += size
            elif kind == "symbol":
                placed.append(("_$%s_" % arg, "symbol", cur, 0))
            elif kind == "align":
                cur = align_up(cur, arg)
        end = max([a + s for (_, _, a, s) in placed], default=m["location"])
        res.append({"placed": placed, "image_size": end - m["location"]})
    return res


# ---------------------------------------------------------------------------
# Hypothesis strategies


def _hexbytes(draw, n):
    if n == 0:
        return ""
    mode = draw(st.integers(0, 3))
    if mode == 0:
        return draw(st.binary(min_size=n, max_size=n)).hex()
    if mode == 1:
        return (bytes([draw(st.integers(0, 255))]) * n).hex()
    # position-dependent pattern: makes a misplaced copy visible
    k = draw(st.integers(1, 255))
    return bytes((k + 7 * i) & 0xFF for i in range(n)).hex()


@st.composite
def object_set(draw, arch, secnames, max_size=48, max_objects=4, faults=(), with_relocs=True, id_names=True, rtypes=None):
    """A list of object descriptions.  faults: subset of {"undef", "dup"}."""
    nobj = draw(st.integers(1, max_objects))
    objs = []
    for oi in range(nobj):
        names = draw(st.lists(st.sampled_from(secnames), unique=True, min_size=0 if oi else 1, max_size=len(secnames)))
        secs = []
        for n in names:
            size = draw(st.one_of(st.integers(0, max_size), st.sampled_from([0, 1, 3, 4, 8, 16, max_size])))
            secs.append({"name": n, "align": draw(st.sampled_from(ALIGNS)), "data": _hexbytes(draw, size)})
        objs.append({"sections": secs, "symbols": [], "relocs": [], "entry": None})
    owners = [i for i, o in enumerate(objs) if o["sections"]]
    ng = draw(st.integers(0, 5))
    gnames = ["g%d" % i for i in range(ng)]
    defs = {}  # name -> [object index]
    for g in gnames:
        defs[g] = [draw(st.sampled_from(owners))]
    undef_names = []
    if "dup" in faults and gnames and len(owners) >= 2:
        g = draw(st.sampled_from(gnames))
        other = draw(st.sampled_from([o for o in owners if o != defs[g][0]]))
        defs[g].append(other)
    if "undef" in faults:
        undef_names.append("u0")
    used_ids = [set() for _ in objs]

    def new_id(oi):
        if draw(st.integers(0, 3)):
            i = len(used_ids[oi])
            while i in used_ids[oi]:
                i += 1
        else:
            i = draw(st.integers(0, 40).filter(lambda x: x not in used_ids[oi]))
        used_ids[oi].add(i)
        return i

    def def_symbol(oi, name, binding):
        sec = draw(st.sampled_from(objs[oi]["sections"]))
        size = len(sec["data"]) // 2
        value = draw(st.one_of(st.integers(0, size), st.sampled_from([0, size])))
        objs[oi]["symbols"].append(
            {
                "id": new_id(oi),
                "name": name,
                "binding": binding,
                "section": sec["name"],
                "value": value,
                "typ": draw(st.sampled_from(["object", "func"])),
                "size": draw(st.sampled_from([0, 0, 4, 12])),
            }
        )

    # interleave definitions, references and locals per object in drawn order
    for oi, o in enumerate(objs):
        plan = []
        for g in gnames:
            if oi in defs[g]:
                plan.append(("def", g))
            elif draw(st.integers(0, 2)) == 0:
                plan.append(("ref", g))
        for u in undef_names:
            if oi == 0 or draw(st.booleans()):
                plan.append(("ref", u))
        if o["sections"]:
            for k in range(draw(st.integers(0, 3))):
                # local names repeat across objects and may shadow a global's name
                plan.append(("local", draw(st.sampled_from(["L0", "L1", "loop", "g0"]))))
        plan = draw(st.permutations(plan))
        for what, name in plan:
            if what == "def":
                def_symbol(oi, name, "global")
            elif what == "local":
                def_symbol(oi, name, "local")
            else:
                o["symbols"].append(
                    {
                        "id": new_id(oi),
                        "name": name,
                        "binding": "global",
                        "section": None,
                        "value": None,
                        "typ": draw(st.sampled_from(["object", "func"])),
                        "size": 0,
                    }
                )
        # relocations: disjoint, aligned data-word sites
        if rtypes is None:
            rtypes = DATA_RELOCS.get(arch, [])
        if not with_relocs:
            rtypes = []
        if rtypes and o["symbols"]:
            for s in o["sections"]:
                size = len(s["data"]) // 2
                if s["align"] < 4 or size < 4:
                    continue
                pos = 0
                while pos + 4 <= size and len(o["relocs"]) < 6:
                    if draw(st.integers(0, 2)) == 0:
                        rname, rsize, ral = draw(st.sampled_from(rtypes))
                        if pos + rsize <= size:
                            sym = draw(st.sampled_from(o["symbols"]))
                            o["relocs"].append({"type": rname, "sym": sym["id"], "section": s["name"], "offset": pos, "addend": 0})
                            pos += rsize
                            continue
                    pos += 4
    return objs


def _loc_strategy():
    return st.sampled_from([0, 0x10, 0x100, 0x1000, 0x1003, 0x7FF, 0x8000, 0x08000000, 0x20000001, 0x10000])


@st.composite
def layout_for(draw, objects, secnames, symbol_pool=("lsym0", "lsym1", "code_end", "_heap"), faults=(), allow_sectiondata=True, entry_candidates=(), fit="mixed"):
    """A layout description for the given object set.  Every section name is
    used at most once as SECTION and once as SECTIONDATA; symbol definitions have
    distinct names.  Memory sizes are taken from the reference model:
    exactly full, one byte short ('overfull' fault), or generous."""
    order, info = merge_model(objects)
    present = list(order)
    nmem = draw(st.integers(1, 3))
    names = draw(st.permutations(["flash", "ram", "rom", "m3"]))[:nmem]
    # distribute sections
    cand = list(dict.fromkeys(present + [n for n in secnames if draw(st.integers(0, 3)) == 0]))
    cand = draw(st.permutations(cand))
    unplaced = 0
    mems = [{"name": n, "location": 0, "size": 0, "inputs": []} for n in names]
    symleft = list(symbol_pool)
    sdleft = list(present) if allow_sectiondata else []
    for n in cand:
        if draw(st.integers(0, 7)) == 0 and unplaced < 1:
            unplaced += 1
            continue
        m = mems[draw(st.integers(0, nmem - 1))]
        if draw(st.integers(0, 3)) == 0:
            m["inputs"].append(["align", draw(st.sampled_from([1, 2, 4, 8, 16, 32, 256]))])
        if symleft and draw(st.integers(0, 3)) == 0:
            m["inputs"].append(["symbol", symleft.pop(0)])
        m["inputs"].append(["section", n])
        if symleft and draw(st.integers(0, 4)) == 0:
            m["inputs"].append(["symbol", symleft.pop(0)])
    for m in mems:
        if sdleft and draw(st.integers(0, 4)) == 0:
            k = draw(st.integers(0, len(sdleft) - 1))
            m["inputs"].append(["sectiondata", sdleft.pop(k)])
        if draw(st.integers(0, 5)) == 0:
            m["inputs"].append(["align", draw(st.sampled_from([2, 4, 16, 64]))])
            if symleft and draw(st.booleans()):
                m["inputs"].append(["symbol", symleft.pop(0)])
        if not m["inputs"]:
            # the layout grammar needs at least one input per memory
            m["inputs"].append(["align", 4])
    if "dup_layout" in faults:
        # a DEFINESYMBOL that collides with a global defined by an object
        gl = [y["name"] for o in objects for y in o["symbols"] if y["binding"] == "global" and y["value"] is not None]
        if gl:
            mems[0]["inputs"].insert(draw(st.integers(0, len(mems[0]["inputs"]))), ["symbol", draw(st.sampled_from(gl))])
    ld = {"entry": None, "memories": mems}
    if entry_candidates and draw(st.integers(0, 2)) == 0:
        ld["entry"] = draw(st.sampled_from(list(entry_candidates)))
    # locations: increasing, gaps drawn; sizes from the model
    base = draw(_loc_strategy())
    for i, m in enumerate(mems):
        m["location"] = base
        m["size"] = 0
        tmp = layout_model(info, {"memories": [m]}, DEFAULT_SECTION_ALIGNMENT)[0]["image_size"]
        mode = draw(st.sampled_from(["exact", "exact", "plus1", "generous", "round"])) if fit == "mixed" else fit
        if mode == "exact":
            m["size"] = tmp
        elif mode == "plus1":
            m["size"] = tmp + 1
        elif mode == "round":
            m["size"] = align_up(tmp + 1, 0x100)
        else:
            m["size"] = tmp + draw(st.integers(0, 0x2000))
        base = base + align_up(m["size"], draw(st.sampled_from([1, 16, 0x1000]))) + draw(st.sampled_from([0, 0, 1, 0x1000, 0x100000]))
    if "overfull" in faults:
        big = [i for i, m in enumerate(mems) if layout_model(info, {"memories": [m]}, 1)[0]["image_size"] > 0]
        if big:
            i = draw(st.sampled_from(big))
            tight = layout_model(info, {"memories": [mems[i]]}, 1)[0]["image_size"]
            mems[i]["size"] = draw(st.sampled_from([tight - 1, tight - 1, 0, tight // 2]))
    return ld


@st.composite
def link_case(draw, archs=("arm", "x86_64", "riscv", "xtensa", "microblaze", "example"), max_size=48, modes=("final", "final", "final", "partial", "two_stage"), fault_rate=3, exclude=()):
    arch = draw(st.sampled_from(list(archs)))
    form = draw(st.sampled_from(["object", "text"]))
    pool = list(ID_NAMES) if form == "text" else ID_NAMES[:4] + FREE_NAMES
    secnames = draw(st.lists(st.sampled_from(pool), unique=True, min_size=1, max_size=4))
    mode = draw(st.sampled_from(list(modes)))
    faults = set()
    if draw(st.integers(0, fault_rate)) == 0:
        faults.add(draw(st.sampled_from(["undef", "dup", "overfull", "dup_layout", "undef_entry"])))
        if draw(st.integers(0, 5)) == 0:
            faults.add(draw(st.sampled_from(["undef", "dup", "overfull"])))
    faults -= set(exclude)
    objs = draw(object_set(arch, secnames, max_size=max_size, faults=faults))
    ld = None
    if mode != "partial" and draw(st.sampled_from([True] * 9 + [False])):
        gdefs = sorted({y["name"] for o in objs for y in o["symbols"] if y["binding"] == "global" and y["value"] is not None})
        ents = gdefs
        if "undef_entry" in faults:
            ents = ["nowhere"]
        ld = draw(layout_for(objs, secnames, faults=faults, entry_candidates=ents))
        if "undef_entry" in faults:
            ld["entry"] = "nowhere"
    elif mode != "partial":
        form = "object"
    if ld is None or not ld.get("entry"):
        # entry symbol given by an object
        cands = [(oi, y["id"]) for oi, o in enumerate(objs) for y in o["symbols"] if y["value"] is not None]
        if cands and draw(st.integers(0, 3)) == 0:
            oi, sid = draw(st.sampled_from(cands))
            objs[oi]["entry"] = sid
    case = {"arch": arch, "objects": objs, "layout": ld, "layout_form": form, "mode": mode, "split": 0, "faults": sorted(faults)}
    if mode == "two_stage":
        case["split"] = draw(st.integers(1, len(objs)))
    return case


@st.composite
def simple_layout(draw, secnames, entry_candidates=(), min_size=0x4000, far=False, gaps=None, size_hint=None):
    """A layout that places every given section, with generous memories (for
    objects whose section sizes are not known when the case is drawn)."""
    secnames = list(draw(st.permutations(list(secnames))))
    nmem = draw(st.integers(1, min(3, max(1, len(secnames)))))
    names = draw(st.permutations(["flash", "ram", "rom", "code"]))[:nmem]
    mems = [{"name": n, "location": 0, "size": 0, "inputs": []} for n in names]
    syms = ["lsym0", "lsym1", "_end"]
    for i, n in enumerate(secnames):
        m = mems[i % nmem] if i < nmem else mems[draw(st.integers(0, nmem - 1))]
        if draw(st.integers(0, 3)) == 0:
            m["inputs"].append(["align", draw(st.sampled_from([4, 8, 16, 256]))])
        if syms and draw(st.integers(0, 3)) == 0:
            m["inputs"].append(["symbol", syms.pop(0)])
        m["inputs"].append(["section", n])
        if syms and draw(st.integers(0, 4)) == 0:
            m["inputs"].append(["symbol", syms.pop(0)])
    base = draw(st.sampled_from([0, 0x100, 0x1000, 0x1004, 0x10000, 0x400000, 0x08000000, 0x7FFFF000 - 0x800000]))
    for m in mems:
        m["location"] = base
        m["size"] = draw(st.sampled_from([min_size, 4 * min_size, 0x800000 if far else 2 * min_size]))
        if size_hint is not None:
            # upper bounds of the section sizes are known: make the memory large enough
            need = sum(size_hint.get(a, 0) + 0x120 for k, a in m["inputs"] if k == "section")
            m["size"] = max(m["size"], align_up(need, 0x100))
        gap = draw(st.sampled_from(list(gaps) if gaps is not None else [0, 0x10, 0x1000, 0x1234, 0x100000, 0x7F0000] + ([0x8000000] if far else [])))
        gap = gap // 4 * 4 if draw(st.integers(0, 3)) else gap + draw(st.sampled_from([1, 2, 3]))
        base = base + m["size"] + gap
    ld = {"entry": None, "memories": mems}
    if entry_candidates and draw(st.integers(0, 3)) != 0:
        ld["entry"] = draw(st.sampled_from(list(entry_candidates)))
    return ld
