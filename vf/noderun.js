// Reference WebAssembly runner (Node / V8).  Line protocol on stdin/stdout:
// one JSON job per input line, one JSON answer per output line (same order).
//
// job = { id, wasm: <base64>,
//         imports: true|false,            // provide the host catalogue "env" (see hostImports)
//         calls:  [ {f: exportName, args: [[type, valueString]...], rt: [resultTypes]} ],
//         globals: {exportName: type},    // exported globals to report after the calls
//         memory: exportName|null,        // exported memory to hash after the calls
//         memlo: n }                      // also return the first n bytes as hex
// values: i32/i64 as signed decimal strings, f32/f64 as hex bit patterns ("7fc00000").
// answer = { id, compile: null|errString, instantiate: null|{trap: class, msg},
//            calls: [ {v: [[type, valueString]...]} | {trap: class, msg} ],
//            globals: {name: valueString}, mem: {pages, sha256, lo} | null }
'use strict';
const crypto = require('crypto');
const readline = require('readline');

const cvt = new DataView(new ArrayBuffer(8));

function decodeArg(t, s) {
  switch (t) {
    case 'i32': return Number(s) | 0;
    case 'i64': return BigInt.asIntN(64, BigInt(s));
    case 'f32': cvt.setUint32(0, parseInt(s, 16)); return cvt.getFloat32(0);
    case 'f64': cvt.setBigUint64(0, BigInt('0x' + s)); return cvt.getFloat64(0);
  }
  throw new Error('bad arg type ' + t);
}

function encodeVal(t, v) {
  switch (t) {
    case 'i32': return String(v | 0);
    case 'i64': return BigInt.asIntN(64, BigInt(v)).toString();
    case 'f32':
      if (Number.isNaN(v)) return 'nan';
      cvt.setFloat32(0, v); return cvt.getUint32(0).toString(16).padStart(8, '0');
    case 'f64':
      if (Number.isNaN(v)) return 'nan';
      cvt.setFloat64(0, v); return cvt.getBigUint64(0).toString(16).padStart(16, '0');
  }
  throw new Error('bad result type ' + t);
}

function trapClass(e) {
  const m = String(e && e.message || e);
  if (e instanceof WebAssembly.RuntimeError) {
    if (/divide by zero|remainder by zero/.test(m)) return 'div0';
    if (/divide result unrepresentable/.test(m)) return 'overflow';
    if (/float unrepresentable/.test(m)) return 'trunc';
    if (/memory access out of bounds/.test(m)) return 'oob';
    if (/data segment/.test(m)) return 'oob-data';
    if (/table index is out of bounds|table access out of bounds|element segment/.test(m)) return 'oob-table';
    if (/unreachable/.test(m)) return 'unreachable';
    if (/null function|signature mismatch|function signature|indirect call/.test(m)) return 'indirect';
    return 'trap';
  }
  if (e instanceof RangeError) return 'exhaustion';
  if (e instanceof WebAssembly.LinkError) return 'link';
  return 'error';
}

// Host catalogue: the same functions exist in vf/noderun.py (HOST_IMPORTS).
function hostImports() {
  let last = 0;
  return { env: {
    imp_i32: (x) => (Math.imul(x | 0, 3) + 1) | 0,
    imp_i64: (x) => BigInt.asIntN(64, BigInt(x) ^ 0x5555555555555555n),
    imp_f64: (x) => x + 1.5,
    imp_f32: (x) => Math.fround(x * 2),
    imp_add: (a, b) => ((a | 0) + (b | 0)) | 0,
    imp_put: (x) => { last = x | 0; },
    imp_get: () => last,
    g_i32: new WebAssembly.Global({value: 'i32', mutable: false}, 1234567),
    g_i64: new WebAssembly.Global({value: 'i64', mutable: false}, -9876543210n),
  } };
}

function runJob(job) {
  const out = { id: job.id, compile: null, instantiate: null, calls: [], globals: {}, mem: null };
  let mod;
  try {
    mod = new WebAssembly.Module(Buffer.from(job.wasm, 'base64'));
  } catch (e) {
    out.compile = String(e && e.message || e);
    return out;
  }
  let inst;
  try {
    inst = new WebAssembly.Instance(mod, job.imports ? hostImports() : {});
  } catch (e) {
    out.instantiate = { trap: trapClass(e), msg: String(e && e.message || e).slice(0, 200) };
    return out;
  }
  for (const c of job.calls || []) {
    try {
      const f = inst.exports[c.f];
      if (typeof f !== 'function') throw new Error('no exported function ' + c.f);
      const r = f(...c.args.map(a => decodeArg(a[0], a[1])));
      const rt = c.rt || [];
      if (rt.length === 0) out.calls.push({ v: [] });
      else if (rt.length === 1) out.calls.push({ v: [[rt[0], encodeVal(rt[0], r)]] });
      else out.calls.push({ v: rt.map((t, i) => [t, encodeVal(t, r[i])]) });
    } catch (e) {
      out.calls.push({ trap: trapClass(e), msg: String(e && e.message || e).slice(0, 200) });
    }
  }
  for (const name of Object.keys(job.globals || {})) {
    try { out.globals[name] = encodeVal(job.globals[name], inst.exports[name].value); }
    catch (e) { out.globals[name] = 'error:' + String(e && e.message || e); }
  }
  if (job.memory) {
    const m = inst.exports[job.memory];
    const buf = Buffer.from(m.buffer);
    // a memory.grow by tens of thousands of pages succeeds in V8: hash in pieces (one update takes < 2^31 bytes)
    const h = crypto.createHash('sha256');
    for (let o = 0; o < buf.length; o += (1 << 30)) h.update(buf.subarray(o, Math.min(buf.length, o + (1 << 30))));
    out.mem = { pages: buf.length / 65536,
                sha256: h.digest('hex'),
                lo: buf.subarray(0, job.memlo || 0).toString('hex') };
  }
  return out;
}

const rl = readline.createInterface({ input: process.stdin, terminal: false });
rl.on('line', (line) => {
  if (!line.trim()) return;
  let ans;
  try { ans = runJob(JSON.parse(line)); }
  catch (e) { ans = { error: String(e && e.stack || e) }; }
  process.stdout.write(JSON.stringify(ans) + '\n');
});
