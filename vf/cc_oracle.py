"""gcc as oracle and UB filter for generated C units (DESIGN.md 3.4)."""

import os
import struct
import subprocess

from . import gencc

DRIVER_HEAD = r"""
#include <stdio.h>
#include <string.h>
#include <unistd.h>
#include <sys/wait.h>
static unsigned long ext_index;
int ext(int tag, long v) {
  unsigned long args[2]; args[0] = (unsigned long)(long)tag; args[1] = (unsigned long)v;
  unsigned long h = 0x9E3779B97F4A7C15UL; const char *name = "ext";
  for (; *name; name++) h = (h ^ (unsigned char)*name) * 0x100000001B3UL;
  for (int i = 0; i < 2; i++) { h = (h ^ args[i]) * 0xFF51AFD7ED558CCDUL; h ^= h >> 33; }
  h = (h ^ ext_index) * 0xC4CEB9FE1A85EC53UL; h ^= h >> 29;
  ext_index++;
  printf("E %d %ld\n", tag, v);
  return (int)(h & 0x7f);
}
static long dbits(double d) { long r; memcpy(&r, &d, 8); return r; }
"""


def c_arg(v, pt):
    if pt == "int*":
        return "buf"
    if gencc.is_float(pt):
        return "(%s)%s" % (pt, gencc.literal(v, "double"))
    return "(%s)%s" % (pt, gencc.literal(v, "long long" if gencc.CTYPES[pt][1] else "unsigned long long"))


def driver_source(program, tests):
    """tests: [[function index, [args]]]"""
    L = [program["src"], DRIVER_HEAD]
    L.append("int main(void) {")
    L.append("  int buf[4];")
    for i, (fi, args) in enumerate(tests):
        f = program["funcs"][fi]
        # every test runs in its own forked child: fresh globals, and UBSan's per-location
        # de-duplication of reports cannot hide undefined behaviour of a later test
        L.append('  printf("T %d\\n"); fflush(stdout); fprintf(stderr, "#T %d\\n"); fflush(stderr);' % (i, i))
        L.append("  if (fork() == 0) {")
        L.append("  buf[0] = 11; buf[1] = 22; buf[2] = 33; buf[3] = 44; ext_index = 0;")
        call = "%s(%s)" % (f["name"], ", ".join(c_arg(a, pt) for a, pt in zip(args, f["params"])))
        if f["ret"] == "void":
            L.append("  %s;" % call)
            L.append('  printf("R void\\n");')
        elif gencc.is_float(f["ret"]):
            L.append('  printf("R f %%ld\\n", dbits((double)%s));' % call)
        else:
            L.append('  printf("R i %%ld\\n", (long)%s);' % call)
        for o in program["observers"]:
            L.append('  printf("O %%ld\\n", %s());' % o)
        L.append('  printf("B %d %d %d %d\\n", buf[0], buf[1], buf[2], buf[3]);')
        L.append("  fflush(stdout); fflush(stderr); _exit(0); }")
        L.append("  { int st; wait(&st); }")
    L.append('  fprintf(stderr, "#END\\n");')
    L.append("  return 0;\n}")
    return "\n".join(L) + "\n"


class GccError(Exception):
    pass


def run_reference(program, tests, tmpdir, tag="t", stats=None):
    """gcc and clang, both with UBSan.  A test is usable only when neither reports undefined behaviour and
    both agree (gcc folds some overflowing expressions away before UBSan sees them; clang does not)."""
    a = run_gcc(program, tests, tmpdir, tag, compiler="gcc")
    try:
        b = run_gcc(program, tests, tmpdir, tag + "c", compiler="clang")
    except (GccError, OSError):
        if stats is not None:
            stats.hist["clang_unavailable_or_rejects"] += 1
        return a
    out = []
    for x, y in zip(a, b):
        if x is None or y is None:
            out.append(None)
        elif (x["ret"], x["obs"], x["buf"], x["ext"]) != (y["ret"], y["obs"], y["buf"], y["ext"]):
            if stats is not None:
                stats.discard("gcc and clang disagree (not fully defined)")
            out.append(None)
        else:
            out.append(x)
    return out


def run_gcc(program, tests, tmpdir, tag="t", sanitize=True, compiler="gcc"):
    """Returns list (per test) of None (discarded: UB / crash) or dict(ret, obs, buf, ext)."""
    src = os.path.join(tmpdir, "%s.c" % tag)
    exe = os.path.join(tmpdir, "%s.exe" % tag)
    with open(src, "w") as f:
        f.write(driver_source(program, tests))
    cmd = [compiler, "-O0", "-w", "-std=gnu99", "-o", exe, src]
    if sanitize:
        cmd[1:1] = ["-fsanitize=undefined", "-fsanitize=float-cast-overflow", "-fsanitize-recover=all"]
    p = subprocess.run(cmd, capture_output=True, text=True)
    if p.returncode != 0:
        raise GccError(p.stderr[:2000])
    try:
        r = subprocess.run([exe], capture_output=True, text=True, timeout=20)
    except subprocess.TimeoutExpired:
        return [None] * len(tests)
    finally:
        for fn in (src, exe):
            try:
                os.unlink(fn)
            except OSError:
                pass
    # UB attribution
    bad = set()
    cur = None
    ended = False
    for line in r.stderr.splitlines():
        if line.startswith("#T "):
            cur = int(line[3:])
        elif line.startswith("#END"):
            ended = True
        elif "runtime error" in line or "Sanitizer" in line:
            if cur is not None:
                bad.add(cur)
    results = [None] * len(tests)
    cur = None
    rec = None
    for line in r.stdout.splitlines():
        if line.startswith("T "):
            cur = int(line[2:])
            rec = {"ret": None, "obs": [], "buf": None, "ext": [], "complete": False}
            results[cur] = rec
        elif rec is None:
            continue
        elif line.startswith("R "):
            parts = line.split()
            rec["ret"] = None if parts[1] == "void" else (parts[1], int(parts[2]))
        elif line.startswith("O "):
            rec["obs"].append(int(line[2:]))
        elif line.startswith("E "):
            parts = line.split()
            rec["ext"].append([int(parts[1]), int(parts[2])])
        elif line.startswith("B "):
            rec["buf"] = [int(x) for x in line.split()[1:]]
            rec["complete"] = True
    for i in range(len(results)):
        if i in bad or results[i] is None or not results[i]["complete"]:
            results[i] = None
    return results


def s64(v):
    v &= (1 << 64) - 1
    return v - (1 << 64) if v >> 63 else v


def run_irsem(module, program, test, irsem):
    """Execute one test on an ir module; returns the same record shape as run_gcc (or raises Undef/Unsupported)."""
    fi, args = test
    f = program["funcs"][fi]
    a = [("buf", 0) if x == "buf" else x for x in args]
    buf = struct.pack("<4i", 11, 22, 33, 44)
    obs = irsem.observe_call(module, f["name"], a, ptr_bits=64, buffers=[buf], calls=[(o, []) for o in program["observers"]], fuel=200000)
    rec = {"ext": [[x[1][0], x[1][1]] for x in obs["trace"]], "obs": obs.get("more", []), "complete": True}
    b = obs["buffers"][0]
    rec["buf"] = None if "?" in b else list(struct.unpack("<4i", bytes.fromhex(b)))
    r = obs["ret"]
    if f["ret"] == "void":
        rec["ret"] = None
    elif gencc.is_float(f["ret"]):
        if r == "nan":
            rec["ret"] = ("f", "nan")
        elif isinstance(r, str) and r.startswith("f:"):
            rec["ret"] = ("f", s64(int(r[2:], 16)))
        else:
            rec["ret"] = ("f", r)
    else:
        rec["ret"] = ("i", s64(r) if isinstance(r, int) else r)
    return rec


def is_nan_bits(v):
    return isinstance(v, int) and ((v >> 52) & 0x7FF) == 0x7FF and (v & ((1 << 52) - 1)) != 0


def compare(ref, got):
    """ref: gcc record, got: ppci-side record. Returns None or a description."""
    if (ref["ret"] is None) != (got["ret"] is None):
        return "return kind differs: gcc %r, ppci %r" % (ref["ret"], got["ret"])
    if ref["ret"] is not None and got["ret"][1] != "ADDR":
        rv, gv = ref["ret"][1], got["ret"][1]
        if ref["ret"][0] == "f" and (gv == "nan" or is_nan_bits(gv)) and is_nan_bits(rv):
            pass
        elif rv != gv:
            return "return value: gcc %r, ppci front-end IR %r" % (rv, gv)
    if len(ref["ext"]) != len(got["ext"]) or any(a != b and "ADDR" not in b for a, b in zip(ref["ext"], got["ext"])):
        return "external call sequence: gcc %r, ppci front-end IR %r" % (ref["ext"], got["ext"])
    if len(ref["obs"]) != len(got["obs"]):
        return "observer count differs"
    for k, (a, b) in enumerate(zip(ref["obs"], got["obs"])):
        if b == "ADDR":
            continue
        if s64(a) != s64(b):
            return "global observer rd_%d: gcc %d, ppci front-end IR %d" % (k, a, s64(b))
    if got["buf"] is not None and ref["buf"] != got["buf"]:
        return "caller buffer: gcc %r, ppci front-end IR %r" % (ref["buf"], got["buf"])
    return None
