"""Construct tags of an arbitrary C99 translation unit (for the C28 fuzz layer).

The generator vf/gencdecl.py knows which constructs it used (its feature tags); a byte-mutated unit has no such
record.  `tags(src)` recovers the tags that matter for C28's supported / unsupported-but-valid split from an
INDEPENDENT parse (clang -Xclang -ast-dump=json) plus a few lexical rules:

* every construct of the table c28.SUPPORTED that is NOT backed by ppci's own material is recognised and reported
  under its table name (e.g. "init:partial-array", "constexpr:bin<<", "stmt:default-not-last");
* everything that vf/gencdecl's supported profile cannot express at all (typedef, prototypes, extern, compound
  literals, VLAs, comments, preprocessor lines, wide literals, ...) is reported as "outside:<what>".

The recogniser errs on the side of reporting a tag (the caller then puts the unit into the unsupported stream whose
internal errors are only counted): whitelists for AST node kinds, type words, keywords, literal spellings.
`tags` returns None when clang is missing or does not accept the unit (caller: undecided -> unsupported stream).
"""

import json
import re
import shutil
import subprocess

CLANG = shutil.which("clang-14") or shutil.which("clang")

KEYWORDS_OK = {"int", "char", "short", "long", "unsigned", "signed", "float", "double", "void", "struct", "union", "enum", "static", "const",
               "volatile", "if", "else", "while", "do", "for", "switch", "case", "default", "break", "continue", "goto", "return", "sizeof"}  # fmt: skip
KEYWORDS_OTHER = {"auto", "extern", "register", "typedef", "inline", "restrict", "_Bool", "_Complex", "_Imaginary", "asm", "typeof"}
TYPE_WORDS = {"int", "char", "short", "long", "unsigned", "signed", "float", "double", "void", "struct", "union", "enum", "const", "volatile"}

KINDS_OK = {
    "TranslationUnitDecl", "RecordDecl", "FieldDecl", "EnumDecl", "EnumConstantDecl", "VarDecl", "FunctionDecl", "ParmVarDecl",
    "CompoundStmt", "DeclStmt", "IfStmt", "WhileStmt", "DoStmt", "ForStmt", "SwitchStmt", "CaseStmt", "DefaultStmt", "BreakStmt",
    "ContinueStmt", "GotoStmt", "LabelStmt", "ReturnStmt", "NullStmt", "BinaryOperator", "CompoundAssignOperator", "UnaryOperator",
    "ConditionalOperator", "ImplicitCastExpr", "CStyleCastExpr", "ParenExpr", "IntegerLiteral", "FloatingLiteral", "CharacterLiteral",
    "StringLiteral", "DeclRefExpr", "CallExpr", "MemberExpr", "ArraySubscriptExpr", "InitListExpr", "ImplicitValueInitExpr",
    "UnaryExprOrTypeTraitExpr", "ConstantExpr",
}  # fmt: skip

CONSTEXPR_BIN_OK = {"+", "-", "*", "/", "&", "^"}
INT_SUFFIX = r"(?:[uU](?:ll|LL|l|L)?|(?:ll|LL|l|L)[uU]?)?"
CHAR_BODY = r"(?:[^\\'\"\n]|\\(?:[ntr\\'\"]|[0-7]{1,3}|x[0-9a-fA-F]{1,2}))"

_TOKEN = re.compile(
    r"(?P<ws>[ \t\n]+)"
    r"|(?P<id>[A-Za-z_][A-Za-z_0-9]*)"
    r"|(?P<flt>(?:\d+\.\d*|\.\d+)(?:[eE][+-]?\d+)?[fFlL]?|\d+[eE][+-]?\d+[fFlL]?)"
    r"|(?P<hex>0[xX][0-9a-fA-F]+" + INT_SUFFIX + r")(?![\w.])"
    r"|(?P<oct>0[0-7]+" + INT_SUFFIX + r")(?![\w.])"
    r"|(?P<dec>(?:0|[1-9]\d*)" + INT_SUFFIX + r")(?![\w.])"
    r"|(?P<chr>'" + CHAR_BODY + r"')"
    r"|(?P<str>\"(?:" + CHAR_BODY + r"|')*\")"
    r"|(?P<op><<=|>>=|\+\+|--|<<|>>|<=|>=|==|!=|&&|\|\||[-+*/%&|^]=|[-+*/%&|^~!<>=?:;,.(){}\[\]])"
)


def lex(src):
    """-> (tokens [(kind, text, offset)], lexical tags).  Unknown characters end the scan with an outside tag."""
    toks = []
    out = set()
    pos = 0
    n = len(src)
    while pos < n:
        mo = _TOKEN.match(src, pos)
        if not mo:
            out.add("outside:lexical:%r" % src[pos : pos + 2])
            break
        k = mo.lastgroup
        if k != "ws":
            toks.append((k, mo.group(), pos))
        pos = mo.end()
    prev = None
    for k, t, _ in toks:
        if k == "id":
            if t in KEYWORDS_OTHER or (t.startswith("_")):
                out.add("outside:identifier:" + (t if t in KEYWORDS_OTHER else "_reserved"))
        elif k == "oct":
            out.add("constexpr:octal-literal")
        elif k == "flt" and t[-1] in "fFlL":
            out.add("literal:float-suffix")
        elif k in ("chr", "str") and prev is not None and prev[0] == "id" and prev[1] not in KEYWORDS_OK:
            pass  # an identifier followed by a literal cannot be valid C; wide literals (L'a') are lexed as id + chr
        if k in ("chr", "str") and prev is not None and prev[0] == "id" and prev[1] in ("L", "u", "U", "u8"):
            out.add("outside:wide-literal")
        if k == "op" and t == "." and prev is not None and prev[0] == "op" and prev[1] == ".":
            out.add("outside:ellipsis")
        prev = (k, t)
    # array sizes are not part of clang's dump: any bracket content beyond one literal / identifier / simple index is suspect
    depth = 0
    inner = []
    for k, t, _ in toks:
        if k == "op" and t == "[":
            depth += 1
            if depth == 1:
                inner = []
                continue
        if k == "op" and t == "]":
            depth -= 1
            if depth == 0:
                ops = [x for kk, x in inner if kk == "op"]
                if any(o not in ("+", "-", "*", "/", "&", "^", "(", ")", ".", "[", "]") for o in ops):
                    out.add("outside:bracket-expression")
                continue
        if depth > 0:
            inner.append((k, t))
    return toks, out


def clang_ast(src, timeout=60):
    if not CLANG:
        return None
    try:
        p = subprocess.run([CLANG, "-std=c99", "-fsyntax-only", "-w", "-Xclang", "-ast-dump=json", "-x", "c", "-"], input=src.encode(),
                           capture_output=True, timeout=timeout)  # fmt: skip
    except (OSError, subprocess.TimeoutExpired):
        return None
    if p.returncode != 0:
        return None
    try:
        return json.loads(p.stdout)
    except ValueError:
        return None


def _qt(n):
    return (n.get("type") or {}).get("qualType", "")


def _offsets(n):
    r = n.get("range") or {}
    b, e = r.get("begin") or {}, r.get("end") or {}
    b = b.get("expansionLoc", b)
    e = e.get("expansionLoc", e)
    if "offset" in b and "offset" in e:
        return b["offset"], e["offset"] + e.get("tokLen", 1)
    return None


def _strip(n):
    """the expression below implicit casts / parentheses / ConstantExpr wrappers"""
    while n.get("kind") in ("ImplicitCastExpr", "ParenExpr", "ConstantExpr") and n.get("inner"):
        n = n["inner"][0]
    return n


def _type_tags(qt, out):
    if not qt:
        return
    if "(*" in qt or "(^" in qt:
        out.add("fptr:global")
    if re.search(r"\(\)", qt):
        out.add("outside:function-without-prototype")
    if "..." in qt:
        out.add("outside:variadic")
    for dim in re.findall(r"\[([^\]]*)\]", qt):
        if not re.fullmatch(r"\d+", dim):
            out.add("outside:array-type[%s]" % dim[:10])
    words = re.findall(r"[A-Za-z_]\w*", qt)
    i = 0
    while i < len(words):
        w = words[i]
        if w in ("struct", "union", "enum"):
            i += 2  # the tag name
            continue
        if w not in TYPE_WORDS:
            out.add("outside:type-word:" + w)
        i += 1


def _is_int_type(qt):
    qt = re.sub(r"\b(const|volatile)\b", "", qt).strip()
    return bool(re.fullmatch(r"(signed |unsigned )?(char|short|int|long|long long)( int)?|signed|unsigned|enum \w+", qt))


def _top_level_designator(text):
    """Does the brace list `text` ('{ ... }') contain a designator at its own nesting level?"""
    depth = 0
    start = True
    for ch in text:
        if ch == "{":
            depth += 1
            start = depth == 1
            continue
        if ch == "}":
            depth -= 1
            continue
        if depth == 1:
            if ch == ",":
                start = True
            elif ch in " \t\n":
                pass
            else:
                if start and ch in ".[":
                    return True
                start = False
    return False


class _Walker:
    def __init__(self, src):
        self.src = src
        self.b = src.encode()  # clang offsets are byte offsets
        self.out = set()

    def text(self, n):
        o = _offsets(n)
        if o is None:
            return None
        return self.b[o[0] : o[1]].decode("utf-8", "replace")

    def walk(self, n, const=False, in_func=False, init_depth=0, designated_parent=False, decayed=False):
        kind = n.get("kind")
        if kind is None:
            return
        out = self.out
        if n.get("isImplicit") and kind in ("TypedefDecl", "RecordDecl", "FieldDecl"):
            return  # clang's builtin declarations (__int128_t, __builtin_va_list, ...)
        if kind not in KINDS_OK:
            out.add("outside:" + kind)
        if kind in ("VarDecl", "FieldDecl", "ParmVarDecl", "FunctionDecl", "CStyleCastExpr", "UnaryExprOrTypeTraitExpr"):
            _type_tags(_qt(n), out)
            _type_tags((n.get("argType") or {}).get("qualType", ""), out)
        kids = [c for c in n.get("inner", []) if isinstance(c, dict)]
        if kind == "TypedefDecl":
            return
        if kind == "FunctionDecl":
            if n.get("storageClass") not in (None, "static"):
                out.add("outside:storage:" + str(n.get("storageClass")))
            if n.get("inline") or n.get("variadic"):
                out.add("outside:function-specifier")
            if not any(c.get("kind") == "CompoundStmt" for c in kids):
                out.add("outside:function-prototype")
            for c in kids:
                self.walk(c, False, True, 0)
            return
        if kind == "VarDecl":
            sc = n.get("storageClass")
            if sc not in (None, "static"):
                out.add("outside:storage:" + str(sc))
            c_ctx = (not in_func) or sc == "static"
            for c in kids:
                self.walk(c, c_ctx, in_func, 0)
            return
        if kind == "FieldDecl":
            if n.get("isBitfield") and not n.get("name"):
                out.add("bitfield:unnamed")
            for c in kids:
                self.walk(c, True, in_func, 0)
            return
        if kind == "RecordDecl":
            if in_func or not n.get("name") or not n.get("completeDefinition"):
                out.add("outside:record-declaration-form")
        if kind == "EnumDecl":
            if in_func or not n.get("name"):
                out.add("outside:enum-declaration-form")
        if kind == "EnumConstantDecl":
            for c in kids:
                self.walk(c, True, in_func, 0)
            return
        if kind == "SwitchStmt":
            self.switch(n, kids)
        if kind == "CaseStmt" and kids:
            lab = _strip(kids[0])
            if lab.get("kind") == "UnaryOperator" and lab.get("opcode") == "-" and lab.get("inner"):
                lab = _strip(lab["inner"][0])
            if lab.get("kind") != "IntegerLiteral" or "(" in (self.text(kids[0]) or "("):
                out.add("stmt:case-constant-expression")
            self.walk(kids[0], True, in_func, 0)
            for c in kids[1:]:
                self.walk(c, False, in_func, 0)
            return
        if kind == "InitListExpr":
            const = True
            qt = _qt(n)
            fill = n.get("array_filler")
            elems = kids
            if isinstance(fill, list):
                elems = [c for c in fill if isinstance(c, dict)]
            txt = self.text(n) or ""
            braced = txt.lstrip().startswith("{")
            designated = _top_level_designator(txt) if braced else designated_parent  # (list implied by a nested designator / elided braces)
            if not re.search(r"\[\d*\]|^(struct|union) ", qt.replace("const ", "").replace("volatile ", "")):
                out.add("init:braced-scalar")
            if qt.lstrip("const volatile").startswith("union ") and designated:
                out.add("init:union-designated")
            partial = isinstance(fill, list) or any(c.get("kind") == "ImplicitValueInitExpr" for c in elems)
            if partial and not designated:
                out.add("init:partial-array" if "[" in qt else "init:partial-struct")
            real = [c for c in elems if c.get("kind") != "ImplicitValueInitExpr"]
            if re.search(r"char ?\[\d*\]$", qt) and braced and len(real) == 1 and _strip(real[0]).get("kind") == "StringLiteral":
                out.add("init:braced-string")
            for c in elems:
                if _strip(c).get("kind") == "StringLiteral" and re.search(r"\[\d*\]\[\d*\]$", qt):
                    out.add("init:string-row")
                self.walk(c, True, in_func, init_depth + 1, designated)
            return
        if kind == "StringLiteral" and init_depth >= 1 and not decayed and re.search(r"char ?\[\d*\]$", _qt(n)):
            out.add("init:string-row")  # a char array member initialised by a string inside an aggregate initialiser
        if const:
            if kind == "BinaryOperator":
                op = n.get("opcode")
                if "*" in _qt(n) and op in ("+", "-"):
                    out.add("init:array-plus-offset")
                elif op == ",":
                    out.add("outside:comma-in-constant-expression")
                elif op not in CONSTEXPR_BIN_OK:
                    out.add("constexpr:bin" + str(op))
            elif kind == "CompoundAssignOperator":
                out.add("outside:assignment-in-constant-expression")
            elif kind == "UnaryOperator":
                op = n.get("opcode")
                if op == "&":
                    sub = _strip(kids[0]) if kids else {}
                    if sub.get("kind") == "ArraySubscriptExpr":
                        out.add("init:address-of-element")
                    elif sub.get("kind") != "DeclRefExpr":
                        out.add("outside:address-constant")
                elif op in ("~", "!", "+"):
                    out.add("constexpr:un" + op)
                elif op != "-":
                    out.add("outside:constexpr-unary" + str(op))
            elif kind == "ConditionalOperator":
                out.add("constexpr:tern")
            elif kind == "CStyleCastExpr":
                if _is_int_type(_qt(n)):
                    out.add("constexpr:cast")
            elif kind == "ImplicitCastExpr" and n.get("castKind") == "ArrayToPointerDecay":
                sub = _strip(kids[0]) if kids else {}
                if sub.get("kind") != "StringLiteral":
                    out.add("init:array-decay")
            elif kind in ("CallExpr", "MemberExpr", "ArraySubscriptExpr"):
                if kind != "ArraySubscriptExpr":
                    out.add("outside:" + kind + "-in-constant-expression")
        if kind == "FloatingLiteral" and _qt(n) in ("float", "long double"):
            out.add("literal:float-suffix")
        if kind == "MemberExpr" and n.get("isArrow"):
            out.add("outside:arrow")
        if kind == "UnaryOperator" and n.get("opcode") in ("*", "__extension__", "__real", "__imag") and not const:
            if n.get("opcode") != "*":
                out.add("outside:unary" + n.get("opcode"))
        if kind == "LabelStmt" and not in_func:
            out.add("outside:label")
        decays = kind == "ImplicitCastExpr" and n.get("castKind") == "ArrayToPointerDecay"
        for c in kids:
            self.walk(c, const, in_func, init_depth, designated_parent, decays or (decayed and kind in ("ParenExpr", "ImplicitCastExpr")))

    def switch(self, n, kids):
        out = self.out
        stmts = [c for c in kids if c.get("kind") not in (None,)]
        if not stmts:
            return
        cond, body = stmts[0], stmts[-1]
        if len(stmts) != 2 or body.get("kind") != "CompoundStmt":
            out.add("outside:switch-form")
            return
        ct = re.sub(r"\b(const|volatile)\b", "", _qt(_strip_casts_only(cond))).strip()
        if ct in ("long", "unsigned long", "long long", "unsigned long long"):
            out.add("stmt:switch-long")
        labels = []  # (kind, nested?) in source order

        def scan(s, nested):
            k = s.get("kind")
            if k == "SwitchStmt":
                return
            if k in ("CaseStmt", "DefaultStmt"):
                labels.append((k, nested))
                sub = [c for c in s.get("inner", []) if isinstance(c, dict)]
                for c in sub[1:] if k == "CaseStmt" else sub:
                    scan(c, nested)
                return
            for c in s.get("inner", []):
                if isinstance(c, dict):
                    scan(c, nested or k != "LabelStmt")

        for s in body.get("inner", []):
            if isinstance(s, dict):
                scan(s, False)
        if not labels:
            out.add("stmt:empty-switch")
        if any(nested for _, nested in labels):
            out.add("stmt:case-in-nested-block")
        seen_default = False
        for k, _ in labels:
            if k == "DefaultStmt":
                seen_default = True
            elif seen_default:
                out.add("stmt:default-not-last")


def _strip_casts_only(n):
    """the controlling expression of a switch below the implicit promotions"""
    while n.get("kind") == "ImplicitCastExpr" and n.get("castKind") in ("IntegralCast", "LValueToRValue", "NoOp") and n.get("inner"):
        if n.get("castKind") == "LValueToRValue":
            break
        n = n["inner"][0]
    return n


def lexical_tags(src):
    """The tags that need no parser (no subprocess).  "invalid:..." = the text cannot be a valid translation unit."""
    if any(ord(ch) > 126 or (ord(ch) < 32 and ch not in "\n\t") for ch in src):
        return {"outside:character-set"}
    if re.search(r"#|/\*|//|\\\n|\?\?|<:|:>|<%|%>|%:", src):
        return {"outside:preprocessor-or-comment-or-digraph"}
    toks, out = lex(src)
    if any(t.startswith("outside:lexical") for t in out):
        return out
    stack = []
    pairs = {")": "(", "]": "[", "}": "{"}
    for k, t, _ in toks:
        if k != "op":
            continue
        if t in "([{":
            stack.append(t)
        elif t in pairs:
            if not stack or stack.pop() != pairs[t]:
                out.add("invalid:unbalanced-brackets")
                break
    if stack:
        out.add("invalid:unbalanced-brackets")
    if toks and not (toks[-1][0] == "op" and toks[-1][1] in (";", "}")):
        out.add("invalid:does-not-end-a-declaration")
    return out


def tags(src):
    """-> set of (unsupported / outside) construct tags of the unit, or None when undecided."""
    out = lexical_tags(src)
    if any(t.startswith(("outside:", "invalid:")) for t in out):
        return out
    ast = clang_ast(src)
    if ast is None:
        return None
    w = _Walker(src)
    w.walk(ast)
    return out | w.out
