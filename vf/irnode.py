"""Python side of vf/irnode.js: persistent Node/V8 process running modules produced by ppci.wasm.ir_to_wasm (C23).

    with IrNodeRunner() as node:
        ans = node.run_groups(wasm_bytes,
                              ext=[{"name": "ext_i", "args": ["i32"], "ret": "i32"}],
                              groups=[[("f0", [("i32", 3), ("ref", 0)], "i32"), ...], ...])

Every group of calls runs on a fresh instance.  Arguments are (wasm type, value) pairs with the value conventions of
vf/noderun.py (i32/i64 python ints, f32/f64 IEEE bit patterns) or ("ref", k) = the result of call k of the same
group.  Answer: {"compile": None|str, "groups": [{"inst": None|{...}, "calls": [{"v": value|None}|{"trap", "msg"}],
"trace": [[name, [arg...]]]}]} where trace arguments are in the format of vf/irsem.py observations.
"""

import base64
import json
import os
import subprocess

from . import noderun
from .noderun import NodeError, NodeTimeout  # noqa: F401  (re-exported)

JS = os.path.join(os.path.dirname(os.path.abspath(__file__)), "irnode.js")


class IrNodeRunner(noderun.NodeRunner):
    def _start(self):
        self.proc = subprocess.Popen(
            [self.node, "--no-warnings", "--stack-size=4000", JS],
            stdin=subprocess.PIPE,
            stdout=subprocess.PIPE,
            stderr=subprocess.DEVNULL,
            bufsize=0,
        )
        self._buf = b""

    def run_groups(self, wasm, ext=(), groups=(), timeout_s=None):
        if self.proc is None or self.proc.poll() is not None:
            self._start()
        self.nid += 1
        self.jobs += 1
        jgroups = []
        for g in groups:
            jg = []
            for f, args, rt in g:
                ja = []
                for t, v in args:
                    ja.append(["ref", v] if t == "ref" else [t, noderun.enc_value(t, v)])
                jg.append({"f": f, "args": ja, "rt": rt})
            jgroups.append(jg)
        job = {"id": self.nid, "wasm": base64.b64encode(bytes(wasm)).decode(), "ext": list(ext), "groups": jgroups}
        try:
            self.proc.stdin.write(json.dumps(job).encode() + b"\n")
        except (BrokenPipeError, OSError):
            self.close()
            raise NodeError("node pipe broken")
        saved = self.timeout_s
        if timeout_s is not None:
            self.timeout_s = timeout_s
        try:
            ans = json.loads(self._readline())
        finally:
            self.timeout_s = saved
        if "error" in ans:
            raise NodeError(ans["error"])
        if ans.get("id") != self.nid:
            self.close()
            raise NodeError("node answer out of sequence")
        for g, calls in zip(ans["groups"], groups):
            for c, (f, args, rt) in zip(g["calls"], calls):
                if "v" in c and c["v"] is not None:
                    c["v"] = noderun.dec_value(rt, c["v"])
            tr = []
            for name, targs in g["trace"]:
                tr.append([name, [a if (a == "nan" or a.startswith("f:")) else int(a) for a in targs]])
            g["trace"] = tr
        return ans
