"""Generated assembly programs for the linker / ELF properties (C11, C17).

A program is plain JSON:

    {"target": "riscv:rvc",
     "objects": [ {"globals": ["l3", ...],             # names declared with `global`
                   "sections": [ {"name": "code", "items": [item, ...]}, ...]} ...]}

    item = ["label", name]            a label definition (global iff listed in "globals")
         | ["ref", template, name]    an instruction/data word that refers to a label
         | ["fill", template]         an instruction without a reference
         | ["pad", nbytes]            nbytes of padding (multiple of the target's granule)
         | ["align", n]

Every label is defined exactly once in the whole program; an object that refers to
a label of another object declares it global (as a hand-written file would).
render(obj_description, target) gives the assembly text.
"""

import io

from hypothesis import strategies as st

# per target: instruction granule, reference templates (kind, text), fillers, data words.
# kind: "branch" (control transfer, decodable by llvm-mc), "load" (address load / pc-relative data
# access), "word" (data word holding an address).  align = required alignment of the *target* label.
TARGETS = {
    "x86_64": {
        "gran": 1,
        "pad": "ds",
        "refs": [
            ("branch", "jmp {L}"), ("branch", "call {L}"), ("branch", "jz {L}"), ("branch", "jne {L}"), ("branch", "jge {L}"),
            ("branch8", "jmpshort {L}"), ("load", "lea rax, [{L}]"), ("load", "mov rax, {L}"), ("load", "mov rax, [{L}]"),
        ],
        "fill": ["ret", "push rax", "mov rax, 5"],
        "words": ["dcd ={L}", "dq ={L}", "dw {L}"],
    },
    "arm": {
        "gran": 4,
        "pad": "ds",
        "refs": [
            ("branch", "b {L}"), ("branch", "bl {L}"), ("branch", "beq {L}"), ("branch", "bne {L}"), ("branch", "blt {L}"),
            ("lit", "ldr r5, {L}"), ("lit", "adr r5, {L}"),
        ],
        "fill": ["mov r1, 5", "mov r0, r0", "push {{r4}}"],
        "words": ["dcd ={L}", "dq ={L}", "dw {L}"],
    },
    "arm:thumb": {
        "gran": 2,
        "pad": "ds",
        "refs": [
            ("branch", "b {L}"), ("branch", "bl {L}"), ("branch8", "beq {L}"), ("branch8", "bne {L}"), ("branch", "bw {L}"), ("branch", "beqw {L}"),
            ("lit4", "ldr r0, {L}"), ("lit4", "adr r5, {L}"),
        ],
        "fill": ["mov r1, 5", "cmp r0, 1"],
        "words": ["dcd ={L}", "dw {L}"],
    },
    "riscv": {
        "gran": 4,
        "pad": "ds",
        "refs": [
            ("branch", "jal x1, {L}"), ("branch", "j {L}"), ("branch", "beq x4, x5, {L}"), ("branch", "bne x4, x5, {L}"), ("branch", "blt x4, x5, {L}"),
            ("branch", "bge x4, x5, {L}"), ("branch", "bltu x4, x5, {L}"), ("branch", "bgeu x4, x5, {L}"),
            ("load", "la x5, {L}"), ("load", "lw x5, {L}"), ("load", "lui x5, {L}"),
        ],
        "fill": ["nop", "addi x5, x4, 5"],
        "words": ["dcd ={L}", "dq ={L}", "dw {L}"],
    },
    "riscv:rvc": {
        "gran": 2,
        "pad": "ds",
        "refs": [
            ("branch", "jal x1, {L}"), ("branch", "j {L}"), ("branch", "beq x4, x5, {L}"), ("branch", "bne x4, x5, {L}"),
            ("branch", "c.j {L}"), ("branch", "c.jal {L}"), ("branch8", "c.beqz x8, {L}"),
            ("load", "la x5, {L}"), ("load", "lw x5, {L}"), ("load", "lui x5, {L}"),
        ],
        "fill": ["c.nop", "c.mv x8, x9", "nop"],
        "words": ["dcd ={L}", "dw {L}"],
    },
    "xtensa": {
        "gran": 1,
        "pad": "ds",
        "refs": [
            ("branch", "j {L}"), ("call4", "call0 {L}"), ("branch8", "beq a14, a15, {L}"), ("branch", "beqz a13, {L}"), ("branch", "bnez a13, {L}"),
            ("lit4", "l32r a2, {L}"),
        ],
        "fill": ["nop", "add a7, a5, a9", "ret"],
        "words": ["dcd ={L}", "dw {L}"],
    },
    "microblaze": {
        "gran": 4,
        "pad": None,
        "refs": [("branch", "bri {L}"), ("branch", "brlid r15, {L}"), ("branch", "beqi r3, {L}"), ("branch", "bnei r3, {L}")],
        "fill": ["add r2, r5, r7"],
        "words": [],
    },
}

SECTION_NAMES = ["code", "data", "text2", "rodata"]


def render(od, target):
    t = TARGETS[target]
    lines = []
    for g in od["globals"]:
        lines.append("global %s" % g)
    for s in od["sections"]:
        lines.append("section %s" % s["name"])
        for it in s["items"]:
            k = it[0]
            if k == "label":
                lines.append("%s:" % it[1])
            elif k == "ref":
                lines.append("  " + it[1].replace("{L}", it[2]).replace("{{", "{").replace("}}", "}"))
            elif k == "fill":
                lines.append("  " + it[1].replace("{{", "{").replace("}}", "}"))
            elif k == "pad":
                if t["pad"]:
                    if it[1]:
                        lines.append("  %s %d" % (t["pad"], it[1]))
                else:
                    lines += ["  " + t["fill"][0]] * (it[1] // t["gran"])
            elif k == "align":
                lines.append("  align %d" % it[1])
            else:
                raise ValueError(k)
    return "\n".join(lines) + "\n"


def assemble(prog):
    """-> list of ObjectFile (raises what ppci raises)."""
    from ppci.api import asm

    return [asm(io.StringIO(render(od, prog["target"])), prog["target"]) for od in prog["objects"]]


_PADS = [0, 0, 2, 4, 8, 12, 20, 100, 124, 126, 128, 130, 252, 254, 256, 258, 1000, 2040, 2044, 2048, 2052, 4088, 4092, 4096, 4100]
# pad menus by scale: distances stay below the next range edge so that most links succeed
PAD_SCALES = {
    "small": [0, 0, 2, 4, 8, 12, 20, 40, 60],
    "byte": [0, 4, 8, 60, 100, 110, 116, 120, 122, 124, 126, 128, 130, 132],
    "half": [0, 4, 60, 200, 236, 244, 248, 250, 252, 254, 256, 258, 260],
    "kilo": [0, 4, 60, 500, 900, 1000, 1010, 1016, 1020, 1024, 1028, 2000, 2030, 2040, 2044, 2046, 2048, 2050, 2052],
    "page": [0, 4, 60, 2048, 4000, 4080, 4088, 4090, 4092, 4094, 4096, 4098, 4100],
    "far": [0, 4, 60, 4096, 0x3FFF0, 0x40000, 0x7FFF0, 0xFFFE0, 0xFFFF0, 0xFFFF8, 0xFFFFC, 0x100000, 0x100008],
    "huge": [0, 4, 60, 0x3FFFF0, 0x400000, 0x400010],
}


@st.composite
def program(draw, target, max_objects=2, max_sections=3, max_items=10, words=True, far=False, kinds=None, pads=None):
    """A program description.  far=True adds pads around 1 MiB (B/J-type range edges)."""
    t = TARGETS[target]
    gran = t["gran"]
    nobj = draw(st.integers(1, max_objects))
    nsec = draw(st.integers(1, max_sections))
    secnames = draw(st.permutations(SECTION_NAMES))[:nsec]
    # label plan: every (object, section) gets 1..3 labels
    labels = []  # (name, obj, sec)
    objs = []
    for oi in range(nobj):
        names = secnames if oi == 0 else [n for n in secnames if draw(st.booleans())] or [secnames[0]]
        objs.append({"globals": [], "sections": [{"name": n, "items": []} for n in names]})
        for n in names:
            for _ in range(draw(st.integers(1, 3))):
                labels.append(("l%d" % len(labels), oi, n))
    refs = [r for r in t["refs"] if kinds is None or r[0] in kinds]
    wordt = [w for w in t["words"] if words is True or (words and w in words)]
    pads = list(_PADS if pads is None else pads)
    if far:
        pads += [0x7FFF0, 0xFFFF0, 0x100000 - 8, 0x100000, 0x100008]
    big_budget = [2]  # at most two large pads per program keep the sizes bounded
    for oi, od in enumerate(objs):
        for s in od["sections"]:
            own = [l for l in labels if l[1] == oi and l[2] == s["name"]]
            own = list(draw(st.permutations(own)))
            nitems = draw(st.integers(len(own), max(len(own), max_items)))
            slots = sorted(draw(st.lists(st.integers(0, nitems), min_size=len(own), max_size=len(own))))
            items = []
            far_used = False
            for k in range(nitems + 1):
                while slots and slots[0] == k:
                    slots.pop(0)
                    lab = own.pop(0)
                    # targets of word-aligned accesses want an aligned label now and then
                    if draw(st.integers(0, 2)) == 0:
                        items.append(["align", 4])
                    items.append(["label", lab[0]])
                if k == nitems:
                    break
                c = draw(st.integers(0, 9))
                if c < 5 and refs:
                    kind, tmpl = draw(st.sampled_from(refs))
                    lab = draw(st.sampled_from(labels))
                    items.append(["ref", tmpl, lab[0]])
                elif c < 6 and wordt:
                    tmpl = draw(st.sampled_from(wordt))
                    lab = draw(st.sampled_from(labels))
                    items.append(["align", 8 if tmpl.startswith("dq") and draw(st.booleans()) else 4])
                    items.append(["ref", tmpl, lab[0]])
                elif c < 8:
                    n = draw(st.sampled_from(pads))
                    if n > 0x10000:
                        if big_budget[0] <= 0:
                            n = 4
                        big_budget[0] -= 1
                    n = n // gran * gran
                    if target == "xtensa":
                        n = n // 3 * 3 if draw(st.booleans()) else n
                    if t["pad"] is None:
                        n = min(n, 64)
                    items.append(["pad", n])
                else:
                    items.append(["fill", draw(st.sampled_from(t["fill"]))])
            s["items"] = items
    # globals: a label referenced from another object must be global on both sides
    where = {l[0]: l[1] for l in labels}
    for oi, od in enumerate(objs):
        need = []
        for s in od["sections"]:
            for it in s["items"]:
                if it[0] == "ref" and where[it[2]] != oi and it[2] not in need:
                    need.append(it[2])
        od["globals"] = need
    for name, oi, _ in labels:
        used_elsewhere = any(name in od["globals"] for k, od in enumerate(objs) if k != oi)
        if (used_elsewhere or draw(st.integers(0, 3)) == 0) and name not in objs[oi]["globals"]:
            objs[oi]["globals"].append(name)
    return {"target": target, "objects": objs}


def section_names(prog):
    seen = []
    for od in prog["objects"]:
        for s in od["sections"]:
            if s["name"] not in seen:
                seen.append(s["name"])
    return seen
