"""Python side of vf/noderun.js: a persistent Node/V8 process that instantiates wasm binaries
and reports what calling their exports does (the reference engine of C21, C22, C23).

    with NodeRunner() as node:
        ans = node.run(wasm_bytes, calls=[("f", [("i32", 3)], ["i32"])],
                       globals={"g0": "i32"}, memory="mem", imports=False)

Values on this interface (both directions) are (type, python value) pairs where
    i32/i64  -> int, signed
    f32/f64  -> int, the IEEE bit pattern  (NaN results come back as the string "nan":
                NaN is compared as a class, its payload/sign are not observable through JS)
`ans` is the dictionary documented in noderun.js with values decoded as above.
One process serves many jobs (start-up ~40 ms is paid once per worker).
"""

import base64
import glob
import json
import os
import re
import select
import subprocess

HERE = os.path.dirname(os.path.abspath(__file__))
JS = os.path.join(HERE, "noderun.js")


class NodeError(Exception):
    pass


class NodeTimeout(NodeError):
    pass


def find_node():
    """Newest node under /root/.nvm/versions/node/v2*/bin/node, else /usr/bin/node."""
    cands = []
    for p in glob.glob("/root/.nvm/versions/node/v2*/bin/node"):
        m = re.search(r"/v(\d+)\.(\d+)\.(\d+)/", p)
        if m and os.access(p, os.X_OK):
            cands.append((tuple(int(x) for x in m.groups()), p))
    if cands:
        return max(cands)[1]
    for p in ("/usr/bin/node", "/usr/local/bin/node"):
        if os.access(p, os.X_OK):
            return p
    raise NodeError("no node binary found")


def enc_value(t, v):
    """python value -> wire string."""
    if t in ("i32", "i64"):
        bits = int(t[1:])
        v = int(v) & ((1 << bits) - 1)
        if v >> (bits - 1):
            v -= 1 << bits
        return str(v)
    if t == "f32":
        return "%08x" % (int(v) & 0xFFFFFFFF)
    if t == "f64":
        return "%016x" % (int(v) & 0xFFFFFFFFFFFFFFFF)
    raise ValueError(t)


def dec_value(t, s):
    """wire string -> python value ('nan' stays 'nan')."""
    if s == "nan" or (isinstance(s, str) and s.startswith("error:")):
        return s
    if t in ("i32", "i64"):
        return int(s)
    return int(s, 16)


def is_nan_bits(t, v):
    if v == "nan":
        return True
    if not isinstance(v, int):
        return False
    if t == "f32":
        return (v & 0x7F800000) == 0x7F800000 and (v & 0x007FFFFF) != 0
    if t == "f64":
        return (v & 0x7FF0000000000000) == 0x7FF0000000000000 and (v & 0x000FFFFFFFFFFFFF) != 0
    return False


def same_value(t, a, b):
    """Bitwise equality, NaN as a class."""
    if t in ("f32", "f64") and is_nan_bits(t, a) and is_nan_bits(t, b):
        return True
    return a == b


class NodeRunner:
    def __init__(self, timeout_s=180.0):
        self.node = find_node()
        self.timeout_s = timeout_s
        self.proc = None
        self.nid = 0
        self.jobs = 0

    def __enter__(self):
        return self

    def __exit__(self, *a):
        self.close()

    def _start(self):
        self.proc = subprocess.Popen(
            [self.node, "--no-warnings", JS],
            stdin=subprocess.PIPE,
            stdout=subprocess.PIPE,
            stderr=subprocess.DEVNULL,
            bufsize=0,
        )
        self._buf = b""

    def close(self):
        if self.proc is not None:
            try:
                self.proc.stdin.close()
            except Exception:
                pass
            try:
                self.proc.kill()
            except Exception:
                pass
            try:
                self.proc.wait(timeout=5)
            except Exception:
                pass
            try:
                self.proc.stdout.close()
            except Exception:
                pass
            self.proc = None

    def _readline(self):
        fd = self.proc.stdout.fileno()
        while b"\n" not in self._buf:
            r, _, _ = select.select([fd], [], [], self.timeout_s)
            if not r:
                self.close()
                raise NodeTimeout("node did not answer within %.0f s" % self.timeout_s)
            chunk = os.read(fd, 1 << 16)
            if not chunk:
                self.close()
                raise NodeError("node exited unexpectedly")
            self._buf += chunk
        line, self._buf = self._buf.split(b"\n", 1)
        return line

    def run(self, wasm, calls=(), globals=None, memory=None, imports=False, memlo=256, timeout_s=None):
        """calls: [(export, [(type, value)...], [result types])].  timeout_s overrides the runner's default
        for this job (NodeTimeout kills the node process; the next job starts a new one)."""
        if self.proc is None or self.proc.poll() is not None:
            self._start()
        self.nid += 1
        self.jobs += 1
        job = {
            "id": self.nid,
            "wasm": base64.b64encode(bytes(wasm)).decode(),
            "imports": bool(imports),
            "calls": [{"f": f, "args": [[t, enc_value(t, v)] for t, v in args], "rt": list(rt)} for f, args, rt in calls],
            "globals": dict(globals or {}),
            "memory": memory,
            "memlo": memlo,
        }
        try:
            self.proc.stdin.write(json.dumps(job).encode() + b"\n")
        except (BrokenPipeError, OSError):
            self.close()
            raise NodeError("node pipe broken")
        saved = self.timeout_s
        if timeout_s is not None:
            self.timeout_s = timeout_s
        try:
            ans = json.loads(self._readline())
        finally:
            self.timeout_s = saved
        if "error" in ans:
            raise NodeError(ans["error"])
        if ans.get("id") != self.nid:
            self.close()
            raise NodeError("node answer out of sequence")
        for c in ans["calls"]:
            if "v" in c:
                c["v"] = [(t, dec_value(t, s)) for t, s in c["v"]]
        gl = globals or {}
        ans["globals"] = {k: dec_value(gl[k], s) for k, s in ans["globals"].items()}
        return ans


def run_once(wasm, **kw):
    with NodeRunner() as n:
        return n.run(wasm, **kw)
