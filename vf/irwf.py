"""Independent well-formedness checker for ppci IR modules (DESIGN.md, C03).

Written against the IR data structure only; does not use ppci's verifier, CfgInfo
or dominator code.  check_module(m) returns a list of problem strings (empty = well formed).
"""


def operands(ir, ins):
    """Operand values of an instruction, read from its explicit fields."""
    t = type(ins)
    if t is ir.Binop:
        return [ins.a, ins.b]
    if t is ir.Unop:
        return [ins.a]
    if t is ir.Cast:
        return [ins.src]
    if t is ir.AddressOf:
        return [ins.src]
    if t is ir.Load:
        return [ins.address]
    if t is ir.Store:
        return [ins.value, ins.address]
    if t is ir.CopyBlob:
        return [ins.dst, ins.src]
    if t is ir.FunctionCall or t is ir.ProcedureCall:
        return [ins.callee] + list(ins.arguments)
    if t is ir.Phi:
        return list(ins.inputs.values())
    if t is ir.CJump:
        return [ins.a, ins.b]
    if t is ir.Return:
        return [ins.result]
    if t is ir.InlineAsm:
        return list(ins.input_values) + list(ins.output_values)
    return []


def targets(ir, ins):
    t = type(ins)
    if t is ir.Jump:
        return [ins.target]
    if t is ir.CJump:
        return [ins.lab_yes, ins.lab_no]
    return []


def check_module(m):
    from ppci import ir

    problems = []
    gnames = set()
    for f in m.functions:
        try:
            problems.extend(check_function(ir, m, f))
        except Exception as e:  # a structure so broken that the checker cannot walk it
            problems.append("%s: checker could not walk the function: %s: %s" % (f.name, type(e).__name__, e))
    return problems


def check_function(ir, m, f):
    P = []
    fn = f.name

    def bad(msg):
        P.append("%s: %s" % (fn, msg))

    blocks = list(f.blocks)
    if not blocks:
        bad("no blocks")
        return P
    if f.entry is not blocks[0]:
        bad("entry block is not the first block")
    if len(set(id(b) for b in blocks)) != len(blocks):
        bad("a block is listed twice")
    bset = set(id(b) for b in blocks)
    names = {}
    for b in blocks:
        if b.name in names:
            bad("duplicate block name %s" % b.name)
        names[b.name] = b
        if b.function is not f:
            bad("block %s does not point back to its function" % b.name)
    # termination
    succ = {}
    for b in blocks:
        ins = list(b.instructions)
        if not ins:
            bad("block %s is empty" % b.name)
            succ[id(b)] = []
            continue
        terms = [i for i in ins if isinstance(i, ir.FinalInstruction)]
        if len(terms) != 1 or terms[0] is not ins[-1]:
            bad("block %s does not end in exactly one terminator" % b.name)
        ts = targets(ir, ins[-1]) if isinstance(ins[-1], ir.FinalInstruction) else []
        for t in ts:
            if id(t) not in bset:
                bad("block %s jumps to %s which is not a block of this function" % (b.name, getattr(t, "name", t)))
        succ[id(b)] = [t for t in ts if id(t) in bset]
        for i in ins:
            if i.block is not b:
                bad("instruction %s in block %s has block attribute %s" % (i, b.name, getattr(i.block, "name", None)))
    # reachability
    seen = set()
    work = [blocks[0]]
    while work:
        b = work.pop()
        if id(b) in seen:
            continue
        seen.add(id(b))
        work.extend(succ[id(b)])
    for b in blocks:
        if id(b) not in seen:
            bad("block %s is unreachable" % b.name)
    # predecessors: recomputed vs. as ppci sees them
    pred = {id(b): [] for b in blocks}
    for b in blocks:
        for t in succ[id(b)]:
            if all(p is not b for p in pred[id(t)]):
                pred[id(t)].append(b)
    for b in blocks:
        mine = set(id(p) for p in pred[id(b)])
        theirs = set()
        for ref in b.references:
            rb = getattr(ref, "block", None)
            if rb is None or id(rb) not in bset or all(i is not ref for i in rb.instructions):
                bad("block %s is referenced by an instruction that is not in this function: %s" % (b.name, ref))
                continue
            if all(t is not b for t in targets(ir, ref)):
                bad("block %s lists a reference %s that does not jump to it" % (b.name, ref))
            theirs.add(id(rb))
        try:
            theirs2 = set(id(p) for p in b.predecessors)
        except Exception as e:
            bad("block %s: predecessors raises %s" % (b.name, type(e).__name__))
            theirs2 = theirs
        if mine != theirs or mine != theirs2:
            bad("block %s: predecessor set from terminators differs from the references" % b.name)
    if pred[id(blocks[0])]:
        pass  # an entry block with predecessors is tolerated by ppci's verifier; not part of the property
    # dominators (iterative set algorithm)
    order = [b for b in blocks if id(b) in seen]
    allset = set(id(b) for b in order)
    dom = {id(b): set(allset) for b in order}
    dom[id(blocks[0])] = {id(blocks[0])}
    changed = True
    while changed:
        changed = False
        for b in order[1:] if order and order[0] is blocks[0] else order:
            if b is blocks[0]:
                continue
            ps = [dom[id(p)] for p in pred[id(b)] if id(p) in dom]
            new = set.intersection(*ps) if ps else set()
            new = new | {id(b)}
            if new != dom[id(b)]:
                dom[id(b)] = new
                changed = True
    # positions
    pos = {}
    where = {}
    for b in blocks:
        for k, i in enumerate(b.instructions):
            pos[id(i)] = k
            where[id(i)] = b
    params = set(id(p) for p in f.arguments)

    def defined_before(v, b, k):
        """v available just before instruction k of block b (k = len -> at the end)"""
        if isinstance(v, ir.GlobalValue):
            return True
        if isinstance(v, ir.Parameter):
            return id(v) in params
        if id(v) not in where:
            return False
        vb = where[id(v)]
        if vb is b:
            return pos[id(v)] < k
        return id(b) in dom and id(vb) in dom[id(b)]

    for b in blocks:
        if id(b) not in seen:
            continue
        nphi_done = False
        for k, i in enumerate(b.instructions):
            ops = operands(ir, i)
            # def-use symmetry
            uses = list(i.uses)
            for v in ops:
                if all(u is not v for u in uses):
                    bad("%s uses %s but does not list it in .uses" % (i, getattr(v, "name", v)))
                elif all(u is not i for u in v.used_by):
                    bad("%s is an operand of %s but its used_by does not contain it" % (getattr(v, "name", v), i))
            for u in uses:
                if all(o is not u for o in ops):
                    bad("%s lists %s in .uses but it is not an operand" % (i, getattr(u, "name", u)))
            # dominance
            if isinstance(i, ir.Phi):
                keys = set(id(x) for x in i.inputs.keys())
                want = set(id(p) for p in pred[id(b)])
                if keys != want:
                    bad("phi %s in %s has inputs for {%s} but predecessors are {%s}" % (i.name, b.name, ", ".join(sorted(x.name for x in i.inputs.keys())), ", ".join(sorted(p.name for p in pred[id(b)]))))
                for pb, v in i.inputs.items():
                    if id(pb) in seen and id(pb) in bset and not defined_before(v, pb, len(pb.instructions)):
                        bad("phi %s: value %s does not dominate the end of %s" % (i.name, getattr(v, "name", v), pb.name))
                    if v.ty is not i.ty:
                        bad("phi %s: input %s has type %s, phi has %s" % (i.name, getattr(v, "name", v), v.ty, i.ty))
            else:
                for v in ops:
                    if not defined_before(v, b, k):
                        bad("%s: operand %s is not dominated by its definition" % (i, getattr(v, "name", v)))
            # types
            t = type(i)
            if t is ir.Binop:
                if i.a.ty is not i.ty or i.b.ty is not i.ty:
                    bad("%s: operand types %s, %s differ from %s" % (i, i.a.ty, i.b.ty, i.ty))
            elif t is ir.Unop:
                if i.a.ty is not i.ty:
                    bad("%s: operand type differs" % i)
            elif t is ir.CJump:
                if i.a.ty is not i.b.ty:
                    bad("%s: compares %s with %s" % (i, i.a.ty, i.b.ty))
            elif t is ir.Load or t is ir.Store:
                if i.address.ty is not ir.ptr:
                    bad("%s: address is not ptr" % i)
            elif t is ir.Return:
                if not isinstance(f, ir.Function):
                    bad("return in a procedure")
                elif i.result.ty is not f.return_ty:
                    bad("%s: returns %s from a function returning %s" % (i, i.result.ty, f.return_ty))
            elif t is ir.Exit:
                if not isinstance(f, ir.Procedure):
                    bad("exit in a function")
            elif t is ir.FunctionCall or t is ir.ProcedureCall:
                c = i.callee
                if c.ty is not ir.ptr:
                    bad("%s: callee is not ptr" % i)
                if isinstance(c, (ir.SubRoutine, ir.ExternalSubRoutine)):
                    tys = [p.ty for p in c.arguments] if isinstance(c, ir.SubRoutine) else list(c.argument_types)
                    if len(tys) != len(i.arguments) or any(a.ty is not b_ for a, b_ in zip(i.arguments, tys)):
                        bad("%s: argument types do not match the callee" % i)
                    if t is ir.FunctionCall:
                        rty = getattr(c, "return_ty", None)
                        if not isinstance(c, (ir.Function, ir.ExternalFunction)) or rty is not i.ty:
                            bad("%s: result type does not match the callee" % i)
                    elif not isinstance(c, (ir.Procedure, ir.ExternalProcedure)):
                        bad("%s: procedure call to a function" % i)
            # users of a defined value are live instructions of this function
            if isinstance(i, ir.Value):
                for u in i.used_by:
                    ub = getattr(u, "block", None)
                    if ub is None or id(ub) not in bset or all(x is not u for x in ub.instructions):
                        bad("value %s is used by a detached instruction %s" % (i.name, u))
                    elif all(o is not i for o in operands(ir, u)):
                        bad("value %s lists user %s which does not use it" % (i.name, u))
    return P


def dump(m):
    """Structural dump used to detect whether a pass changed a module (not an oracle)."""
    from ppci import ir

    out = []
    for v in m.variables:
        out.append("var %s %d %d %r" % (v.name, v.amount, v.alignment, v.value))
    for f in m.functions:
        out.append("fn %s(%s)" % (f.name, ",".join("%s:%s" % (p.name, p.ty) for p in f.arguments)))
        for b in f.blocks:
            out.append(" %s:" % b.name)
            for i in b.instructions:
                vol = " volatile" if getattr(i, "volatile", False) else ""
                out.append("  %s%s" % (i, vol))
    return "\n".join(out)
