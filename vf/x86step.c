/* x86-64 single-instruction stepper for property C07 (DESIGN.md section 4, C07 "Engine").
 *
 * Server loop: reads a batch of cases from stdin, executes each one natively and writes one result
 * record per case to stdout, then waits for the next batch (EOF ends it).  One case = the bytes of one machine instruction + a complete register file
 * (16 GPRs, rflags, xmm0-15) + the seed of the scratch arena contents.
 *
 *   input  : "C07I" u32 ncases, then ncases * struct in_rec
 *   output : "C07O" u32 ncases, then one struct out_rec per executed case, written in blocks (a
 *            crash of this process truncates the output, the caller then bisects the batch)
 *
 * The instruction is copied into an RWX page and followed by `jmp *0(%rip)` back into the
 * trampoline.  The trampoline has its own stack: rsp and rbp of the tested instruction are just
 * two more registers of the state (the caller points them into the arena).  SIGSEGV, SIGILL,
 * SIGFPE, SIGBUS and SIGTRAP are caught on an alternate stack and reported as status = signal
 * number ("untestable").
 *
 * Memory map (fixed addresses, MAP_FIXED_NOREPLACE):
 *   ARENA_BASE - 64K .. ARENA_BASE            PROT_NONE guard
 *   ARENA_BASE .. ARENA_BASE + ARENA_SIZE     read/write scratch arena, refilled before every case
 *   ARENA_BASE + ARENA_SIZE .. + 64K          PROT_NONE guard
 *   CODE_BASE                                 one RWX page
 */
#define _GNU_SOURCE
#include <setjmp.h>
#include <signal.h>
#include <stdint.h>
#include <stdio.h>
#include <stdlib.h>
#include <string.h>
#include <sys/mman.h>
#include <unistd.h>

#define ARENA_BASE 0x20000000UL
#define ARENA_SIZE 8192UL
#define GUARD 65536UL
#define CODE_BASE 0x30000000UL
#define MAXCODE 32

struct state {
    uint64_t gpr[16]; /* rax rcx rdx rbx rsp rbp rsi rdi r8..r15 (hardware numbering) */
    uint64_t rflags;
    uint64_t pad;
    uint8_t xmm[16][16];
};

struct in_rec {
    uint32_t codelen;
    uint32_t reserved;
    uint64_t arena_seed;
    uint8_t code[MAXCODE];
    struct state st;
};

struct out_rec {
    uint32_t status; /* 0 = executed, else the signal number */
    uint32_t changed; /* bit i: gpr[i] differs from the input; bit 16+i: low 64 bits of xmm[i] differ */
    uint32_t nchanged; /* arena bytes that differ from the initial fill */
    uint32_t first_changed; /* offset of the first / last changed arena byte (valid if nchanged) */
    uint32_t last_changed;
    uint32_t pad;
    uint64_t arena_hash; /* hash of the whole arena after execution */
    uint64_t fault_addr;
    struct state st;
};

struct state g_in __attribute__((aligned(16)));
struct state g_out __attribute__((aligned(16)));
uint64_t g_host_rsp;
uint64_t g_code;
uint32_t g_mxcsr = 0x1F80;

void x86step_enter(void);
void x86step_back(void);

/* offsets: gpr[i] at 8*i, rflags at 128, xmm[i] at 144 + 16*i */
__asm__(
    ".text\n"
    ".globl x86step_enter\n"
    ".type x86step_enter,@function\n"
    "x86step_enter:\n"
    "  push %rbx\n  push %rbp\n  push %r12\n  push %r13\n  push %r14\n  push %r15\n"
    "  mov %rsp, g_host_rsp(%rip)\n"
    "  ldmxcsr g_mxcsr(%rip)\n"
    "  lea g_in(%rip), %rax\n"
    "  movdqu 144(%rax), %xmm0\n  movdqu 160(%rax), %xmm1\n  movdqu 176(%rax), %xmm2\n  movdqu 192(%rax), %xmm3\n"
    "  movdqu 208(%rax), %xmm4\n  movdqu 224(%rax), %xmm5\n  movdqu 240(%rax), %xmm6\n  movdqu 256(%rax), %xmm7\n"
    "  movdqu 272(%rax), %xmm8\n  movdqu 288(%rax), %xmm9\n  movdqu 304(%rax), %xmm10\n  movdqu 320(%rax), %xmm11\n"
    "  movdqu 336(%rax), %xmm12\n  movdqu 352(%rax), %xmm13\n  movdqu 368(%rax), %xmm14\n  movdqu 384(%rax), %xmm15\n"
    "  pushq 128(%rax)\n  popfq\n"
    "  mov 8(%rax), %rcx\n  mov 16(%rax), %rdx\n  mov 24(%rax), %rbx\n"
    "  mov 32(%rax), %rsp\n  mov 40(%rax), %rbp\n  mov 48(%rax), %rsi\n  mov 56(%rax), %rdi\n"
    "  mov 64(%rax), %r8\n  mov 72(%rax), %r9\n  mov 80(%rax), %r10\n  mov 88(%rax), %r11\n"
    "  mov 96(%rax), %r12\n  mov 104(%rax), %r13\n  mov 112(%rax), %r14\n  mov 120(%rax), %r15\n"
    "  mov 0(%rax), %rax\n"
    "  jmp *g_code(%rip)\n"
    ".globl x86step_back\n"
    ".type x86step_back,@function\n"
    "x86step_back:\n"
    "  mov %rax, g_out+0(%rip)\n  mov %rcx, g_out+8(%rip)\n  mov %rdx, g_out+16(%rip)\n  mov %rbx, g_out+24(%rip)\n"
    "  mov %rsp, g_out+32(%rip)\n  mov %rbp, g_out+40(%rip)\n  mov %rsi, g_out+48(%rip)\n  mov %rdi, g_out+56(%rip)\n"
    "  mov %r8, g_out+64(%rip)\n  mov %r9, g_out+72(%rip)\n  mov %r10, g_out+80(%rip)\n  mov %r11, g_out+88(%rip)\n"
    "  mov %r12, g_out+96(%rip)\n  mov %r13, g_out+104(%rip)\n  mov %r14, g_out+112(%rip)\n  mov %r15, g_out+120(%rip)\n"
    "  mov g_host_rsp(%rip), %rsp\n"
    "  pushfq\n  popq g_out+128(%rip)\n"
    "  cld\n"
    "  movdqu %xmm0, g_out+144(%rip)\n  movdqu %xmm1, g_out+160(%rip)\n  movdqu %xmm2, g_out+176(%rip)\n"
    "  movdqu %xmm3, g_out+192(%rip)\n  movdqu %xmm4, g_out+208(%rip)\n  movdqu %xmm5, g_out+224(%rip)\n"
    "  movdqu %xmm6, g_out+240(%rip)\n  movdqu %xmm7, g_out+256(%rip)\n  movdqu %xmm8, g_out+272(%rip)\n"
    "  movdqu %xmm9, g_out+288(%rip)\n  movdqu %xmm10, g_out+304(%rip)\n  movdqu %xmm11, g_out+320(%rip)\n"
    "  movdqu %xmm12, g_out+336(%rip)\n  movdqu %xmm13, g_out+352(%rip)\n  movdqu %xmm14, g_out+368(%rip)\n"
    "  movdqu %xmm15, g_out+384(%rip)\n"
    "  ldmxcsr g_mxcsr(%rip)\n"
    "  pop %r15\n  pop %r14\n  pop %r13\n  pop %r12\n  pop %rbp\n  pop %rbx\n"
    "  ret\n");

static sigjmp_buf g_env;
static volatile uint64_t g_fault_addr;

static void on_signal(int sig, siginfo_t *si, void *uc) {
    (void)uc;
    g_fault_addr = (uint64_t)si->si_addr;
    siglongjmp(g_env, sig);
}

static inline uint64_t xs_next(uint64_t *s) {
    uint64_t x = *s;
    x ^= x >> 12;
    x ^= x << 25;
    x ^= x >> 27;
    *s = x;
    return x * 0x2545F4914F6CDD1DULL;
}

static void fill_arena(uint64_t seed) {
    uint64_t s = seed * 0x9E3779B97F4A7C15ULL + 0x1234567ULL;
    if (s == 0) s = 1;
    uint64_t *p = (uint64_t *)ARENA_BASE;
    for (unsigned i = 0; i < ARENA_SIZE / 8; i++) p[i] = xs_next(&s);
}

static void scan_arena(uint64_t seed, struct out_rec *o) {
    uint64_t s = seed * 0x9E3779B97F4A7C15ULL + 0x1234567ULL;
    if (s == 0) s = 1;
    const uint64_t *p = (const uint64_t *)ARENA_BASE;
    uint64_t h = 0xcbf29ce484222325ULL;
    o->nchanged = 0;
    o->first_changed = 0;
    o->last_changed = 0;
    for (unsigned i = 0; i < ARENA_SIZE / 8; i++) {
        uint64_t want = xs_next(&s), got = p[i];
        h = (h ^ got) * 0x100000001b3ULL;
        h ^= h >> 29;
        if (want != got) {
            for (unsigned b = 0; b < 8; b++) {
                if (((want >> (8 * b)) & 0xff) != ((got >> (8 * b)) & 0xff)) {
                    unsigned off = i * 8 + b;
                    if (!o->nchanged) o->first_changed = off;
                    o->last_changed = off;
                    o->nchanged++;
                }
            }
        }
    }
    o->arena_hash = h;
}

static int read_all(int fd, void *buf, size_t n) {
    uint8_t *p = buf;
    while (n) {
        ssize_t r = read(fd, p, n);
        if (r <= 0) return -1;
        p += r;
        n -= (size_t)r;
    }
    return 0;
}

static int write_all(int fd, const void *buf, size_t n) {
    const uint8_t *p = buf;
    while (n) {
        ssize_t r = write(fd, p, n);
        if (r <= 0) return -1;
        p += r;
        n -= (size_t)r;
    }
    return 0;
}

int main(void) {
    void *g = mmap((void *)(ARENA_BASE - GUARD), GUARD + ARENA_SIZE + GUARD, PROT_NONE,
                   MAP_PRIVATE | MAP_ANONYMOUS | MAP_FIXED_NOREPLACE, -1, 0);
    if (g != (void *)(ARENA_BASE - GUARD)) return 3;
    if (mprotect((void *)ARENA_BASE, ARENA_SIZE, PROT_READ | PROT_WRITE)) return 3;
    uint8_t *code = mmap((void *)CODE_BASE, 4096, PROT_READ | PROT_WRITE | PROT_EXEC,
                         MAP_PRIVATE | MAP_ANONYMOUS | MAP_FIXED_NOREPLACE, -1, 0);
    if (code != (uint8_t *)CODE_BASE) return 3;
    g_code = CODE_BASE;

    stack_t ss;
    ss.ss_sp = malloc(1 << 16);
    ss.ss_size = 1 << 16;
    ss.ss_flags = 0;
    if (!ss.ss_sp || sigaltstack(&ss, NULL)) return 3;
    struct sigaction sa;
    memset(&sa, 0, sizeof sa);
    sa.sa_sigaction = on_signal;
    sa.sa_flags = SA_SIGINFO | SA_ONSTACK | SA_NODEFER;
    sigemptyset(&sa.sa_mask);
    int sigs[] = {SIGSEGV, SIGILL, SIGFPE, SIGBUS, SIGTRAP};
    for (unsigned i = 0; i < sizeof sigs / sizeof sigs[0]; i++)
        if (sigaction(sigs[i], &sa, NULL)) return 3;
    /* streamed in blocks of BLK records through two small static buffers (fresh pages are
       expensive on the build machine) */
    enum { BLK = 64 };
    static struct in_rec in[BLK];
    static struct out_rec out[BLK];

    for (;;) { /* one request per iteration; EOF on stdin ends the server */
    char magic[4];
    uint32_t n;
    ssize_t r0 = read(0, magic, 1);
    if (r0 == 0) return 0;
    if (r0 != 1 || read_all(0, magic + 1, 3) || memcmp(magic, "C07I", 4) || read_all(0, &n, 4)) return 4;
    alarm(120); /* runaway guard: the process dies, the caller restarts it and bisects the batch */
    if (write_all(1, "C07O", 4) || write_all(1, &n, 4)) return 5;

    for (uint32_t base = 0; base < n; base += BLK) {
    uint32_t cnt = n - base < BLK ? n - base : BLK;
    if (read_all(0, in, sizeof(struct in_rec) * (size_t)cnt)) return 4;
    memset(out, 0, sizeof(struct out_rec) * (size_t)cnt);
    for (uint32_t i = 0; i < cnt; i++) {
        struct in_rec *c = &in[i];
        struct out_rec *o = &out[i];
        if (c->codelen == 0 || c->codelen > MAXCODE) return 4;
        /* instruction ; jmp *0(%rip) ; .quad x86step_back -- the code page is only rewritten when
           the instruction differs from the previous case (writes to an executed page are slow) */
        uint8_t img[64];
        memset(img, 0xCC, sizeof img);
        memcpy(img, c->code, c->codelen);
        uint8_t *p = img + c->codelen;
        p[0] = 0xFF;
        p[1] = 0x25;
        p[2] = p[3] = p[4] = p[5] = 0;
        uint64_t back = (uint64_t)&x86step_back;
        memcpy(p + 6, &back, 8);
        if (memcmp(code, img, sizeof img)) memcpy(code, img, sizeof img);
        fill_arena(c->arena_seed);
        g_in = c->st;
        /* only the six arithmetic flags are taken from the case; DF = 0, TF = 0, IF = 1 */
        g_in.rflags = (c->st.rflags & 0x8D5UL) | 0x202UL;
        memset(&g_out, 0, sizeof g_out);
        g_fault_addr = 0;
        int sig = sigsetjmp(g_env, 0); /* SA_NODEFER: the mask never changes */
        if (sig == 0) {
            x86step_enter();
            o->status = 0;
        } else {
            __asm__ volatile("cld");
            __asm__ volatile("ldmxcsr %0" : : "m"(g_mxcsr));
            o->status = (uint32_t)sig;
            o->fault_addr = g_fault_addr;
        }
        o->st = g_out;
        o->st.rflags &= 0x8D5UL;
        uint32_t ch = 0;
        for (unsigned k = 0; k < 16; k++) {
            if (g_out.gpr[k] != c->st.gpr[k]) ch |= 1u << k;
            if (memcmp(g_out.xmm[k], c->st.xmm[k], 8)) ch |= 1u << (16 + k);
        }
        o->changed = ch;
        scan_arena(c->arena_seed, o);
    }
    if (write_all(1, out, sizeof(struct out_rec) * (size_t)cnt)) return 5;
    }
    alarm(0);
    }
}
