"""Names -> ppci optimisation passes (shared by C02 / C03)."""

PASS_NAMES = [
    "Mem2RegPromotor",
    "RemoveAddZeroPass",
    "ConstantFolder",
    "CommonSubexpressionEliminationPass",
    "TailCallOptimization",
    "LoadAfterStorePass",
    "DeleteUnusedInstructionsPass",
    "CleanPass",
    "CJumpPass",
]


def make_pass(name):
    from ppci import opt
    from ppci.opt.cjmp import CJumpPass
    from ppci.opt.tailcall import TailCallOptimization

    table = {
        "Mem2RegPromotor": opt.Mem2RegPromotor,
        "RemoveAddZeroPass": opt.RemoveAddZeroPass,
        "ConstantFolder": opt.ConstantFolder,
        "CommonSubexpressionEliminationPass": opt.CommonSubexpressionEliminationPass,
        "TailCallOptimization": TailCallOptimization,
        "LoadAfterStorePass": opt.LoadAfterStorePass,
        "DeleteUnusedInstructionsPass": opt.DeleteUnusedInstructionsPass,
        "CleanPass": opt.CleanPass,
        "CJumpPass": CJumpPass,
    }
    return table[name]()


def innermost_ppci_frame(exc):
    """'file:function' of the innermost traceback frame inside ppci (for bucketing)."""
    import traceback

    frames = traceback.extract_tb(exc.__traceback__)
    for fr in reversed(frames):
        if "/ppci/" in fr.filename:
            return "%s:%s" % (fr.filename.split("/ppci/", 1)[1], fr.name)
    return "?"
