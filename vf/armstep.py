"""ARM A32 single-instruction stepping for C07 on top of the emulator vf/arm32.py.

Same shape as vf/rvstep.py: `run_batch([(code bytes, state, arena_seed)])` -> [Result] with `status` (0 = executed,
else the name of the emulator exception or "control transfer": untestable), `changed` (bit i: r<i> differs from the
input, r0..r14), `reg("g", i)`, `flags` (NZCV nibble afterwards), `arena_hash`, `first`/`last`.  A state is
{"g": [16 ints], "f": NZCV nibble}; g[15] is ignored (the pc is where the instruction is placed: CODE_BASE, it reads
as CODE_BASE + 8).  The instruction is executed with `Machine.run(pc, until=pc + 4, step_limit=1)`: an instruction
that does not fall through to pc + 4 is reported as "control transfer".

`info(code)` describes what the encoding is at machine level, read from the emulator's decoder and not from ppci's
class tables: condition, whether it transfers control (branches and every write of the pc), whether the pc is one
of its operands, and its memory access (base register, offset register, displacement range).

The emulator is validated independently of ppci by arm32.selfcheck() (decode against llvm-mc, semantics against
clang-compiled code whose results are known from native execution, hand vectors from the ARM ARM); the check that
uses this module refuses its ARM part when that self-check does not pass.
"""

import hashlib

try:
    from . import arm32

    _IMPORT_ERROR = None
except Exception as _e:  # pragma: no cover
    arm32 = None
    _IMPORT_ERROR = "%s: %s" % (type(_e).__name__, str(_e)[:200])

ARENA_BASE = 0x20000000
ARENA_SIZE = 4096
CODE_BASE = 0x30000000
M32 = 0xFFFFFFFF

GPR = tuple("r%d" % i for i in range(16))
_NUM = {"SP": 13, "LR": 14, "PC": 15}


def locate(reg):
    """(file, index, offset, width) of a ppci ARM core register object, else None."""
    if type(reg).__name__ not in ("ArmRegister", "LowArmRegister"):
        return None
    n = reg.name
    if n in _NUM:
        return ("g", _NUM[n], 0, 32)
    if n.startswith("R") and n[1:].isdigit() and 0 <= int(n[1:]) < 16:
        return ("g", int(n[1:]), 0, 32)
    return None


class Info:
    """What one A32 encoding is at machine level."""

    __slots__ = ("kind", "cond", "text", "bad", "control", "pc_operand", "mem", "regs")

    def __init__(self):
        self.kind = None
        self.cond = 14
        self.text = None
        self.bad = None  # reason why the emulator will not execute it (undefined / unpredictable / unsupported)
        self.control = False
        self.pc_operand = False
        # mem: (base, index | None, index shift (type, amount), sign, lo, hi): the bytes accessed are
        # [address + lo, address + hi) with address = base (+|-) shifted index; for immediate offsets lo/hi include it
        self.mem = None
        self.regs = ()  # register numbers named by the encoding


def info(code):
    if len(code) != 4:
        return None
    w = int.from_bytes(code, "little")
    kind, cond, a, text = arm32.decode(w)
    r = Info()
    r.kind, r.cond, r.text = kind, cond, text
    K = arm32
    if kind == K.K_BAD:
        r.bad = "%s: %s" % a
        return r
    if kind == K.K_UNSUP:
        r.bad = "unsupported: %s" % a[0]
        return r
    regs = []
    if kind == K.K_DP:
        opc, s, rd, rn, mode, rm, stype, amt = a
        test = 8 <= opc <= 11
        if not test:
            regs.append(rd)
            if rd == 15:
                r.control = True
        if opc not in (K.MOV, K.MVN):
            regs.append(rn)
        if mode >= 1:
            regs.append(rm)
        if mode == 2:
            regs.append(amt)
    elif kind in (K.K_B, K.K_BX, K.K_TRAP):
        r.control = True
        if kind == K.K_BX:
            regs.append(a[1])
    elif kind == K.K_LS:
        l, b, rt, rn, rm, stype, amt, imm, u, p, wb = a
        regs += [rt, rn] + ([rm] if rm is not None else [])
        if l and rt == 15:
            r.control = True
        n = 1 if b else 4
        if rm is None:
            d = (imm if u else -imm) if p else 0
            r.mem = (rn, None, (0, 0), 1, d, d + n)
        else:
            r.mem = (rn, rm, (stype, amt), (1 if u else -1) if p else 0, 0, n)
    elif kind == K.K_LSX:
        load, size, signed, rt, rn, rm, imm, u, p, wb = a
        regs += [rt, rn] + ([rm] if rm is not None else []) + ([rt + 1] if size == 8 else [])
        if rm is None:
            d = (imm if u else -imm) if p else 0
            r.mem = (rn, None, (0, 0), 1, d, d + size)
        else:
            r.mem = (rn, rm, (0, 0), (1 if u else -1) if p else 0, 0, size)
    elif kind == K.K_LSM:
        l, p, u, wbit, rn, mask = a
        cnt = bin(mask).count("1")
        regs += [rn] + [i for i in range(16) if (mask >> i) & 1]
        if l and (mask >> 15) & 1:
            r.control = True
        lo = (4 if p else 0) if u else (-4 * cnt + (0 if p else 4))
        r.mem = (rn, None, (0, 0), 1, lo, lo + 4 * cnt)
    elif kind in (K.K_MOVW, K.K_MOVT, K.K_MRS):
        regs.append(a[0])
    elif kind == K.K_MSR:
        if a[0]:
            regs.append(a[1])
    elif kind == K.K_MUL:
        regs += list(a[1:4])
    elif kind == K.K_MLA:
        regs += list(a[1:5])
    elif kind == K.K_MLS:
        regs += list(a)
    elif kind == K.K_MULL:
        regs += list(a[2:6])
    elif kind == K.K_HMUL:
        regs += list(a[1:4]) + ([a[4]] if a[0] in (0, 1, 3) else [])
    elif kind == K.K_MMUL:
        regs += list(a[1:4]) + ([a[4]] if a[0] else [])
    elif kind == K.K_DIV:
        regs += list(a[1:4])
    elif kind == K.K_UNARY:
        regs += list(a[1:3])
    elif kind == K.K_EXT:
        regs += [a[2], a[4]] + ([a[3]] if a[3] != 15 else [])
    elif kind == K.K_BFX:
        regs += [a[1], a[2]]
    elif kind == K.K_BFI:
        regs += [a[0]] + ([a[1]] if a[1] is not None else [])
    elif kind == K.K_SAT:
        regs += [a[1], a[2]]
    r.regs = tuple(dict.fromkeys(regs))
    r.pc_operand = 15 in r.regs
    return r


class Result:
    __slots__ = ("status", "changed", "arena_hash", "nchanged", "first", "last", "regs", "flags")

    def __init__(self, status, changed, arena_hash, nchanged, first, last, regs, flags):
        self.status = status
        self.changed = changed
        self.arena_hash = arena_hash
        self.nchanged = nchanged
        self.first = first
        self.last = last
        self.regs = regs
        self.flags = flags

    def reg(self, f, i):
        return self.regs[i]


_M = []


def _machine():
    if not _M:
        m = arm32.Machine(step_limit=2)
        code = m.map(CODE_BASE, 64, name="code")
        arena = m.map(ARENA_BASE, ARENA_SIZE, name="arena")
        _M.append((m, code[2], arena[2]))
    return _M[0]


def arena_fill(seed):
    return hashlib.shake_128(b"C07-arena-%d" % (seed & 0xFFFFFFFFFFFFFFFF)).digest(ARENA_SIZE)


def run_batch(items):
    m, codebuf, arena = _machine()
    out = []
    for code, st, seed in items:
        codebuf[:] = bytes(64)
        codebuf[: len(code)] = code
        fill = arena_fill(seed)
        arena[:] = fill
        regs = [v & M32 for v in st["g"]][:16]
        regs[15] = 0
        m.regs[:] = regs
        f = st.get("f", 0)
        m.n, m.z, m.c, m.v, m.q, m.ge = (f >> 3) & 1, (f >> 2) & 1, (f >> 1) & 1, f & 1, 0, 0
        status = 0
        try:
            m.run(CODE_BASE, until=(CODE_BASE + 4) & M32, step_limit=1)
        except arm32.StepLimit:
            status = "control transfer"
        except arm32.EmuError as e:
            status = type(e).__name__
        after = bytes(arena)
        first = last = nch = 0
        if after != fill:
            diffs = [i for i in range(ARENA_SIZE) if after[i] != fill[i]]
            first, last, nch = diffs[0], diffs[-1], len(diffs)
        ah = int.from_bytes(hashlib.blake2b(after, digest_size=8).digest(), "little")
        outregs = list(m.regs)
        outregs[15] = 0
        ch = 0
        for i in range(15):
            if outregs[i] != regs[i]:
                ch |= 1 << i
        out.append(Result(status, ch, ah, nch, first, last, outregs, m.n << 3 | m.z << 2 | m.c << 1 | m.v))
    return out


_SELF = []


def validated():
    """(ok, note): the emulator's own self-check (cached by arm32 in /verif/.build)."""
    import os

    if not _SELF and os.environ.get("VERIF_ARM32_FORCE_FAIL"):
        _SELF.append((False, "forced by VERIF_ARM32_FORCE_FAIL (test of the refusal path)"))
    if not _SELF and arm32 is None:
        _SELF.append((False, "vf/arm32.py cannot be imported (%s)" % _IMPORT_ERROR))
    if not _SELF:
        try:
            r = arm32.selfcheck("quick")
            ok = bool(r.get("ok"))
            note = "arm32.selfcheck(quick): ok=%s, %s semantic calls, %s hand vectors, %s encodings compared with llvm-mc%s" % (
                r.get("ok"),
                r.get("semantic_calls"),
                r.get("hand_vectors"),
                r.get("decode_compared"),
                "" if ok else ", problems: %s" % (r.get("problems") or [])[:3],
            )
        except Exception as e:  # never fail because of the emulator
            ok, note = False, "arm32.selfcheck raised %s: %s" % (type(e).__name__, str(e)[:200])
        _SELF.append((ok, note))
    return _SELF[0]
