"""Small M68000 decoder for the encodings llvm-mc 14 has no decoder table for (its M68k backend is
experimental: no MOVEQ, NOT, NEG/EOR on memory, abs.W, 32-bit immediates, LEA/JSR on several modes,
Bcc with a 32-bit displacement).  Written from the M68000 Family Programmer's Reference Manual
(section 2.2 effective addressing, section 4 instruction descriptions, section 8 opcode maps);
nothing here is derived from ppci.  It covers exactly the operations ppci's m68k back-end has:

    MOVE/MOVEA (lines 1-3), NEG, NOT, LEA, JSR, NOP, RTS (line 4), Bcc/BRA/BSR (line 6),
    MOVEQ (line 7), OR (8), SUB/SUBA (9), CMP/CMPA/EOR/CMPM (B), AND (C), ADD/ADDA (D)

`decode(blob)` -> [(text, nbytes), ...] in the reference's Motorola syntax (add.b (8,%a0), %d1), or
None when a word is not one of the above or the operand combination is not allowed by the manual
(e.g. byte operations on address registers, LEA of a data register).  When the last instruction
needs more extension words than the blob has, its nbytes still counts them (the sum then exceeds
len(blob)) and the missing operand is shown as <missing>: the caller reports a length difference.

C08 uses this decoder only for inputs the reference disassembler rejects; on the inputs both
decode, `vf/props/c08.py` cross-checks the two (evidence key m68k/own decoder agrees with llvm-mc).
"""

SIZES = {0: "b", 1: "w", 2: "l"}
CC = ["ra", "sr", "hi", "ls", "cc", "cs", "ne", "eq", "vc", "vs", "pl", "mi", "ge", "lt", "gt", "le"]


class _Bad(Exception):
    pass


class _Reader:
    def __init__(self, blob, pos):
        self.blob = blob
        self.pos = pos
        self.missing = False

    def word(self):
        if self.pos + 2 > len(self.blob):
            self.pos += 2
            self.missing = True
            return None
        v = (self.blob[self.pos] << 8) | self.blob[self.pos + 1]
        self.pos += 2
        return v

    def long(self):
        hi, lo = self.word(), self.word()
        if hi is None or lo is None:
            return None
        return (hi << 16) | lo


def _s16(v):
    return v - 0x10000 if v & 0x8000 else v


def _num(v, signed=True):
    if v is None:
        return "<missing>"
    return str(_s16(v) if signed else v)


# categories of effective addresses (PRM table 2-4): data, memory, control, alterable
def _ea(rd, mode, reg, size):
    """-> (text, set of categories)"""
    if mode == 0:
        return "%%d%d" % reg, {"data", "alterable"}
    if mode == 1:
        if size == "b":
            raise _Bad("byte operation on an address register")
        return "%%a%d" % reg, {"alterable", "areg"}
    if mode == 2:
        return "(%%a%d)" % reg, {"data", "memory", "control", "alterable"}
    if mode == 3:
        return "(%%a%d)+" % reg, {"data", "memory", "alterable"}
    if mode == 4:
        return "-(%%a%d)" % reg, {"data", "memory", "alterable"}
    if mode == 5:
        return "(%s,%%a%d)" % (_num(rd.word()), reg), {"data", "memory", "control", "alterable"}
    if mode == 6:
        raise _Bad("indexed mode not modelled")
    if reg == 0:
        return "(%s).w" % _num(rd.word()), {"data", "memory", "control", "alterable"}
    if reg == 1:
        v = rd.long()
        return "(%s).l" % ("<missing>" if v is None else str(v)), {"data", "memory", "control", "alterable"}
    if reg == 2:
        return "(%s,%%pc)" % _num(rd.word()), {"data", "memory", "control"}
    if reg == 4:
        if size == "l":
            v = rd.long()
            return "#%s" % ("<missing>" if v is None else str(v)), {"data", "memory"}
        v = rd.word()
        if size == "b" and v is not None and (v >> 8) not in (0, 0xFF):
            # the upper byte of the extension word of a byte immediate is reserved (0)
            pass
        return "#%s" % _num(v, signed=False), {"data", "memory"}
    raise _Bad("reserved effective address")


def _need(cats, *wanted):
    for w in wanted:
        if w not in cats:
            raise _Bad("addressing mode not allowed here")


def _one(rd):
    w = rd.word()
    if w is None:
        raise _Bad("empty")
    line = w >> 12
    mode, reg = (w >> 3) & 7, w & 7
    r9 = (w >> 9) & 7
    opmode = (w >> 6) & 7
    if line in (1, 2, 3):  # MOVE / MOVEA: 00ss ddd mmm <src ea>
        size = {1: "b", 3: "w", 2: "l"}[line]
        src, cats = _ea(rd, mode, reg, size)
        dmode = opmode
        if dmode == 1:
            if size == "b":
                raise _Bad("movea.b")
            return "movea.%s %s, %%a%d" % (size, src, r9)
        dst, dcats = _ea(rd, dmode, r9, size)
        _need(dcats, "data", "alterable")
        return "move.%s %s, %s" % (size, src, dst)
    if line == 4:
        if w == 0x4E71:
            return "nop"
        if w == 0x4E75:
            return "rts"
        if w & 0xFF00 in (0x4400, 0x4600) and opmode & 3 != 3:
            size = SIZES[opmode & 3]
            t, cats = _ea(rd, mode, reg, size)
            _need(cats, "data", "alterable")
            return "%s.%s %s" % ("neg" if w & 0xFF00 == 0x4400 else "not", size, t)
        if w & 0xFFC0 == 0x4E80:
            t, cats = _ea(rd, mode, reg, "l")
            _need(cats, "control")
            return "jsr %s" % t
        if w & 0xF1C0 == 0x41C0:
            t, cats = _ea(rd, mode, reg, "l")
            _need(cats, "control")
            return "lea %s, %%a%d" % (t, r9)
        raise _Bad("line 4")
    if line == 6:
        cc = CC[(w >> 8) & 15]
        d8 = w & 0xFF
        if d8 == 0:
            d = rd.word()
            t = _num(d)
        elif d8 == 0xFF:  # 32-bit displacement (MC68020 and later)
            d = rd.long()
            t = "<missing>" if d is None else str(d - (1 << 32) if d >> 31 else d)
        else:
            t = str(d8 - 256 if d8 & 0x80 else d8)
        return "b%s $%s" % (cc, t)
    if line == 7:
        if w & 0x100:
            raise _Bad("line 7")
        v = w & 0xFF
        return "moveq #%d, %%d%d" % (v - 256 if v & 0x80 else v, r9)
    if line in (8, 9, 0xB, 0xC, 0xD):
        name = {8: "or", 9: "sub", 0xB: "cmp", 0xC: "and", 0xD: "add"}[line]
        if opmode in (3, 7):  # ADDA / SUBA / CMPA
            if line in (8, 0xC):
                raise _Bad("mul/div")
            size = "w" if opmode == 3 else "l"
            t, cats = _ea(rd, mode, reg, size)
            return "%sa.%s %s, %%a%d" % (name, size, t, r9)
        size = SIZES[opmode & 3]
        if opmode < 3:  # <ea>, Dn
            t, cats = _ea(rd, mode, reg, size)
            if line in (8, 0xC):
                _need(cats, "data")
            return "%s.%s %s, %%d%d" % (name, size, t, r9)
        # Dn, <ea>
        if line == 0xB:
            if mode == 1:
                return "cmpm.%s (%%a%d)+, (%%a%d)+" % (size, reg, r9)
            t, cats = _ea(rd, mode, reg, size)
            _need(cats, "data", "alterable")
            return "eor.%s %%d%d, %s" % (size, r9, t)
        if mode in (0, 1):
            raise _Bad("addx/subx/abcd/sbcd/exg")
        t, cats = _ea(rd, mode, reg, size)
        _need(cats, "memory", "alterable")
        return "%s.%s %%d%d, %s" % (name, size, r9, t)
    raise _Bad("line not modelled")


def decode(blob):
    blob = bytes(blob)
    if not blob or len(blob) % 2:
        return None
    out = []
    pos = 0
    while pos < len(blob):
        rd = _Reader(blob, pos)
        try:
            text = _one(rd)
        except _Bad:
            return None
        out.append((text, rd.pos - pos))
        pos = rd.pos
    return out
