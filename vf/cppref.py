"""Reference C preprocessor for C26 (tokenizer, directives, Prosser-style macro expansion, #if evaluation).

Written from ISO C99 6.10 (and Prosser's hide-set algorithm, X3J11/86-196).  gcc -E is the oracle of C26;
this model (a) lets the generator avoid undefined / diagnosed constructs by construction, (b) is a second
opinion that guards against shapes where the standard leaves the result unspecified (gcc and the model
must agree before ppci is judged), and (c) carries *quirk* switches that reproduce the known defects of
ppci, so that a failure is attributed to a known finding only when the model with that quirk reproduces
ppci's output exactly.  It also records *features*: the trigger conditions of the known findings.

Only what C26 generates is supported: #define (object/function-like, variadic), #undef, #if/#ifdef/#ifndef/
#elif/#else/#endif.  Anything else raises RefError.
"""

import re

MASK = (1 << 64) - 1
IMAX = (1 << 63) - 1
IMIN = -(1 << 63)


class RefError(Exception):
    """The text is outside the supported/valid domain (a conforming preprocessor would diagnose it)."""


class QuirkRaise(Exception):
    """Under the active quirks ppci is predicted to raise an exception of this type."""

    def __init__(self, typ):
        super().__init__(typ)
        self.typ = typ


class RefUB(RefError):
    """#if expression with undefined/implementation-defined/diagnosed arithmetic."""


# ---------------------------------------------------------------------------
# tokenizer

PUNCT = [
    "%:%:", "...", "<<=", ">>=",
    "->", "++", "--", "<<", ">>", "<=", ">=", "==", "!=", "&&", "||", "*=", "/=", "%=", "+=", "-=", "&=", "^=", "|=", "##",
    "<:", ":>", "<%", "%>", "%:",
    "[", "]", "(", ")", "{", "}", ".", "&", "*", "+", "-", "~", "!", "/", "%", "<", ">", "^", "|", "?", ":", ";", "=", ",", "#",
]
_TOKEN_RE = re.compile(
    r"""
    (?P<ws>[ \t\f\v]+|/\*.*?\*/|//[^\n]*)
  | (?P<nl>\n)
  | (?P<str>L?"(?:[^"\\\n]|\\.)*")
  | (?P<chr>L?'(?:[^'\\\n]|\\.)+')
  | (?P<num>\.?[0-9](?:[eEpP][+-]|[0-9a-zA-Z_.])*)
  | (?P<id>[A-Za-z_][A-Za-z_0-9]*)
  | (?P<punct>%s)
  | (?P<other>.)
    """
    % "|".join(re.escape(p) for p in PUNCT),
    re.VERBOSE | re.DOTALL,
)


class Tok:
    __slots__ = ("kind", "text", "ws", "bol", "hs", "op")

    def __init__(self, kind, text, ws=False, bol=False, hs=frozenset(), op=False):
        self.kind = kind
        self.text = text
        self.ws = ws
        self.bol = bol
        self.hs = hs
        self.op = op  # a '#'/'##' of a replacement list that acts as an operator

    def copy(self, **kw):
        t = Tok(self.kind, self.text, self.ws, self.bol, self.hs, self.op)
        for k, v in kw.items():
            setattr(t, k, v)
        return t

    def __repr__(self):
        return "Tok(%s %r)" % (self.kind, self.text)


def tokenize(text):
    """Preprocessing tokens of `text` (after line splicing)."""
    text = text.replace("\\\n", "")
    out = []
    ws = False
    bol = True
    for m in _TOKEN_RE.finditer(text):
        kind = m.lastgroup
        if kind == "ws":
            ws = True
            continue
        if kind == "nl":
            bol = True
            ws = False
            continue
        out.append(Tok(kind, m.group(), ws or bol, bol))
        ws = False
        bol = False
    return out


def spell(tokens):
    return [t.text for t in tokens]


# ---------------------------------------------------------------------------
# #if arithmetic


def parse_int_literal(text):
    """-> (value, unsigned) for an integer pp-number; RefError for anything else."""
    m = re.fullmatch(r"(0[xX][0-9a-fA-F]+|0[0-7]*|[1-9][0-9]*)([uUlL]*)", text)
    if not m:
        raise RefError("not an integer constant: %s" % text)
    body, suffix = m.groups()
    s = suffix.lower()
    if s not in ("", "u", "l", "ul", "lu", "ll", "ull", "llu") or (("ll" in s) and not ("ll" in suffix or "LL" in suffix)):
        raise RefError("bad integer suffix: %s" % text)
    if body.lower().startswith("0x"):
        v = int(body[2:], 16)
        dec = False
    elif body.startswith("0") and len(body) > 1:
        v = int(body, 8)
        dec = False
    else:
        v = int(body, 10)
        dec = True
    unsigned = "u" in s
    if v > MASK:
        raise RefUB("integer constant too large")
    if not unsigned and v > IMAX:
        if dec:
            raise RefUB("decimal constant so large that it is unsigned")
        unsigned = True
    return v, unsigned


SIMPLE_ESC = {"n": 10, "t": 9, "0": 0, "\\": 92, "'": 39, '"': 34, "a": 7, "b": 8, "f": 12, "r": 13, "v": 11, "?": 63}


def parse_char_literal(text):
    if text.startswith("L"):
        raise RefError("wide character constant")
    inner = text[1:-1]
    if len(inner) == 1:
        return ord(inner), False
    if len(inner) == 2 and inner[0] == "\\" and inner[1] in SIMPLE_ESC:
        return SIMPLE_ESC[inner[1]], False
    raise RefError("unsupported character constant %s" % text)


BINPREC = {
    "*": 11, "/": 11, "%": 11, "+": 10, "-": 10, "<<": 9, ">>": 9, "<": 8, ">": 8, "<=": 8, ">=": 8,
    "==": 7, "!=": 7, "&": 6, "^": 5, "|": 4, "&&": 3, "||": 2,
}


class IfParser:
    """Parses the (already macro-expanded) tokens of a #if line into a tree."""

    def __init__(self, toks):
        self.toks = toks
        self.pos = 0

    def peek(self):
        return self.toks[self.pos].text if self.pos < len(self.toks) else None

    def take(self):
        t = self.toks[self.pos]
        self.pos += 1
        return t

    def parse(self):
        if not self.toks:
            raise RefError("#if with no expression")
        e = self.cond()
        if self.pos != len(self.toks):
            raise RefError("trailing tokens in #if: %s" % self.peek())
        return e

    def cond(self):
        c = self.binary(2)
        if self.peek() == "?":
            self.take()
            a = self.cond_or_comma()
            if self.peek() != ":":
                raise RefError("expected ':'")
            self.take()
            b = self.cond()
            return ("?:", c, a, b)
        return c

    def cond_or_comma(self):
        return self.cond()

    def binary(self, minprec):
        lhs = self.unary()
        while True:
            op = self.peek()
            prec = BINPREC.get(op)
            if prec is None or prec < minprec or self.toks[self.pos].kind != "punct":
                return lhs
            self.take()
            rhs = self.binary(prec + 1)
            lhs = (op, lhs, rhs)

    def unary(self):
        if self.pos >= len(self.toks):
            raise RefError("unexpected end of #if expression")
        t = self.take()
        if t.kind == "punct" and t.text in ("-", "+", "~", "!"):
            return ("u" + t.text, self.unary())
        if t.kind == "punct" and t.text == "(":
            e = self.cond()
            if self.peek() != ")":
                raise RefError("expected ')'")
            self.take()
            return e
        if t.kind == "num":
            v, u = parse_int_literal(t.text)
            return ("lit", v, u)
        if t.kind == "chr":
            v, u = parse_char_literal(t.text)
            return ("lit", v, u)
        if t.kind == "id":
            return ("lit", 0, False)
        raise RefError("unexpected token in #if: %s" % t.text)


def _wrap(v):
    return v & MASK


def _tosigned(v):
    v &= MASK
    return v - (1 << 64) if v > IMAX else v


def _chk(v, skip):
    if IMIN <= v <= IMAX:
        return v
    if skip:
        return _tosigned(v)
    raise RefUB("signed overflow in #if")


def _tdiv(a, b):
    q = abs(a) // abs(b)
    return q if (a < 0) == (b < 0) else -q


def ceval(e, skip=False, feats=None):
    """C semantics (intmax_t / uintmax_t, 64 bit).  -> (value, unsigned).  skip: unevaluated operand."""
    k = e[0]
    if k == "lit":
        if e[2] and feats is not None:
            feats.add("if_unsigned")
        return e[1], e[2]
    if k in ("u-", "u+", "u~", "u!"):
        v, u = ceval(e[1], skip, feats)
        if k == "u+":
            return v, u
        if k == "u!":
            return int(v == 0), False
        if k == "u~":
            return (_wrap(~v), True) if u else (~v, False)
        return (_wrap(-v), True) if u else (_chk(-v, skip), False)
    if k == "&&" or k == "||":
        a, _ = ceval(e[1], skip, feats)
        decided = (a == 0) if k == "&&" else (a != 0)
        b, _ = ceval(e[2], skip or decided, feats)
        if k == "&&":
            return int(a != 0 and b != 0), False
        return int(a != 0 or b != 0), False
    if k == "?:":
        c, _ = ceval(e[1], skip, feats)
        a, ua = ceval(e[2], skip or c == 0, feats)
        b, ub = ceval(e[3], skip or c != 0, feats)
        u = ua or ub
        v = a if c != 0 else b
        return (_wrap(v), True) if u else (v, False)
    a, ua = ceval(e[1], skip, feats)
    b, ub = ceval(e[2], skip, feats)
    if k in ("<<", ">>"):
        if feats is not None:
            feats.add("if_shift")
        cnt = b
        if cnt < 0 or cnt > 63:
            if skip:
                return 0, ua
            raise RefUB("shift count out of range")
        if ua:
            return (_wrap(a << cnt) if k == "<<" else a >> cnt), True
        if a < 0:
            if skip:
                return 0, False
            raise RefUB("shift of a negative value")
        return (_chk(a << cnt, skip) if k == "<<" else a >> cnt), False
    u = ua or ub
    if u:
        a, b = _wrap(a), _wrap(b)
    elif feats is not None and (a < 0 or b < 0):
        feats.add("if_negative")
    if k in ("/", "%"):
        if b == 0:
            if skip:
                return 0, u
            raise RefUB("division by zero in #if")
        if feats is not None and not u and (a < 0 or b < 0):
            feats.add("if_negdiv")
        if u:
            return (a // b if k == "/" else a % b), True
        q = _tdiv(a, b)
        if k == "/":
            return _chk(q, skip), False
        _chk(q, skip)
        return a - q * b, False
    if k in ("*", "+", "-"):
        r = a * b if k == "*" else a + b if k == "+" else a - b
        return (_wrap(r), True) if u else (_chk(r, skip), False)
    if k in ("<", ">", "<=", ">=", "==", "!="):
        r = {"<": a < b, ">": a > b, "<=": a <= b, ">=": a >= b, "==": a == b, "!=": a != b}[k]
        return int(r), False
    if k in ("&", "^", "|"):
        r = a & b if k == "&" else a ^ b if k == "^" else a | b
        return (_wrap(r), True) if u else (r, False)
    raise RefError("operator %s" % k)


def pyeval(e, floordiv=True):
    """ppci's evaluation: unbounded Python integers (no unsigned type unless `unsigned`), `//` and `%`
    of Python when floordiv.  Raises ZeroDivisionError like ppci would."""
    k = e[0]
    if k == "lit":
        return e[1]
    if k == "u+":
        return pyeval(e[1], floordiv)
    if k == "u-":
        return -pyeval(e[1], floordiv)
    if k == "u~":
        return ~pyeval(e[1], floordiv)
    if k == "u!":
        return int(not pyeval(e[1], floordiv))
    if k == "&&":
        return int(bool(pyeval(e[1], floordiv) and pyeval(e[2], floordiv)))
    if k == "||":
        return int(bool(pyeval(e[1], floordiv) or pyeval(e[2], floordiv)))
    if k == "?:":
        return pyeval(e[2], floordiv) if pyeval(e[1], floordiv) else pyeval(e[3], floordiv)
    a = pyeval(e[1], floordiv)
    b = pyeval(e[2], floordiv)
    if k == "/":
        return a // b if floordiv else _tdiv(a, b)
    if k == "%":
        return a % b if floordiv else a - _tdiv(a, b) * b
    if k == "*":
        return a * b
    if k == "+":
        return a + b
    if k == "-":
        return a - b
    if k == "<<":
        return a << b
    if k == ">>":
        return a >> b
    if k in ("<", ">", "<=", ">=", "==", "!="):
        return int({"<": a < b, ">": a > b, "<=": a <= b, ">=": a >= b, "==": a == b, "!=": a != b}[k])
    if k == "&":
        return a & b
    if k == "^":
        return a ^ b
    if k == "|":
        return a | b
    raise RefError("operator %s" % k)


# ---------------------------------------------------------------------------
# the preprocessor


class Macro:
    def __init__(self, name, params, variadic, body):
        self.name = name
        self.params = params  # None for object-like
        self.variadic = variadic
        self.body = body


PM = "placemarker"


class RefPP:
    """quirks: set of names of ppci defects to reproduce (see vf/props/c26.py)."""

    def __init__(self, quirks=()):
        self.quirks = frozenset(quirks)
        self.macros = {}
        self.features = set()
        self.if_trees = []
        self.steps = 0
        self.ever_defined = set()

    # -- driver -----------------------------------------------------------
    def process(self, text):
        toks = tokenize(text)
        lines = []
        for t in toks:
            if t.bol:
                lines.append([])
            lines[-1].append(t)
        out = []
        run = []
        ifstack = []  # [taken_before, active_now, seen_else, parent_active]

        def active():
            return all(f[1] for f in ifstack)

        def flush(final=False):
            if run:
                had = "empty_at_end" in self.features
                out.extend(self.expand(list(run)))
                if not had and not final:
                    # something follows this text in the file: ppci's next_token() still finds a token
                    self.features.discard("empty_at_end")
                del run[:]

        for line in lines:
            if line[0].kind == "punct" and line[0].text == "#":
                if len(line) == 1:
                    continue
                d = line[1].text
                rest = line[2:]
                if d in ("if", "ifdef", "ifndef"):
                    flush()
                    if not active():
                        ifstack.append([True, False, False])
                        continue
                    if d == "if":
                        c = self.eval_if(rest)
                    else:
                        if len(rest) != 1 or rest[0].kind != "id":
                            raise RefError("#%s needs one identifier" % d)
                        c = (rest[0].text in self.macros) == (d == "ifdef")
                    ifstack.append([c, c, False])
                elif d == "elif":
                    flush()
                    if not ifstack or ifstack[-1][2]:
                        raise RefError("#elif without #if")
                    f = ifstack[-1]
                    if not all(g[1] for g in ifstack[:-1]):
                        continue
                    if f[0]:
                        f[1] = False
                    else:
                        c = self.eval_if(rest)
                        f[0] = f[1] = c
                elif d == "else":
                    flush()
                    if not ifstack or ifstack[-1][2] or rest:
                        raise RefError("#else without #if")
                    f = ifstack[-1]
                    f[2] = True
                    if all(g[1] for g in ifstack[:-1]):
                        f[1] = not f[0]
                        f[0] = True
                elif d == "endif":
                    flush()
                    if not ifstack or rest:
                        raise RefError("#endif without #if")
                    ifstack.pop()
                elif not active():
                    continue
                elif d == "define":
                    flush()
                    self.define(rest)
                elif d == "undef":
                    flush()
                    if len(rest) != 1 or rest[0].kind != "id":
                        raise RefError("#undef needs one identifier")
                    self.macros.pop(rest[0].text, None)
                else:
                    raise RefError("unsupported directive #%s" % d)
            elif active():
                run.extend(line)
        flush(final=bool(lines) and bool(run) and run[-1] is lines[-1][-1])
        if ifstack:
            raise RefError("unterminated #if")
        return spell(out)

    def define(self, rest):
        if not rest or rest[0].kind != "id":
            raise RefError("#define needs a name")
        name = rest[0].text
        if name == "defined" or name.startswith("__"):
            raise RefError("reserved macro name")
        params = None
        variadic = False
        i = 1
        if len(rest) > 1 and rest[1].text == "(" and not rest[1].ws:
            params = []
            i = 2
            while True:
                if i >= len(rest):
                    raise RefError("unterminated parameter list")
                t = rest[i]
                if t.text == ")" and not params:
                    i += 1
                    break
                if t.text == "...":
                    variadic = True
                    params.append("__VA_ARGS__")
                    i += 1
                    if i >= len(rest) or rest[i].text != ")":
                        raise RefError("')' expected after '...'")
                    i += 1
                    break
                if t.kind != "id" or t.text in params or t.text == "__VA_ARGS__":
                    raise RefError("bad parameter")
                params.append(t.text)
                i += 1
                if i < len(rest) and rest[i].text == ",":
                    i += 1
                    continue
                if i < len(rest) and rest[i].text == ")":
                    i += 1
                    break
                raise RefError("bad parameter list")
        body = [t.copy(bol=False) for t in rest[i:]]
        if body:
            body[0].ws = False
            if body[0].text == "##" or body[-1].text == "##":
                raise RefError("## at the edge of a replacement list")
        for j, t in enumerate(body):
            if t.kind != "punct":
                if t.text == "__VA_ARGS__" and not variadic:
                    raise RefError("__VA_ARGS__ outside a variadic macro")
                continue
            if t.text == "##":
                t.op = True
            elif t.text == "#" and params is not None:
                if j + 1 >= len(body) or body[j + 1].text not in params:
                    raise RefError("# is not followed by a parameter")
                t.op = True
        old = self.macros.get(name)
        if old is not None:
            same = (
                old.params == params
                and old.variadic == variadic
                and [(t.text, t.ws) for t in old.body] == [(t.text, t.ws) for t in body]
            )
            if not same:
                raise RefError("incompatible redefinition of %s" % name)
        self.macros[name] = Macro(name, params, variadic, body)
        self.ever_defined.add(name)

    # -- #if ----------------------------------------------------------------
    def eval_if(self, toks):
        toks = [t.copy(bol=False) for t in toks]
        # defined X / defined ( X )
        out = []
        i = 0
        while i < len(toks):
            t = toks[i]
            if t.kind == "id" and t.text == "defined":
                j = i + 1
                paren = j < len(toks) and toks[j].text == "("
                if paren:
                    j += 1
                if j >= len(toks) or toks[j].kind != "id":
                    raise RefError("defined without identifier")
                name = toks[j].text
                j += 1
                if paren:
                    if j >= len(toks) or toks[j].text != ")":
                        raise RefError("defined( without )")
                    j += 1
                out.append(Tok("num", "1" if name in self.macros else "0", t.ws))
                self.features.add("if_defined")
                i = j
            else:
                out.append(t)
                i += 1
        exp = self.expand(out, for_arg=True)
        for t in exp:
            if t.kind == "id" and t.text == "defined":
                raise RefUB("'defined' produced by macro expansion")
            if t.kind == "id" and t.text in self.macros and self.macros[t.text].params is not None:
                self.features.add("if_funclike_name")
        tree = IfParser(exp).parse()
        self.if_trees.append(tree)
        feats = set()
        v, u = ceval(tree, False, feats)
        self.features |= feats
        nou = "if_nounsigned" in self.quirks
        flo = "if_floordiv" in self.quirks
        if nou or flo:
            try:
                pv = pyeval(tree, floordiv=flo) if nou else _quirk_floordiv_only(tree)
            except (ZeroDivisionError, ValueError, OverflowError) as e:
                raise RefError("quirk evaluation raises %s" % type(e).__name__)
            return pv != 0
        return v != 0

    # -- expansion ------------------------------------------------------------
    def expand(self, ts, for_arg=False):
        stack = ts[::-1]
        out = []
        while stack:
            if not self.try_expand(stack, for_arg):
                out.append(stack.pop())
        return out

    def try_expand(self, stack, for_arg=False):
        """If stack[-1] starts a macro invocation, replace it (and its arguments) by the replacement: True."""
        self.steps += 1
        if self.steps > 200000:
            raise RefError("expansion too large")
        t = stack[-1]
        if t.kind != "id" or t.text not in self.macros:
            return False
        if t.text in t.hs:
            self.features.add("painted")
            return False
        m = self.macros[t.text]
        if m.params is None:
            stack.pop()
            if not self._push(stack, self.subst(m, [], t.hs | {t.text}), t):
                self.features.add("empty_at_end_arg" if for_arg else "empty_at_end")
            return True
        stack.pop()
        try:
            if "funlike_lookahead" in self.quirks:
                # ppci looks for the '(' with macro expansion switched on
                while stack and self.try_expand(stack, for_arg):
                    pass
            if stack and stack[-1].kind == "id" and stack[-1].text in self.macros and stack[-1].text not in stack[-1].hs:
                self.features.add("funlike_then_macro")
            if not stack:
                self.features.add("funlike_at_end_arg" if for_arg else "funlike_at_end")
            if not (stack and stack[-1].kind == "punct" and stack[-1].text == "("):
                stack.append(t)
                t = None
                return False
        finally:
            pass
        stack.pop()
        args = [[]]
        depth = 0
        rparen = None
        while stack:
            a = stack.pop()
            if a.text == "(" and a.kind == "punct":
                depth += 1
            elif a.text == ")" and a.kind == "punct":
                if depth == 0:
                    rparen = a
                    break
                depth -= 1
            elif a.text == "," and a.kind == "punct" and depth == 0:
                if not (m.variadic and len(args) == len(m.params)):
                    args.append([])
                    continue
            args[-1].append(a.copy(bol=False))
        if rparen is None:
            raise RefError("unterminated invocation of %s" % m.name)
        n = len(m.params)
        if n == 0:
            if len(args) != 1 or args[0]:
                raise RefError("%s takes no arguments" % m.name)
            args = []
        elif len(args) != n:
            raise RefError("wrong number of arguments for %s" % m.name)
        for a in args:
            if a:
                a[0].ws = False
            else:
                self.features.add("empty_arg")
        hs = (t.hs & rparen.hs) | {t.text}
        if not self._push(stack, self.subst(m, args, hs), t):
            self.features.add("empty_at_end_arg" if for_arg else "empty_at_end")
        return True

    def _push(self, stack, rep, t):
        if rep:
            rep[0].ws = t.ws
        elif stack and t.ws:
            stack[-1] = stack[-1].copy(ws=True)
        stack.extend(reversed(rep))
        return bool(rep) or bool(stack)

    def subst(self, m, args, hs):
        body = m.body
        fl = m.params is not None
        n = len(body)
        groups = []  # (tokens, pasted_to_previous)
        i = 0
        paste_next = False
        while i < n:
            b = body[i]
            if b.op and b.text == "##":
                paste_next = True
                self.features.add("paste")
                i += 1
                continue
            lhs_of_paste = i + 1 < n and body[i + 1].op and body[i + 1].text == "##"
            if b.op and b.text == "#":
                p = m.params.index(body[i + 1].text)
                toks = [self.stringize(args[p], b)]
                self.features.add("stringize")
                lhs_of_paste = i + 2 < n and body[i + 2].op and body[i + 2].text == "##"
                if lhs_of_paste or paste_next:
                    self.features.add("stringize_paste")
                i += 2
            elif fl and b.kind == "id" and b.text in m.params:
                p = m.params.index(b.text)
                if lhs_of_paste or paste_next:
                    toks = [a.copy() for a in args[p]]
                    if not toks:
                        toks = [Tok(PM, "", b.ws)]
                        self.features.add("paste_empty_arg")
                    elif len(toks) > 1:
                        self.features.add("paste_multi_token_arg")
                else:
                    toks = self.expand([a.copy() for a in args[p]], for_arg=True)
                    toks = [a.copy() for a in toks]
                    for a in toks:
                        if a.kind == "id" and a.text in a.hs and a.text in self.macros:
                            self.features.add("painted_in_arg")
                            if "arg_loses_paint" in self.quirks:
                                a.hs = frozenset()
                    if "arg_loses_paint" in self.quirks:
                        for a in toks:
                            a.hs = frozenset()
                if toks:
                    toks[0].ws = b.ws
                if any(a.text == "##" and a.kind == "punct" for a in toks):
                    self.features.add("hashhash_in_arg")
                i += 1
            else:
                toks = [b.copy()]
                i += 1
            groups.append((toks, paste_next))
            paste_next = False
        out = []
        if "ppci_paste" in self.quirks:
            # ppci: no placemarkers; after substitution every '##' of the flat list pastes its neighbours
            flat = []
            for toks, pasted in groups:
                if pasted:
                    flat.append(Tok("punct", "##"))
                flat.extend(t for t in toks if t.kind != PM)
            k = 0
            while k < len(flat):
                lhs = flat[k]
                k += 1
                while k < len(flat) and flat[k].text == "##" and flat[k].kind == "punct":
                    k += 1
                    if k >= len(flat):
                        raise QuirkRaise("AttributeError")
                    try:
                        lhs = self.glue(lhs, flat[k])
                    except RefError:
                        raise QuirkRaise("CompilerError")
                    k += 1
                out.append(lhs)
            groups = []
        for toks, pasted in groups:
            if pasted and out:
                out[-1:] = [self.glue(out[-1], toks[0])]
                out.extend(toks[1:])
            else:
                out.extend(toks)
        res = []
        for t in out:
            if t.kind == PM:
                continue
            t.hs = t.hs | hs
            t.bol = False
            res.append(t)
        return res

    def glue(self, a, b):
        if a.kind == PM:
            return b.copy(ws=a.ws)
        if b.kind == PM:
            return a
        text = a.text + b.text
        toks = tokenize(text)
        if len(toks) != 1 or toks[0].kind == "other" or toks[0].text != text:
            raise RefError("pasting %r and %r does not give a valid token" % (a.text, b.text))
        k = (a.kind, b.kind)
        self.features.add("paste_%s_%s" % k)
        if toks[0].kind == "num" and not re.fullmatch(r"(0[xX][0-9a-fA-F]+|[0-9]+)[uUlL]*|[0-9]*\.?[0-9]+([eE][+-]?[0-9]+)?[fFlL]?", text):
            self.features.add("paste_ppnumber")
        if toks[0].text in ("##", "#", "%:", "%:%:"):
            self.features.add("paste_makes_hash")
        return Tok(toks[0].kind, text, a.ws, False, a.hs & b.hs)

    def stringize(self, arg, hash_tok):
        parts = []
        for j, t in enumerate(arg):
            if j and not t.ws:
                self.features.add("stringize_tight")
            if j and (t.ws or "stringize_all_spaces" in self.quirks):
                parts.append(" ")
            s = t.text
            if t.kind in ("str", "chr"):
                s = s.replace("\\", "\\\\").replace('"', '\\"')
                self.features.add("stringize_literal")
            parts.append(s)
        text = '"' + "".join(parts) + '"'
        if not re.fullmatch(r'"(?:[^"\\\n]|\\.)*"', text):
            raise RefError("stringizing gives an invalid string literal")
        return Tok("str", text, hash_tok.ws)


def _quirk_floordiv_only(tree):
    """C typing, but '/' and '%' of signed operands computed with Python's floor semantics."""

    def ev(e):
        k = e[0]
        if k in ("/", "%"):
            a, ua = ev(e[1])
            b, ub = ev(e[2])
            u = ua or ub
            if u:
                a, b = _wrap(a), _wrap(b)
            if b == 0:
                raise RefError("quirk evaluation divides by zero")
            r = a // b if k == "/" else a % b
            return (r, u)
        if k == "lit":
            return e[1], e[2]
        if k in ("u-", "u+", "u~", "u!"):
            return ceval((k, ("lit",) + ev(e[1])), True)
        if k == "&&":
            a, _ = ev(e[1])
            return (int(a != 0 and ev(e[2])[0] != 0), False)
        if k == "||":
            a, _ = ev(e[1])
            return (int(a != 0 or ev(e[2])[0] != 0), False)
        if k == "?:":
            c, _ = ev(e[1])
            # the type needs both arms; the unselected arm may not be evaluable under the quirk
            sel = ev(e[2]) if c != 0 else ev(e[3])
            _, uo = ceval(e[3] if c != 0 else e[2], True)
            u = sel[1] or uo
            return ((_wrap(sel[0]), True) if u else sel)
        a = ev(e[1])
        b = ev(e[2])
        return ceval((k, ("lit",) + a, ("lit",) + b), True)

    return ev(tree)[0]
