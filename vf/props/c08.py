"""C08 - Instruction encodings agree with the architecture reference."""

import collections

from .. import isagen as G
from .. import llvmref as L
from ..core import Discard, Stats, hyp_search, open_finding_ids, subseed

PID = "C08"
TARGETS_R1 = ("riscv", "riscv:rvc", "riscv:rvf", "x86_64", "arm", "arm:thumb")
TARGETS_R2 = ("msp430", "avr", "mips", "m68k")  # round 2: strict comparison, positional decoding
TARGETS = TARGETS_R1 + TARGETS_R2
RULE = (
    "for riscv, riscv:rvc, riscv:rvf, x86_64, arm, arm:thumb, msp430, avr, mips and m68k every instruction class "
    "with a syntax (data directives db/dw/dd/... excluded) is instantiated by Hypothesis from "
    "syntax.formal_arguments (all "
    "registers of the declared class, ints from the probed accepted set, labels, all constructor "
    "alternatives) and, deterministically, every register is put into every register field one field at a "
    "time for each addressing-mode constructor (base x index product for two-register memory operands); for "
    "msp430/avr/mips/m68k every int operand with at most 8 accepted values is also given each of them "
    "(msp430 constant-generator sources #-1/0/1/2/4/8 in every class); "
    "relocations of label operands are applied with a synthetic in-range symbol value; the "
    "emitted bytes are decoded by the reference disassembler (llvm-mc 14 for RISC-V/ARM/Thumb/MSP430/AVR/"
    "MIPS(el)/M68k, GNU objdump "
    "for x86-64) in one batch; decoding must consume exactly len(encode()) bytes and the hand-written "
    "normalisation of the decoded text must equal the normalisation of str(instance): same mnemonic class, "
    "same registers in the same positions, same addressing mode, same immediates/displacements (labels match "
    "any value). For msp430/avr/mips/m68k the comparison is strict: another operand count or operand kind is a "
    "difference, not 'unverifiable'. "
    "non-trivial = at least one register/immediate operand; distinct = (target, class, operand description)"
)
ASSUMPTIONS = [
    "llvm-mc 14 / GNU objdump decode the covered ISAs correctly",
    "the normalisers in vf/llvmref.py (written from the ISA manuals) map both syntaxes to the same canonical "
    "form; text they cannot interpret, operand-count differences between syntax variants (first six targets "
    "only) and undecodable byte strings are counted as unverifiable, never as violations",
    "an instance ppci cannot encode or print is outside the domain",
    "operand sizes of x86 memory operands are not compared (ppci does not print them)",
    "msp430/avr/mips/m68k inputs are associated with llvm-mc's outputs by position (one input per line, NOP "
    "padding, 'invalid instruction encoding' positions from stderr); a stream that is not tiled exactly, or on "
    "which llvm-mc dies, is halved and retried; inputs known to kill llvm-mc 14 (msp430 push @Rn/@Rn+, avr "
    "ldd/std) are not sent to it",
    "two hand-written fallback decoders are trusted where llvm-mc 14 has no usable decoder table: AVR "
    "LD/LDD/ST/STD (llvmref.avr_ldst_decode, always used for these words: llvm-mc prints garbage or dies on "
    "them) and vf/m68kdec.py for the M68000 encodings llvm-mc rejects (MOVEQ, NOT, NEG/EOR on memory, abs.W, "
    "32-bit immediates, Bcc.L, ...); the latter is cross-checked against llvm-mc on every instance both decode "
    "(evidence: 'm68k/own decoder agrees with llvm-mc')",
    "msp430: register-mode / indirect uses of R2/R3 as a source are read as the constant generator's constants "
    "and X(R2) as the absolute mode on both sides, as SLAU144 table 3-2 defines them; emulated mnemonics "
    "(pop, ret, nop, clrc, inc, ...) are expanded to their core instruction on both sides; 16-bit words are "
    "compared modulo 2^16. avr: 8-bit register immediates modulo 2^8, lsl/rol/tst/clr expanded. mips: "
    "move/not/negu/nop idioms expanded; m68k: displacements and immediates modulo the operand size",
    "C08-KF1 (aliased immediates, C10's subject) is recognised on msp430/avr/mips/m68k only when the decoded "
    "value is the printed one with bits dropped (wrap / truncation / alignment mask) and ppci encodes it to the "
    "identical bytes",
]
TRUSTED = ["CPython", "Hypothesis", "llvm-mc 14", "GNU objdump", "normalisers in vf/llvmref.py", "vf/isagen.py",
           "llvmref.avr_ldst_decode (AVR LD/ST decoder from the AVR Instruction Set Manual)",
           "vf/m68kdec.py (M68000 fallback decoder from the Programmer's Reference Manual)"]
REGISTER = True
TECHNIQUE = "generated instruction instances decoded by llvm-mc / objdump and compared through per-ISA normalisers"
LEVEL_TEXT = (
    "Exploration: every class of the covered ISAs is instantiated with all registers and boundary/random "
    "immediates and each encoding is decoded by an independent disassembler; differential testing against the "
    "reference is the only practical oracle for bit-level encodings, and the operand space is sampled with "
    "boundary bias because it cannot be enumerated. or1k, xtensa, microblaze, stm8, mcs6500 have no reference "
    "decoder here. llvm-mc 14's M68k and AVR decoders are incomplete; the gaps are filled by two small "
    "hand-written decoders (trusted base), what neither decodes (operand combinations the architecture "
    "reserves) is reported as unverifiable per target."
)


# ---------------------------------------------------------------------------


def final_bytes(ins, base=0x10000):
    """Encoding with label relocations applied against a symbol 64 bytes after the site
    (ARM adr gets its add/sub opcode bits only from the relocation).  -> (bytes, relocated?)"""
    data, relocs = G.emit_direct_parts(ins)
    if not relocs:
        return data, False
    buf = bytearray(data)
    done = False
    for r in relocs:
        try:
            size = r.size()
            piece = bytearray(buf[r.offset : r.offset + size])
            if len(piece) != size:
                continue
            new = r.apply(base + 64, piece, base + r.offset)
            if new is not None and len(new) == size:
                buf[r.offset : r.offset + size] = bytes(new)
                done = True
        except Exception:
            pass
    return bytes(buf), done


def prepare(desc):
    """-> (instance, text, bytes) or raises Discard.  The text is ppci's printed form with a
    separator restored after a glued mnemonic (that printing defect is C09-KF1's subject)."""
    try:
        ins = G.build(desc)
    except G.BuildError as e:
        raise Discard("bad description: %s" % e)
    cls = type(ins)
    if G.is_data_pseudo(cls) or cls.__module__.endswith("data_instructions"):
        raise Discard("data directive")
    try:
        text = G.render(ins, unglue=True) if G.any_glued(ins) else str(ins)
        data, _ = final_bytes(ins)
    except Exception:
        raise Discard("not encodable")
    if not data:
        raise Discard("empty encoding")
    return ins, text, data


def judge(target, text, data, decoded):
    """-> ("ok"|"unverifiable"|"fail", detail message, structured diff)"""
    if decoded is None:
        return "unverifiable", "undecodable", None
    need = sum(n for _, n in decoded)
    if need != len(data):
        # only vf/m68kdec.py reports an instruction that runs past the end of the emitted bytes
        diff = ("length", len(data), need)
        return (
            "fail",
            "%s %r encodes to %s (%d bytes), but decoding it as %r needs %d bytes"
            % (target, text, data.hex(), len(data), "; ".join(t.replace("\t", " ") for t, _ in decoded), need),
            diff,
        )
    a = L.norm_ppci(target, text)
    if a is None:
        return "unverifiable", "ppci text not interpreted", None
    b = L.norm_ref(target, decoded)
    if b is None:
        return "unverifiable", "reference text not interpreted", None
    diff = L.compare(a, b, strict=target in L.STRICT_FAMILIES)
    if diff is None:
        return "ok", None, None
    if diff[0] == "shape":
        return "unverifiable", "operand shape", None
    return (
        "fail",
        "%s %r encodes to %s, which the reference decodes as %r: %s"
        % (target, text, data.hex(), "; ".join(t.replace("\t", " ") for t, _ in decoded), L.describe_diff(diff)),
        diff,
    )


def _m68k_crosscheck(data, dec):
    from .. import m68kdec

    own = m68kdec.decode(data)
    if own is None:
        return "rejects what llvm-mc decodes"
    a, b = L.norm_ref("m68k", dec), L.norm_ref("m68k", own)
    if a is None or b is None:
        return "not compared with llvm-mc"
    if [n for _, n in own] != [n for _, n in dec] or L.compare(a, b, strict=True) is not None:
        return "DISAGREES with llvm-mc"
    return "agrees with llvm-mc"


def evaluate(desc):
    ins, text, data = prepare(desc)
    dec = L.reference_decode(desc["target"], [data])[0]
    return judge(desc["target"], text, data, dec)


def replay(case):
    st, detail, diff = evaluate(case)
    return detail if st == "fail" else None


# ---------------------------------------------------------------------------
# known findings

SWEEP_PER_FORM = 2  # quick tier: classes per shard swept for each addressing-mode constructor

KF_IMM_ALIAS = "C08-KF1"  # printed immediate is an alias of the decoded one (C10 root cause)
KF_RVC_REG = "C08-KF2"  # rvc 3-bit register fields keep the low bits of any register
KF_X86_HIGH8 = "C08-KF3"  # x86 ah/ch/dh/bh are always encoded with a REX prefix
KF_MNEMONIC = "C08-KF4"  # copy-pasted mnemonics (C09-KF2's root cause): riscv Ble, thumb Asr
KF_RVC_X0 = "C08-KF5"  # rvc operand x0 where the encoding means another instruction
KF_RVC_BNEQZ = "C08-KF6"  # c.bneqz is not the architectural mnemonic c.bnez
KF_RVF_CMP = "C08-KF7"  # rvf f.fgt.s / f.fge.s encode fle / flt
KF_X86_SHL = "C08-KF8"  # x86 'shl r/m' (shift by one) encodes /5 = shr
KF_X86_W32 = "C08-KF9"  # x86 32-bit not/neg classes set REX.W
KF_X86_RELOC = "C08-KF10"  # x86 relocation offset of [label] ignores prefix bytes
KF_THUMB_HALF = "C08-KF11"  # thumb ldrh/strh print the raw imm5 field / strh shifts twice
KF_ARM_SHIFT0 = "C08-KF12"  # ARM 'lsr 0' / 'asr 0' encode imm5 = 0, which means a shift by 32
KF_THUMB_SPNEG = "C08-KF13"  # thumb sp-relative ldr/str/add/sub: out-of-range operand is or-ed into the opcode

KF_MSP_CGIDX = "C08-KF14"  # msp430 X(R3) source: index word emitted although As=01/R3 is the constant #1
KF_AVR_CALL = "C08-KF15"  # avr 'call label' is encoded as RCALL
KF_MIPS_JR = "C08-KF16"  # mips jr / jalr: 'patters' typo, the encoding is the all-zero word
KF_MIPS_SHIFTV = "C08-KF17"  # mips sllv/srlv/srav print rd, rs, rt; the architecture's order is rd, rt, rs
KF_MIPS_NOP = "C08-KF18"  # mips nop is add $0,$0,$0 instead of the architectural sll $0,$0,0
KF_M68K_SUB = "C08-KF19"  # m68k subb/subw/subl carry the ADD opcode
KF_M68K_IMM32 = "C08-KF20"  # m68k long-sized #imm operands get a 16-bit extension word
KF_M68K_EOR_AN = "C08-KF21"  # m68k 'eor Dn, An' is the CMPM encoding
KF_MIPS_SWR = "C08-KF23"  # mips swr is built with opcode 44 (SDL of MIPS64); SWR is opcode 46
KF_MIPS_LUI_RS = "C08-KF22"  # mips lui takes an rs operand; with rs != 0 the word is reserved (AUI in release 6)

_COPIED = {("riscv", "bge_ins#2"): "ble", ("arm:thumb", "lsr_ins#2"): "asr"}
_X86_HIGH = {"ah": "spl", "ch": "bpl", "dh": "sil", "bh": "dil"}


def _family(target):
    return "riscv" if target.startswith("riscv") else target


def _final(desc):
    try:
        return final_bytes(G.build(desc))[0]
    except Exception:
        return None


def _int_leaf_paths(desc):
    cls = G.class_by_id(desc["target"], desc["cls"])
    return [p for p in G.int_paths(cls) if isinstance(G.get_at(desc["args"], p), int)]


def _bits_dropped(v, d):
    """d is v with bits dropped: the low `lo` bits cleared and the result reduced to `hi` bits, read
    as unsigned or sign-extended (the wrap / truncation / alignment-mask model of KF1)."""
    for lo in range(0, 5):
        t0 = (v >> lo) << lo
        for hi in range(lo + 1, 66):
            t = t0 & ((1 << hi) - 1)
            if d == t or (t >> (hi - 1) and d == t - (1 << hi)):
                return True
    return False


def _imm_alias(desc, data, p, d, widths=(0, 8, 16, 32, 64), strict=False):
    """The decoded immediate d (or d - 2^w: normalised x86 values are reduced modulo the operand
    width) is accepted by ppci in place of a printed operand and yields the identical bytes.
    strict (round-2 targets): the accepted value must also be the printed one with bits dropped --
    two unrelated values that encode alike (#8 and #-1 of a constant generator) are no alias."""
    for path in _int_leaf_paths(desc):
        v = G.get_at(desc["args"], path)
        for w in widths:
            for cand in ((d,) if w == 0 else (d - (1 << w), d + (1 << w))):
                if cand == v:
                    continue
                if strict and not _bits_dropped(v, cand):
                    continue
                nd = dict(desc, args=G.set_at(desc["args"], path, cand))
                if _final(nd) == data:
                    return True
    return False


def _has_rex(data):
    for byte in data[:4]:
        if byte in (0x66, 0xF2, 0xF3):
            continue
        return 0x40 <= byte <= 0x4F
    return False


def _printed_ints(desc):
    return [G.get_at(desc["args"], p) for p in _int_leaf_paths(desc)]


def _truncated(printed, d):
    """Model of silent truncation: the decoded value is a printed operand reduced to w bits
    (as unsigned or sign-extended) and the printed operand does not fit w signed bits."""
    d64 = d - (1 << 64) if d >= (1 << 63) else d
    for p in printed:
        for w in (8, 16, 32):
            if -(1 << (w - 1)) <= p < (1 << (w - 1)):
                continue
            lo = p & ((1 << w) - 1)
            se = lo - (1 << w) if lo >> (w - 1) else lo
            if d in (lo, se) or d64 in (lo, se):
                return True
    return False


def _has_ctor(args, names, value=None):
    for a in args:
        if isinstance(a, list) and a and a[0] == "c":
            if a[1] in names and (value is None or value in a[2]):
                return True
            if _has_ctor(a[2], names, value):
                return True
    return False


_reg_paths = G.reg_paths


def _reg_alias(desc, data, printed, decoded, names):
    """Substituting the decoded register for a printed one gives the identical bytes."""
    cls = G.class_by_id(desc["target"], desc["cls"])
    for path, rcls in _reg_paths(cls, desc["args"]):
        cur = G.get_at(desc["args"], path)
        if names(cur[1]) != printed:
            continue
        for rid in G.reg_ids(rcls)[0]:
            if names(rid) == decoded:
                nd = dict(desc, args=G.set_at(desc["args"], path, ["r", rid]))
                if _final(nd) == data:
                    return True
    return False


def _canon_reg(target):
    fam = L.normaliser_family(target)
    table = {"riscv": L._RV_REGS, "arm": L._ARM_REGS, "arm:thumb": L._ARM_REGS}.get(fam)
    if fam == "x86_64":
        return lambda rid: rid.split("#")[0].lower()
    return lambda rid: table.get(rid.split("#")[0].lower())


def classify(case, msg):
    try:
        ins, text, data = prepare(case)
        dec = L.reference_decode(case["target"], [data])[0]
    except Discard:
        return None
    st, detail, diff = judge(case["target"], text, data, dec)
    if st != "fail" or detail != msg:
        return None
    return explain(case, text, data, diff, dec)


_M68K_LONG_IMM = ("Addl", "Andl", "Cmpl", "Orl", "Subl", "Moveal", "Movel")


def explain_r2(desc, text, data, diff, dec):
    """Round-2 targets: input-feature predicate AND model of the wrong output, per finding."""
    target, cid = desc["target"], desc["cls"]
    if target == "msp430" and diff[0] == "count" and diff[1:] == (1, 2) and len(data) >= 4:
        w = data[0] | (data[1] << 8)
        fmt2 = w & 0xFC00 == 0x1000  # single-operand format: the register is in bits 3..0
        reg, As = (w & 15, (w >> 4) & 3) if fmt2 else ((w >> 8) & 15, (w >> 4) & 3)
        if _has_ctor(desc["args"], ("MemSrcOffset",)) and reg == 3 and As == 1:
            # model: the core takes As=01/R3 as the constant #1 (no index word), so the index word ppci
            # emitted is fetched as the next instruction
            ref = L.norm_ref(target, dec[:1]) if dec else None
            if ref and ("i", 1) in ref[0][1][:1]:
                return KF_MSP_CGIDX
    if target == "avr" and cid == "Call" and diff[0] == "mnemonic" and diff[2:] == ("call", "rcall"):
        return KF_AVR_CALL
    if target == "mips":
        if cid in ("Jr", "Jalr") and diff[0] == "mnemonic" and diff[3] == "sll" and data == b"\0\0\0\0":
            return KF_MIPS_JR
        if cid == "Swr" and diff[0] == "mnemonic" and diff[2:] == ("swr", "sdl") and len(data) == 4 and data[3] >> 2 == 44:
            return KF_MIPS_SWR
        if cid == "Lui" and diff[0] == "mnemonic" and diff[2:] == ("lui", "aui") and len(data) == 4 and (data[3] & 3 or data[2] & 0xE0):
            return KF_MIPS_LUI_RS  # model: the rs field (bits 25..21) is not 0
        if cid == "Nop" and diff[0] == "mnemonic" and diff[2:] == ("sll", "add") and data == bytes.fromhex("20000000"):
            return KF_MIPS_NOP
        if cid in ("Sllv", "Srlv", "Srav") and diff[0] == "operand" and dec:
            a, b = L.norm_ppci(target, text), L.norm_ref(target, dec)
            # model: the fields are right (rs = amount) but printed in field order rd, rs, rt
            if a and b and len(a[0][1]) == 3 and (a[0][1][0], a[0][1][2], a[0][1][1]) == b[0][1]:
                return KF_MIPS_SHIFTV
    if target == "m68k":
        if cid in ("Subb", "Subw", "Subl") and diff[0] == "mnemonic" and diff[2:] == ("sub." + cid[-1], "add." + cid[-1]):
            return KF_M68K_SUB
        if cid in ("Eorb", "Eorw", "Eorl") and diff[0] == "mnemonic" and diff[2:] == ("eor." + cid[-1], "cmpm." + cid[-1]):
            if _has_ctor(desc["args"], ("AddressRegEa",)):
                return KF_M68K_EOR_AN
        if cid in _M68K_LONG_IMM and diff[0] == "length" and diff[2] == diff[1] + 2 and _has_ctor(desc["args"], ("ImmediateEa",)):
            return KF_M68K_IMM32  # model: exactly one 16-bit word is missing from the 32-bit immediate
    return None


def explain(desc, text, data, diff, dec=None):
    target = desc["target"]
    fam = _family(target)
    cid = desc["cls"]
    if target in TARGETS_R2:
        kf = explain_r2(desc, text, data, diff, dec)
        if kf:
            return kf
    if diff[0] == "operand":
        x, y = diff[3], diff[4]
        if x[0] == "i" and y[0] == "i":
            if fam == "arm:thumb" and cid in ("Ldrh", "Strh"):
                # model: the reference shows the byte offset, ppci prints the raw imm5 field
                # (ldrh: field = operand, offset = 2*field; strh: field = 2*operand, offset = 4*operand)
                scale = 2 if cid == "Ldrh" else 4
                if y[1] == ((x[1] * scale // 2) % 32) * 2:
                    return KF_THUMB_HALF
            if fam == "arm" and (x[1], y[1]) == (0, 32) and _has_ctor(desc["args"], ("ShiftLsr", "ShiftAsr"), 0):
                return KF_ARM_SHIFT0
            if _imm_alias(desc, data, x[1], y[1], strict=target in TARGETS_R2) or _truncated(_printed_ints(desc), y[1]):
                return KF_IMM_ALIAS
        if x[0] == "a" and y[0] == "a" and x[1:3] == y[1:3] and isinstance(x[3], int) and isinstance(y[3], int):
            if _imm_alias(desc, data, x[3], y[3], widths=(0, 8, 16, 32), strict=True) or _truncated(_printed_ints(desc), y[3]):
                return KF_IMM_ALIAS
        if x[0] == "m" and y[0] == "m" and x[1:4] == y[1:4]:
            if _imm_alias(desc, data, x[4], y[4], widths=(0, 64)) or _truncated(_printed_ints(desc), y[4]):
                return KF_IMM_ALIAS
        if x[0] == "r" and y[0] == "r":
            if target == "riscv:rvc" and _reg_alias(desc, data, x[1], y[1], _canon_reg(target)):
                return KF_RVC_REG
            if fam == "x86_64" and _X86_HIGH.get(x[1]) == y[1] and _has_rex(data):
                # model (Intel SDM vol.2 2.2.1.2): with any REX prefix register numbers 4..7 of
                # an 8-bit operand mean spl/bpl/sil/dil instead of ah/ch/dh/bh
                return KF_X86_HIGH8
            if fam == "x86_64" and cid in ("Not#2", "Neg#2", "Shr#2", "Shl#2") and x[1] in L._X86_R32 and y[1] == L._X86_R64[L._X86_R32.index(x[1])]:
                return KF_X86_W32
            if _COPIED.get((fam, cid)) == "ble":
                # model: Ble(rn, rm) encodes bge rm, rn -- the printed mnemonic should be ble
                a = L.norm_ppci(target, "ble" + text[3:])
                b = L.norm_ppci(target, text)
                if a and b and a[0][0] == "bge" and a[0][1][:2] == (b[0][1][1], b[0][1][0]):
                    return KF_MNEMONIC
    if fam == "arm:thumb" and cid in ("Ldr1", "Str1", "AddSp", "SubSp") and diff[0] in ("mnemonic", "operand", "count"):
        v = [a for a in desc["args"] if isinstance(a, int) and not isinstance(a, bool)]
        if v and not (0 <= v[-1] <= (1020 if cid in ("Ldr1", "Str1") else 508)):
            return KF_THUMB_SPNEG
    if diff[0] == "mnemonic":
        pm, dm = diff[2], diff[3]
        if _COPIED.get((fam, cid)) == dm and pm == {"asr": "lsr"}.get(dm):
            return KF_MNEMONIC
        if target == "riscv:rvc":
            regs = [a[1] for a in desc["args"] if isinstance(a, list) and a and a[0] == "r"]
            if "x0" in regs and (pm, dm) in (("c.mv", "c.jr"), ("c.jalr", "c.ebreak"), ("c.slli", "c.slli64"), ("c.srli", "c.srli64"), ("c.srai", "c.srai64")):
                return KF_RVC_X0
            if regs[:1] == ["x2"] and (pm, dm) == ("c.lui", "c.addi16sp"):
                return KF_RVC_X0  # C.LUI with rd = x2 is the C.ADDI16SP encoding
            if (pm, dm) == ("c.addi4spn", "c.unimp") and desc["cls"] == "CAddi4spn" and desc["args"][1:] == [0]:
                return KF_RVC_X0  # nzuimm = 0 is reserved: with rd' = x8 it is the all-zero illegal instruction
            if (pm, dm) == ("c.bneqz", "c.bnez"):
                return KF_RVC_BNEQZ
            if (pm, dm) in (("c.slli", "c.slli64"), ("c.srli", "c.srli64"), ("c.srai", "c.srai64")):
                # shift amount 0 (reached through a multiple of 32/64): immediate alias of 0
                return KF_IMM_ALIAS if any(isinstance(a, int) and a % 32 == 0 for a in desc["args"]) else None
        if fam == "riscv" and (pm, dm) in (("flt.s", "fle.s"), ("fle.s", "flt.s")) and cid in ("fgt_ins", "fge_ins"):
            return KF_RVF_CMP
        if fam == "x86_64" and (pm, dm) == ("shl", "shr") and cid.split("#")[0] == "Shl":
            return KF_X86_SHL
    if diff[0] == "count" and fam == "x86_64":
        # [label] operand under an instruction with a mandatory prefix: the relocation is applied
        # one byte early and destroys the SIB byte
        if "RmAbsLabel" in repr(desc["args"]) and data[:1] in (b"\xf2", b"\xf3", b"\x66"):
            return KF_X86_RELOC
    return None


# ---------------------------------------------------------------------------
# exclusions by construction


def _reg_filter_for(target, cid):
    """Keep register operands out of the known alias shapes (KF2: rvc 3-bit fields -> x8..x15
    only, found by probing which registers encode alike; KF3: x86 ah/ch/dh/bh)."""
    cache = {}

    def filt(path, rcls, ids):
        key = (path, rcls)
        if key in cache:
            return cache[key]
        out = list(ids)
        if target == "x86_64" and rcls.__name__ == "Register8":
            out = [i for i in ids if i not in _X86_HIGH]
        elif target == "msp430":
            if len(path) >= 2 and path[-2] == "MemSrcOffset":
                out = [i for i in ids if i != "r3"]  # KF14
        elif target == "riscv:rvc" and cid in ("CMovr", "CJalr", "CJr", "CLui", "CLwsp", "CSlli", "CLi", "CAddi"):
            out = [i for i in ids if i != "x0" and not (cid == "CLui" and i == "x2")]  # KF5
        elif target == "riscv:rvc":
            base = G.base_desc(target, cid, ())
            try:
                ok = base is not None and G.get_at(base["args"], path) is not None
            except Exception:
                ok = False
            if ok:
                groups = {}
                for rid in ids:
                    e = _final(dict(base, args=G.set_at(base["args"], path, ["r", rid])))
                    groups.setdefault(e, []).append(rid)
                if any(len(g) > 1 for e, g in groups.items() if e is not None):
                    out = [i for i in ids if i in ("x8", "x9", "x10", "x11", "x12", "x13", "x14", "x15")]
        cache[key] = out
        return out

    return filt


def _int_filter_for(target, cid):
    fam = _family(target)

    def filt(path):
        if fam == "arm" and len(path) >= 2 and path[-2] in ("ShiftLsr", "ShiftAsr"):
            return lambda v: v != 0  # KF12
        if fam == "arm:thumb" and cid in ("Ldr1", "Str1", "AddSp", "SubSp"):
            return lambda v: 0 <= v <= (1020 if cid in ("Ldr1", "Str1") else 508)  # KF13
        return None

    return filt


def ctor_exclusions(target, cid):
    """{constructor name: finding} of the addressing-mode constructors kept out of the class."""
    if target == "m68k" and cid in _M68K_LONG_IMM:
        return {"ImmediateEa": KF_M68K_IMM32}
    if target == "m68k" and cid in ("Eorb", "Eorw", "Eorl"):
        return {"AddressRegEa": KF_M68K_EOR_AN}
    return {}


def class_exclusion_r2(target, cid):
    cls = G.class_by_id(target, cid)
    if target == "avr" and cid == "Call" and G.mnemonic(cls) == "call" and getattr(cls, "patterns", {}).get("n3") == 0xD:
        return KF_AVR_CALL  # n3 = 0xD is RCALL (1101 kkkk kkkk kkkk)
    if target == "mips":
        if cid in ("Jr", "Jalr") and not getattr(cls, "patterns", None) and getattr(cls, "patters", None):
            return KF_MIPS_JR
        if cid in ("Sllv", "Srlv", "Srav") and [fa._name for fa in cls.syntax.formal_arguments] == ["rd", "rs", "rt"]:
            return KF_MIPS_SHIFTV
        if cid == "Nop" and _final({"target": target, "cls": cid, "args": []}) == bytes.fromhex("20000000"):
            return KF_MIPS_NOP
        if cid == "Swr" and getattr(cls, "patterns", {}).get("opcode") == 44:
            return KF_MIPS_SWR
        if cid == "Lui" and [fa._name for fa in cls.syntax.formal_arguments] == ["rt", "rs", "imm"]:
            if "r0" not in G.reg_ids(cls.syntax.formal_arguments[1]._cls)[0]:
                return KF_MIPS_LUI_RS  # no instance with rs = 0 exists
    if target == "m68k" and cid in ("Subb", "Subw", "Subl") and getattr(cls, "patterns", {}).get("opcode") == 0b1101:
        return KF_M68K_SUB
    return None


def class_exclusion(target, cid):
    if target in TARGETS_R2:
        return class_exclusion_r2(target, cid)
    fam = _family(target)
    if (fam, cid) in _COPIED:
        try:
            cls = G.class_by_id(target, cid)
            if G.mnemonic(cls) != _COPIED[(fam, cid)]:
                return KF_MNEMONIC
        except G.BuildError:
            pass
    if target == "riscv:rvc" and cid == "CBnez" and G.syntax_literals(G.class_by_id(target, cid))[:3] == ("c", ".", "bneqz"):
        return KF_RVC_BNEQZ
    cls = G.class_by_id(target, cid)
    if fam == "riscv" and (cid, getattr(cls, "func3", None)) in (("fgt_ins", 0), ("fge_ins", 1)):
        return KF_RVF_CMP
    if fam == "x86_64" and cid.split("#")[0] == "Shl" and getattr(cls, "reg", None) == 5:
        return KF_X86_SHL
    if fam == "x86_64" and cid in ("Not#2", "Neg#2", "Shr#2", "Shl#2"):
        if "RmBase" in [c.__name__ for c in cls.__mro__]:
            return KF_X86_W32
    if fam == "arm:thumb" and cid in ("Ldrh", "Strh"):
        return KF_THUMB_HALF
    return None


def _worker(arg):
    target, k, nchunks, seed, per_target = arg
    stats = Stats()
    L.CRASHES.clear()  # counts inherited from the parent (witness replays) are not this shard's
    fails = []
    open_ids = open_finding_ids(PID)
    allc = [cid for cid, cls in G.instruction_classes(target)]
    cids = allc[k::nchunks]
    n = max(6, min(60 if per_target <= 5000 else 5000, per_target // max(1, len(allc))))
    cases = []
    seen = set()
    for cid in cids:
        cls = G.class_by_id(target, cid)
        if G.is_data_pseudo(cls) or cls.__module__.endswith("data_instructions"):
            continue
        if not G.supported(target, cid):
            stats.discard("unsupported operand kind")
            continue

        kf = class_exclusion(target, cid)
        if kf and kf in open_ids:
            stats.excluded[kf] += 1
            continue

        def prop(args, cid=cid):
            desc = {"target": target, "cls": cid, "args": args}
            ins, text, data = prepare(desc)
            key = G.key_of(desc)
            if key not in seen:
                seen.add(key)
                cases.append((desc, text, data))
            return None

        xc = {c: k for c, k in ctor_exclusions(target, cid).items() if k in open_ids}
        for k_ in xc.values():
            stats.excluded[k_] += 1
        strat = G.args_strategy(
            target, cid, canonical=True, reg_filter=_reg_filter_for(target, cid), int_filter=_int_filter_for(target, cid),
            exclude_ctors=frozenset(xc),
        )
        hyp_search(strat, prop, n, subseed(seed, cid), stats)
    # deterministic register sweep (every register in every register field, one field at a time,
    # per addressing-mode constructor; base x index product for two-register memory operands).
    # quick: every class for its top-level register fields, and for each constructor form the
    # first SWEEP_PER_FORM classes of this shard that use it; thorough: every class, every form.
    nrandom = len(cases)
    form_count = collections.Counter()
    for cid in cids:
        cls = G.class_by_id(target, cid)
        if G.is_data_pseudo(cls) or cls.__module__.endswith("data_instructions") or not G.supported(target, cid):
            continue
        kf = class_exclusion(target, cid)
        if kf and kf in open_ids:
            continue
        if per_target <= 5000 and target in ("riscv:rvc", "riscv:rvf") and cls.__module__ == "ppci.arch.riscv.instructions":
            continue  # quick: the base ISA's classes are swept once, under target "riscv"
        if per_target <= 5000:
            alts = set()
            for i, sub in G.ctor_alternatives(cls):
                if form_count[sub.__name__] < SWEEP_PER_FORM:
                    alts.add(sub.__name__)
            for n_ in alts:
                form_count[n_] += 1
        else:
            alts = None
        xc = {c: k for c, k in ctor_exclusions(target, cid).items() if k in open_ids}
        descs = G.sweep_descs(target, cid, reg_filter=_reg_filter_for(target, cid), alternatives=alts)
        if target in TARGETS_R2:
            # every value of the small int domains (msp430 constant-generator sources #-1/0/1/2/4/8)
            descs = list(descs) + list(G.small_int_descs(target, cid, int_filter=_int_filter_for(target, cid)))
        for desc in descs:
            key = G.key_of(desc)
            if key in seen:
                continue
            if xc and _has_ctor(desc["args"], tuple(xc)):
                continue
            try:
                ins, text, data = prepare(desc)
            except Discard:
                stats.discard("sweep: not encodable")
                continue
            seen.add(key)
            cases.append((desc, text, data))
    stats.hist["%s/register sweep instances" % target] += len(cases) - nrandom
    sources = []
    decoded = L.reference_decode(target, [c[2] for c in cases], sources=sources) if cases else []
    for k_, v_ in L.CRASHES.items():
        stats.hist["reference tool: %s" % k_] += v_
    L.CRASHES.clear()
    per_class = collections.Counter()
    for (desc, text, data), dec, src in zip(cases, decoded, sources):
        st, detail, diff = judge(target, text, data, dec)
        if src == "own" and dec is not None:
            stats.hist["%s/decoded by the own fallback decoder" % target] += 1
        elif target == "m68k" and dec is not None:
            # cross-check of vf/m68kdec.py on everything llvm-mc decodes as well
            stats.hist["m68k/own decoder %s" % _m68k_crosscheck(data, dec)] += 1
        nt = G.has_operands(desc)
        # one written-out sample per target (first shard), so that the six evidence samples span targets
        want = st == "ok" and nt and k == 0 and not stats.samples and len(desc["args"]) >= 2
        stats.case(G.key_of(desc), nt and st != "unverifiable",
                   {"case": desc, "text": text, "bytes": data.hex(), "decoded": "; ".join(t.replace("\t", " ") for t, _ in dec)} if want else None,
                   classes=("%s/%s" % (target, st if st != "unverifiable" else "unverifiable:" + detail),))
        if st == "fail":
            kf = explain(desc, text, data, diff, dec)
            if kf and kf in open_ids:
                stats.known[kf] += 1
            elif per_class[desc["cls"]] < 2:
                per_class[desc["cls"]] += 1
                fails.append((desc, detail))
    return stats, fails


def run(ctx):
    per_target = ctx.scale(2000, 200000)
    G.configure(thorough=not ctx.quick)
    G.preload()
    tasks = []
    for target in TARGETS:
        nchunks = 4 if target == "x86_64" else (1 if target == "mips" else 2)
        for k in range(nchunks):
            tasks.append((target, k, nchunks, subseed(ctx.seed, PID, target, k), per_target))
    # x86-64 first (longest shards), then the round-2 targets (short), then the rest
    tasks.sort(key=lambda t: 0 if t[0] == "x86_64" else (1 if t[0] in TARGETS_R2 else 2))
    ctx.pmap(_worker, tasks)
    ctx.extra["targets_covered"] = list(TARGETS)
    ctx.extra["targets_not_covered"] = ["or1k", "xtensa", "microblaze", "stm8", "mcs6500 (no reference decoder)"]
    # unverifiable fraction per target (instances the decoders / normalisers could not judge)
    frac = {}
    for target in TARGETS:
        tot = unv = 0
        for k, v in ctx.stats.hist.items():
            if k.startswith(target + "/") and k.split("/", 1)[1].split(":")[0] in ("ok", "fail", "unverifiable"):
                tot += v
                if k.split("/", 1)[1].startswith("unverifiable"):
                    unv += v
        if tot:
            frac[target] = {"instances": tot, "unverifiable": unv, "fraction": round(unv / tot, 4)}
    ctx.extra["unverifiable_per_target"] = frac
