"""C08 - Instruction encodings agree with the architecture reference."""

import collections

from .. import isagen as G
from .. import llvmref as L
from ..core import Discard, Stats, hyp_search, subseed

PID = "C08"
TARGETS = ("riscv", "riscv:rvc", "riscv:rvf", "x86_64", "arm", "arm:thumb")
RULE = (
    "for riscv, riscv:rvc, riscv:rvf, x86_64, arm and arm:thumb every instruction class with a syntax (data "
    "directives db/dw/dd/... excluded) is instantiated by Hypothesis from syntax.formal_arguments (all "
    "registers of the declared class, ints from the probed accepted set, labels, all constructor "
    "alternatives); relocations of label operands are applied with a synthetic in-range symbol value; the "
    "emitted bytes are decoded by the reference disassembler (llvm-mc 14 for RISC-V/ARM/Thumb, GNU objdump "
    "for x86-64) in one batch; decoding must consume exactly len(encode()) bytes and the hand-written "
    "normalisation of the decoded text must equal the normalisation of str(instance): same mnemonic class, "
    "same registers in the same positions, same immediates/displacements (labels match any value). "
    "non-trivial = at least one register/immediate operand; distinct = (target, class, operand description)"
)
ASSUMPTIONS = [
    "llvm-mc 14 / GNU objdump decode the covered ISAs correctly",
    "the normalisers in vf/llvmref.py (written from the ISA manuals) map both syntaxes to the same canonical "
    "form; text they cannot interpret, operand-count differences between syntax variants and undecodable byte "
    "strings are counted as unverifiable, never as violations",
    "an instance ppci cannot encode or print is outside the domain",
    "operand sizes of x86 memory operands are not compared (ppci does not print them)",
]
TRUSTED = ["CPython", "Hypothesis", "llvm-mc 14", "GNU objdump", "normalisers in vf/llvmref.py", "vf/isagen.py"]
REGISTER = False
TECHNIQUE = "generated instruction instances decoded by llvm-mc / objdump and compared through per-ISA normalisers"
LEVEL_TEXT = (
    "Exploration: every class of the covered ISAs is instantiated with all registers and boundary/random "
    "immediates and each encoding is decoded by an independent disassembler; differential testing against the "
    "reference is the only practical oracle for bit-level encodings, and the operand space is sampled with "
    "boundary bias because it cannot be enumerated. or1k, xtensa, microblaze, stm8, mcs6500 have no reference "
    "decoder here; msp430, avr, mips, m68k normalisers were not built."
)


# ---------------------------------------------------------------------------


def final_bytes(ins, base=0x10000):
    """Encoding with label relocations applied against a symbol 64 bytes after the site
    (ARM adr gets its add/sub opcode bits only from the relocation).  -> (bytes, relocated?)"""
    data, relocs = G.emit_direct_parts(ins)
    if not relocs:
        return data, False
    buf = bytearray(data)
    done = False
    for r in relocs:
        try:
            size = r.size()
            piece = bytearray(buf[r.offset : r.offset + size])
            if len(piece) != size:
                continue
            new = r.apply(base + 64, piece, base + r.offset)
            if new is not None and len(new) == size:
                buf[r.offset : r.offset + size] = bytes(new)
                done = True
        except Exception:
            pass
    return bytes(buf), done


def prepare(desc):
    """-> (text, bytes) or raises Discard."""
    try:
        ins = G.build(desc)
    except G.BuildError as e:
        raise Discard("bad description: %s" % e)
    cls = type(ins)
    if G.is_data_pseudo(cls) or cls.__module__.endswith("data_instructions"):
        raise Discard("data directive")
    try:
        text = str(ins)
        data, _ = final_bytes(ins)
    except Exception:
        raise Discard("not encodable")
    if not data:
        raise Discard("empty encoding")
    return text, data


def judge(target, text, data, decoded):
    """-> ("ok"|"unverifiable"|"fail", detail)"""
    if decoded is None:
        return "unverifiable", "undecodable"
    a = L.norm_ppci(target, text)
    if a is None:
        return "unverifiable", "ppci text not interpreted"
    b = L.norm_ref(target, decoded)
    if b is None:
        return "unverifiable", "reference text not interpreted"
    diff = L.compare(a, b)
    if diff is None:
        return "ok", None
    if diff == "shape":
        return "unverifiable", "operand shape"
    return "fail", "%s %r encodes to %s, which the reference decodes as %r: %s" % (
        target,
        text,
        data.hex(),
        "; ".join(t.replace("\t", " ") for t, _ in decoded),
        diff,
    )


def evaluate(desc):
    text, data = prepare(desc)
    dec = L.reference_decode(desc["target"], [data])[0]
    return judge(desc["target"], text, data, dec)


def replay(case):
    st, detail = evaluate(case)
    return detail if st == "fail" else None


def classify(case, msg):
    return None


def _worker(arg):
    target, k, nchunks, seed, per_target = arg
    stats = Stats()
    fails = []
    allc = [cid for cid, cls in G.instruction_classes(target)]
    cids = allc[k::nchunks]
    n = max(6, min(60 if per_target <= 5000 else 5000, per_target // max(1, len(allc))))
    cases = []
    seen = set()
    for cid in cids:
        cls = G.class_by_id(target, cid)
        if G.is_data_pseudo(cls) or cls.__module__.endswith("data_instructions"):
            continue
        if not G.supported(target, cid):
            stats.discard("unsupported operand kind")
            continue

        def prop(args, cid=cid):
            desc = {"target": target, "cls": cid, "args": args}
            text, data = prepare(desc)
            key = G.key_of(desc)
            if key not in seen:
                seen.add(key)
                cases.append((desc, text, data))
            return None

        hyp_search(G.args_strategy(target, cid, canonical=True), prop, n, subseed(seed, cid), stats)
    decoded = L.reference_decode(target, [c[2] for c in cases]) if cases else []
    per_class = collections.Counter()
    for (desc, text, data), dec in zip(cases, decoded):
        st, detail = judge(target, text, data, dec)
        nt = G.has_operands(desc)
        stats.case(G.key_of(desc), nt and st != "unverifiable", {"case": desc, "text": text, "bytes": data.hex()} if st == "ok" and nt else None,
                   classes=("%s/%s" % (target, st if st != "unverifiable" else "unverifiable:" + detail),))
        if st == "fail":
            kf = classify(desc, detail)
            if kf:
                stats.known[kf] += 1
            elif per_class[desc["cls"]] < 2:
                per_class[desc["cls"]] += 1
                fails.append((desc, detail))
    return stats, fails


def run(ctx):
    per_target = ctx.scale(3000, 200000)
    G.preload()
    tasks = []
    for target in TARGETS:
        nchunks = 4 if target == "x86_64" else 2
        for k in range(nchunks):
            tasks.append((target, k, nchunks, subseed(ctx.seed, PID, target, k), per_target))
    tasks.sort(key=lambda t: 0 if t[0] == "x86_64" else 1)
    ctx.pmap(_worker, tasks)
    ctx.extra["targets_covered"] = list(TARGETS)
    ctx.extra["targets_not_covered"] = ["msp430", "avr", "mips", "m68k (normalisers not built)", "or1k", "xtensa", "microblaze", "stm8", "mcs6500 (no reference decoder)"]
