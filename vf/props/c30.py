"""C30 - compilation is deterministic.

case = {"units": [unit, ...] (five when generated), "stages": [stage, ...] (optional: report only divergences starting at these stages)}
unit = {"kind": "c", "src": C text, "target", "level", "opt"} | {"kind": "ir", "desc": genir description, "target", "level", "opt"}

The units are compiled in six worker processes (vf/c30_worker.py, started with an explicit environment) that differ in
PYTHONHASHSEED, address-space randomisation and in the order of the units (so that each unit is compiled in a fresh
process in some configurations and after the other, unrelated, units in others).  Oracle, per unit:
ObjectFile.save() text and the bytes of the linked image are identical in all processes.  When they are not, the
first stage at which two processes diverge (IR text after optimisation, selected instructions before register
allocation, instructions after register allocation, object, image) is reported for every pair, so that order
dependences in different parts of the compiler are told apart.
"""

import json
import os
import re
import shutil
import subprocess
import tempfile

from hypothesis import strategies as st

from .. import cgstage, gencc, genir
from ..core import REPO, VERIF, Discard, HarnessError, Stats, hyp_search, subseed
from . import c29

PID = "C30"
RULE = (
    "Hypothesis draws 5 units, each = (vf/gencc C program [65%] | vf/genir module restricted as in C29 [35%]) x target "
    "(x86_64, arm, arm:thumb, riscv, riscv:rvc) x level (0,1,2,s) x opt (speed,size). "
    "The 5 units are compiled in 6 separately started /venv/bin/python processes: PYTHONHASHSEED 0 / 0 / 1 / 0 / 2 / random, "
    "without / with / without / without / with / with address-space randomisation (setarch -R), the 4th and 5th in reverse "
    "unit order (unit 1 is compiled first in a fresh process in four configurations and after four unrelated modules in two; "
    "unit 5 the other way round).  Each process reports per unit the IR text after optimize, the instruction list after selection and after "
    "register allocation (wrapped CodeGenerator methods), ObjectFile.save() text and the image bytes of a final link with a "
    "fixed layout.  Failure = object text or image bytes differ between two processes (or one process raises and another "
    "does not); every differing pair is attributed to its first diverging stage (names of IR values / virtual registers "
    "canonicalised).  Units no configuration can compile are left out (counted).  non-trivial = a unit compiled and a function "
    "needed >= 1 spill or uses >= 3 callee-saved registers or the unit has >= 40 selected instructions; "
    "distinct = the unit"
)
ASSUMPTIONS = [
    "setarch -R disables address-space randomisation for the worker (CPython object addresses feed id()-based hashes)",
    "PYTHONHASHSEED=random and ASLR make a failing case probabilistic: a replay runs the same six configurations again",
    "a difference in IR text or virtual-register names that does not reach the object file is not a violation (counted)",
]
TRUSTED = ["CPython", "Hypothesis", "setarch", "vf/gencc.py", "vf/genir.py", "vf/cgstage.py (stage observation by wrapping ppci functions)"]
REGISTER = True
TECHNIQUE = "metamorphic: same unit compiled in six processes differing in hash seed, ASLR and prior compilations; object text and image bytes compared, first diverging compiler stage reported"
LEVEL_TEXT = (
    "Exploration with a metamorphic oracle: each generated unit is compiled in six separately started processes that "
    "vary exactly the knobs the statement names (hash randomisation, process/address layout, earlier compilations) and "
    "all serialised objects and linked images must be byte-identical; divergences are located to the compiler stage "
    "where they start.  Order dependence is a property of runs, not of one run, so multi-process comparison of generated "
    "inputs is the fitting level; no bound is closed."
)

STAGES = ["ir", "selected", "allocated", "object", "image"]
CONFIGS = [
    {"name": "seed0", "hashseed": "0", "aslr": False, "reverse": False},
    {"name": "seed0+aslr", "hashseed": "0", "aslr": True, "reverse": False},
    {"name": "seed1", "hashseed": "1", "aslr": False, "reverse": False},
    {"name": "seed0+reversed", "hashseed": "0", "aslr": False, "reverse": True},
    {"name": "seed2+aslr+reversed", "hashseed": "2", "aslr": True, "reverse": True},
    {"name": "random+aslr", "hashseed": "random", "aslr": True, "reverse": False},
]
TIMEOUT_S = 900
UNITS_PER_CASE = 5  # process start-up (imports + construction of all architectures: 4-5 CPU-s) dominates: amortised over five units
UNITS_PER_CASE_THOROUGH = 12

# open findings: first diverging stage -> id (all five targets share the target-independent code generator)
FINDINGS = {"selected": "C30-KF1", "allocated": "C30-KF2"}

_SETARCH = None


def setarch_prefix():
    global _SETARCH
    if _SETARCH is None:
        arch = os.uname().machine
        try:
            ok = subprocess.run(["setarch", arch, "-R", "true"], capture_output=True).returncode == 0
        except OSError:
            ok = False
        _SETARCH = ["setarch", arch, "-R"] if ok else []
    return _SETARCH


_PYC = None


def pyc_dir():
    """bytecode cache for the worker processes (scratch directory; the check itself runs with
    PYTHONDONTWRITEBYTECODE, which would make every worker recompile ppci: about 3 CPU-seconds each)"""
    global _PYC
    if _PYC is None or not os.path.isdir(_PYC):
        _PYC = os.environ.get("C30_PYC") or tempfile.mkdtemp(prefix="vf-C30-pyc-")
    return _PYC


def cleanup():
    global _PYC
    if _PYC and not os.environ.get("C30_PYC"):
        shutil.rmtree(_PYC, ignore_errors=True)
    _PYC = None


def run_config(cfg, case):
    """-> list of result dicts of the worker, in the order of case['units']"""
    env = {k: v for k, v in os.environ.items() if k not in ("PYTHONHASHSEED", "PYTHONDONTWRITEBYTECODE")}
    env["PYTHONHASHSEED"] = cfg["hashseed"]
    env["PYTHONPATH"] = VERIF
    env["VERIF_REPO"] = REPO
    env["PYTHONPYCACHEPREFIX"] = pyc_dir()
    cmd = ["/venv/bin/python", "-m", "vf.c30_worker"]
    if not cfg["aslr"]:
        pre = setarch_prefix()
        if not pre:
            raise Discard("setarch -R unavailable")
        cmd = pre + cmd
        env["C30_ASLR"] = "0"
    else:
        # the check itself runs under setarch -R and children inherit the personality: the worker switches
        # randomisation back on (personality(2) + re-exec, see vf/c30_worker.py)
        env["C30_ASLR"] = "1"
    units = list(case["units"])
    job = {"units": units[::-1] if cfg["reverse"] else units}
    try:
        p = subprocess.run(cmd, input=json.dumps(job), capture_output=True, text=True, env=env, cwd=VERIF, timeout=TIMEOUT_S)
    except subprocess.TimeoutExpired:
        raise Discard("worker timeout")
    if p.returncode != 0:
        raise HarnessError("c30 worker failed (%s): %s" % (cfg["name"], p.stderr[-1500:]))
    out = json.loads(p.stdout.strip().splitlines()[-1])
    if out.get("aslr") is not None and bool(out["aslr"]) != cfg["aslr"]:
        raise Discard("could not %s address-space randomisation in the worker" % ("enable" if cfg["aslr"] else "disable"))
    res = out["results"]
    return res[::-1] if cfg["reverse"] else res


_IDENT = re.compile(r"[A-Za-z_][A-Za-z_0-9]*")
_VREG = re.compile(r"vreg(\d+)\w*")
KEEP = {"i8", "u8", "i16", "u16", "i32", "u32", "i64", "u64", "f32", "f64", "ptr", "blob", "module", "global", "local", "external",
        "function", "procedure", "variable", "store", "load", "jmp", "cjmp", "return", "exit", "phi", "cast", "alloc", "call",
        "literal", "undefined", "volatile", "rol", "ror", "memcpy", "align", "in", "to"}


def canonical_ir(text):
    names = {}

    def sub(m):
        w = m.group(0)
        if w in KEEP:
            return w
        if w not in names:
            names[w] = "n%d" % len(names)
        return names[w]

    return _IDENT.sub(sub, text)


def canonical(stage, text):
    if stage == "ir":
        return canonical_ir(text)
    if stage in ("selected", "allocated"):
        return _VREG.sub(lambda m: "vreg" + m.group(1), text)
    return text


def first_difference(a, b):
    la, lb = a.splitlines(), b.splitlines()
    for i, (x, y) in enumerate(zip(la, lb)):
        if x != y:
            return "line %d: %s | %s" % (i + 1, x.strip()[:90], y.strip()[:90])
    return "length %d vs %d lines" % (len(la), len(lb))


def unit_head(u):
    return "%s -O%s opt=%s (%s unit)" % (u["target"], u["level"], u["opt"], u["kind"])


def compare_unit(u, results, only):
    """results: one worker result per configuration -> (stages [list], detail lines, facts)"""
    errs = [r.get("error") for r in results]
    facts = {"compiled": not any(errs), "spills": 0, "callee_saved": 0, "size": 0, "ir_differs": False, "error": None}
    if all(errs):
        facts["error"] = str(errs[0])[:60]
        return [], [], facts
    if any(errs):
        i = [k for k, e in enumerate(errs) if e][0]
        j = [k for k, e in enumerate(errs) if not e][0]
        if only and "outcome" not in only:
            return [], [], facts
        return ["outcome"], ["outcome: %s raises %s, %s compiles" % (CONFIGS[i]["name"], errs[i][:200], CONFIGS[j]["name"])], facts
    r0 = results[0]
    facts["spills"] = r0.get("spills", 0)
    facts["callee_saved"] = r0.get("callee_saved", 0)
    facts["size"] = r0["selected"].count("\n")
    canon = [{s: canonical(s, r[s]) for s in STAGES} for r in results]
    facts["ir_differs"] = any(c["ir"] != canon[0]["ir"] or c["selected"] != canon[0]["selected"] for c in canon) or any(
        r["ir"] != r0["ir"] for r in results)
    found = {}  # stage -> (i, j)
    for i in range(len(results)):
        for j in range(i + 1, len(results)):
            if canon[i]["object"] == canon[j]["object"] and canon[i]["image"] == canon[j]["image"]:
                continue
            for s in STAGES:
                if canon[i][s] != canon[j][s]:
                    found.setdefault(s, (i, j))
                    break
    if only:
        found = {s: p for s, p in found.items() if s in only}
    stages = [s for s in STAGES if s in found]
    lines = []
    for s in stages:
        i, j = found[s]
        lines.append("%s: %s vs %s: %s" % (s, CONFIGS[i]["name"], CONFIGS[j]["name"], first_difference(canon[i][s], canon[j][s])))
    return stages, lines, facts


def run_case(case):
    """-> (message | None, [facts per unit])"""
    only = case.get("stages")
    per_cfg = [run_config(cfg, case) for cfg in CONFIGS]
    heads, details, allfacts = [], [], []
    for k, u in enumerate(case["units"]):
        stages, lines, facts = compare_unit(u, [rc[k] for rc in per_cfg], only)
        facts["stages"] = stages
        allfacts.append(facts)
        if stages:
            heads.append("unit %d %s: first diverging stages: %s" % (k + 1, unit_head(u), ",".join(stages)))
            details += ["unit %d %s" % (k + 1, l) for l in lines]
    if not heads:
        return None, allfacts
    return "C30 " + "; ".join(heads) + "\n" + "\n".join(details), allfacts


def replay(case):
    try:
        return run_case(case)[0]
    finally:
        cleanup()


_HEAD = re.compile(r"unit \d+ (\S+) -O\S+ opt=\S+ \(\w+ unit\): first diverging stages: ([\w,]+)")


def classify(case, msg):
    first = msg.split("\n", 1)[0]
    if not first.startswith("C30 "):
        return None
    found = _HEAD.findall(first)
    if not found or len(found) != first.count("first diverging stages"):
        return None
    ids = []
    for target, stages in found:
        for s in stages.split(","):
            ids.append(FINDINGS.get(s))
    if ids and all(ids) and all(i in c29.open_finding_ids(PID) for i in ids):
        return sorted(ids)[0]
    return None


# ---------------------------------------------------------------------------
# generation


def unit_strategy(small=False):
    @st.composite
    def _unit(draw):
        target = draw(st.sampled_from(cgstage.TARGETS))
        level = draw(st.sampled_from(cgstage.LEVELS))
        opt = draw(st.sampled_from(cgstage.OPTS))
        if small or draw(st.integers(0, 99)) < 65:
            floats = target not in c29.ARM and draw(st.integers(0, 99)) < c29.FLOAT_PCT[target] // 2
            opts = gencc.Options(floats=floats, max_funcs=1 if small else 2, max_stmts=3 if small else 7, structs=not small)
            p = draw(gencc.programs(opts))
            return {"kind": "c", "src": cgstage.adapt_c(p["src"], target), "target": target, "level": level, "opt": opt}
        import collections

        c = c29.ir_case(draw, target, level, opt, collections.Counter())
        u = {"kind": "ir", "desc": c["module"], "target": target, "level": level, "opt": opt}
        if c.get("unrepairable"):
            u["unrepairable"] = True
        return u

    return _unit()


@st.composite
def case_strategy(draw, k=UNITS_PER_CASE):
    return {"units": [draw(unit_strategy()) for _ in range(k)]}


_SIMPLEST = []


def simplest_case(k=UNITS_PER_CASE):
    """Hypothesis starts every run with the minimal example of the strategy; it is the same in all 16 workers and is
    evaluated by the first one only"""
    if not _SIMPLEST:
        from hypothesis import HealthCheck, Phase, given, seed, settings

        got = []

        @seed(0)
        @settings(max_examples=1, database=None, deadline=None, suppress_health_check=list(HealthCheck), phases=[Phase.generate])
        @given(case_strategy(k))
        def t(case):
            got.append(case)

        t()
        _SIMPLEST.append(got[0] if got else None)
    return _SIMPLEST[0]


def _worker(arg):
    seed, n, k = arg
    stats = Stats()

    def prop(case):
        if case == simplest_case(k):
            raise Discard("minimal first example of the strategy (five copies of the minimal unit)")
        case = {"units": [u for u in case["units"] if not u.get("unrepairable")]}
        if not case["units"]:
            raise Discard("generated modules need a class no front end emits")
        msg, allfacts = run_case(case)
        for u, facts in zip(case["units"], allfacts):
            if facts["error"]:
                stats.discard("the target does not compile the unit: " + facts["error"][:40])
                continue
            nt = facts["compiled"] and (facts["spills"] >= 1 or facts["callee_saved"] >= 3 or facts["size"] >= 40)
            cls = ["%s %s" % (u["target"], u["kind"]), "level " + u["level"], "opt " + u["opt"],
                   "spills>=1" if facts["spills"] else "no spill", "callee-saved>=3" if facts["callee_saved"] >= 3 else "callee-saved<3"]
            if facts["stages"]:
                cls += ["diverges at " + s for s in facts["stages"]]
            else:
                cls.append("identical in all %d processes" % len(CONFIGS))
                if facts["ir_differs"]:
                    cls.append("IR/vreg names differ, object identical")
            stats.case(json.dumps(u, sort_keys=True)[:8000] if nt else None, nt,
                       {"unit": dict(u, **({"desc": u["desc"]["functions"][-1]} if u["kind"] == "ir" else {})),
                        "spills": facts["spills"], "selected_instructions": facts["size"], "diverges_at": facts["stages"]} if nt else None, classes=cls)
        return msg

    try:
        fails = hyp_search(case_strategy(k), prop, n, seed, stats, classify=classify, shrink=False, skip_first=1)
    finally:
        cleanup()
    return stats, fails


def run(ctx):
    if not setarch_prefix():
        ctx.stats.notes.append("setarch -R unavailable: configurations without ASLR cannot be run; nothing checked")
        return
    os.environ["C30_PYC"] = os.path.join(ctx.tmpdir(), "pyc")
    os.makedirs(os.environ["C30_PYC"], exist_ok=True)
    n = ctx.scale(32, 320)
    k = ctx.scale(UNITS_PER_CASE, UNITS_PER_CASE_THOROUGH)
    try:
        ctx.pmap(_worker, [(subseed(ctx.seed, PID, w), n // 16, k) for w in range(16)])
    finally:
        del os.environ["C30_PYC"]
    ctx.extra["configurations"] = CONFIGS
    ctx.extra["targets_covered"] = sorted({k.split(" ")[0] for k in ctx.stats.hist if isinstance(k, str) and k.split(" ")[0] in cgstage.TARGETS})
