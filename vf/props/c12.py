"""C12 - the linker places sections correctly and preserves their contents."""

import collections
import traceback

from .. import linkgen
from ..core import Discard, Stats, hyp_search, subseed
from ..linkgen import DEFAULT_SECTION_ALIGNMENT, layout_model, merge_model

PID = "C12"
RULE = (
    "Hypothesis-generated link cases (vf/linkgen.py): 1-4 objects for arm/x86_64/riscv/xtensa/microblaze/example with "
    "1-4 section names shared between objects, sizes 0..48 (thorough 0..4096), alignments {1,2,4,8,16,64}, patterned/random bytes, "
    "global/local/undefined symbols with sparse ids, data-word relocations, optional entry; layouts of 1-3 memories "
    "(unaligned locations, SECTION/SECTIONDATA/ALIGN/DEFINESYMBOL/ENTRY, as Layout objects and as layout-script text) whose sizes "
    "are put exactly on, one above and one below the size the reference model computes; faults injected on purpose "
    "(undefined global, duplicate global in two objects, DEFINESYMBOL colliding with a global, undefined ENTRY, overfull memory); "
    "modes final / partial / partial-then-final. non-trivial = (two objects contribute to one section with different alignments) "
    "or (layout with >= 2 memories); distinct = hash of the whole case"
)
ASSUMPTIONS = [
    "each section name appears at most once as SECTION and once as SECTIONDATA in a layout, DEFINESYMBOL names are distinct "
    "(a section listed twice has no single 'declared memory region')",
    "alignments are powers of two >= 1; relocation sites are the aligned, disjoint data words ppci's assembler would emit",
    "an output section may be aligned more strictly than its inputs require (ObjectFile.Section defaults to 4): only the "
    "input sections' own alignments are demanded",
    "a link that raises for a reason other than the three stated ones is 'rejected_other' (types listed in the histogram); "
    "only an error that *names* one of the three stated conditions while the reference model refutes it is reported",
]
TRUSTED = ["CPython", "Hypothesis", "reference model merge_model/layout_model in vf/linkgen.py", "checker in vf/props/c12.py"]
TECHNIQUE = "Hypothesis object sets + layouts against a reference placement model and validity predicates"
LEVEL_TEXT = (
    "Exploration: each generated link is judged by placement predicates taken from the statement (bytes preserved outside "
    "relocation sites, per-input alignment, containment in the declared memory, no overlap, Image.data consistency, symbol = "
    "section address + shifted offset) and by an independent append-with-padding model that decides which inputs must be "
    "rejected; memory sizes sit on the model's boundary so that off-by-one errors in padding or in the overflow test show."
)
REGISTER = True


# ---------------------------------------------------------------------------
# expectations derived from the case alone


def _global_defs(objects):
    d = collections.Counter()
    for o in objects:
        for y in o["symbols"]:
            if y["binding"] == "global" and y["value"] is not None:
                d[y["name"]] += 1
    return d


def _global_refs(objects):
    r = set()
    for o in objects:
        for y in o["symbols"]:
            if y["binding"] == "global" and y["value"] is None:
                r.add(y["name"])
    return r


def expectations(objects, ld, partial):
    """Which stated error conditions does this input contain?"""
    defs = _global_defs(objects)
    lsyms = collections.Counter()
    refs = _global_refs(objects)
    if ld:
        for m in ld["memories"]:
            for kind, arg in m["inputs"]:
                if kind == "symbol":
                    lsyms[arg] += 1
        if ld.get("entry"):
            refs.add(ld["entry"])
    alld = defs + lsyms
    exp = {"dup": sorted(n for n, c in alld.items() if c > 1), "undef": [], "overfull_min": [], "overfull_ppci": []}
    if not partial:
        exp["undef"] = sorted(n for n in refs if n not in alld)
        if ld:
            _, info = merge_model(objects)
            tight = layout_model(info, ld, 1)
            loose = layout_model(info, ld, DEFAULT_SECTION_ALIGNMENT)
            for i, m in enumerate(ld["memories"]):
                if tight[i]["image_size"] > m["size"]:
                    exp["overfull_min"].append(i)
                if loose[i]["image_size"] > m["size"]:
                    exp["overfull_ppci"].append(i)
    return exp


def _innermost(tb):
    fr = [f for f in traceback.extract_tb(tb) if "/ppci/" in f.filename]
    if not fr:
        return "?"
    return "%s:%s" % (fr[-1].filename.split("/ppci/")[-1], fr[-1].name)


# ---------------------------------------------------------------------------
# predicates on a successful link


def _masked_equal(inp, outp, masks):
    if len(inp) != len(outp):
        return False
    if inp == outp:
        return True
    for i, (a, b) in enumerate(zip(inp, outp)):
        if a != b and not any(lo <= i < hi for lo, hi in masks):
            return False
    return True


def _reloc_masks(arch, od):
    masks = collections.defaultdict(list)
    for r in od["relocs"]:
        size = arch.isa.relocation_map[r["type"]].size()
        masks[r["section"]].append((r["offset"], r["offset"] + size))
    return masks


def _expected_symbols(objects, placement):
    """placement[(oi, section name)] = offset of that piece in the output section."""
    gl = {}
    loc = collections.Counter()
    for oi, od in enumerate(objects):
        for y in od["symbols"]:
            if y["value"] is None:
                continue
            v = placement[(oi, y["section"])] + y["value"]
            if y["binding"] == "global":
                gl[y["name"]] = (y["section"], v)
            else:
                loc[(y["name"], y["section"], v)] += 1
    return gl, loc


def _check_symbols(out, gl, loc):
    for name, (sec, v) in gl.items():
        if not out.has_symbol(name):
            return "global symbol %r missing from the output" % name
        s = out.get_symbol(name)
        if s.undefined:
            return "global symbol %r is undefined in the output" % name
        if s.section != sec or s.value != v:
            return "global symbol %r = %s+%r, expected %s+%d (piece offset + input offset)" % (name, s.section, s.value, sec, v)
        addr = out.get_symbol_id_value(s.id)
        want = out.get_section(sec).address + v
        if addr != want:
            return "symbol %r resolves to 0x%x, expected section address + offset = 0x%x" % (name, addr, want)
    got = collections.Counter((s.name, s.section, s.value) for s in out.symbols if s.binding != "global" and s.defined)
    if got != loc:
        return "local symbols differ: output-only %s, expected-only %s" % (sorted((got - loc).elements())[:4], sorted((loc - got).elements())[:4])
    return None


def _placement_search(arch, objects, out, info, budget=20000):
    """Look for ANY placement of the input pieces that satisfies the statement
    (aligned, in order-independent non-overlapping positions, bytes equal outside
    relocation sites, symbols consistent).  Returns placement dict or None."""
    masks = [_reloc_masks(arch, od) for od in objects]
    placement = {}
    nodes = [0]
    for name, e in info.items():
        if not out.has_section(name):
            return None
        osec = out.get_section(name)
        odata = bytes(osec.data)
        pieces = []
        for oi, si, _ in e["pieces"]:
            s = objects[oi]["sections"][si]
            data = bytes.fromhex(s["data"])
            cands = []
            for off in range(0, len(odata) - len(data) + 1):
                if (osec.address + off) % s["align"]:
                    continue
                if _masked_equal(data, odata[off : off + len(data)], masks[oi][name]):
                    cands.append(off)
            pieces.append((oi, len(data), cands))

        def rec(k, taken):
            nodes[0] += 1
            if nodes[0] > budget:
                raise Discard("placement_search_budget")
            if k == len(pieces):
                return True
            oi, n, cands = pieces[k]
            for off in cands:
                if n and any(off < b and a < off + n for a, b in taken):
                    continue
                placement[(oi, name)] = off
                if rec(k + 1, taken + ([(off, off + n)] if n else [])):
                    return True
            return False

        if not rec(0, []):
            return None
    gl, loc = _expected_symbols(objects, placement)
    if _check_symbols(out, gl, loc):
        return None
    return placement


def check_output(arch, objects, out, ld, partial, hist):
    """All placement predicates of the statement; returns message or None."""
    order, info = merge_model(objects)
    masks = [_reloc_masks(arch, od) for od in objects]
    # 1. pieces at the model's offsets
    msg = None
    placement = {}
    for name in order:
        if not out.has_section(name):
            return "output has no section %r" % name
        osec = out.get_section(name)
        for oi, si, off in info[name]["pieces"]:
            s = objects[oi]["sections"][si]
            data = bytes.fromhex(s["data"])
            placement[(oi, name)] = off
            if msg:
                continue
            got = bytes(osec.data[off : off + len(data)])
            if not _masked_equal(data, got, masks[oi][name]):
                msg = "section %r of object %d (%d bytes, align %d) is not found unchanged at offset %d of the output section (got %s..., want %s...)" % (
                    name, oi, len(data), s["align"], off, got[:12].hex(), data[:12].hex())
            elif (osec.address + off) % s["align"]:
                msg = "section %r of object %d lands at 0x%x, which is not a multiple of its alignment %d" % (name, oi, osec.address + off, s["align"])
    if not msg:
        gl, loc = _expected_symbols(objects, placement)
        msg = _check_symbols(out, gl, loc)
    if msg:
        # the model is one valid placement; accept any other placement that satisfies the statement
        alt = _placement_search(arch, objects, out, info)
        if alt is None:
            return msg + " [and no other placement satisfies alignment + contents + symbols]"
        hist["placement_differs_from_model"] += 1
        placement = alt
    # undefined globals stay undefined in a partial link (nothing to check); in a final link none remain
    if partial:
        if out.images:
            return "partial link produced images"
        return None
    if not ld:
        return None
    # 2. images
    if len(out.images) != len(ld["memories"]):
        return "%d images for %d memories" % (len(out.images), len(ld["memories"]))
    loose = layout_model(info, ld, DEFAULT_SECTION_ALIGNMENT)
    model_ok = True
    for i, m in enumerate(ld["memories"]):
        img = out.images[i]
        lo, hi = m["location"], m["location"] + m["size"]
        want_names = []
        for kind, arg in m["inputs"]:
            if kind == "section":
                want_names.append(arg)
            elif kind in ("sectiondata", "symbol"):
                want_names.append("_$%s_" % arg)
        got_names = [s.name for s in img.sections]
        if sorted(got_names) != sorted(want_names):
            return "memory %d (%s): image holds sections %s, layout lists %s" % (i, m["name"], got_names, want_names)
        spans = []
        for s in img.sections:
            if s.address < lo or s.address + s.size > hi:
                return "section %r [0x%x, 0x%x) lies outside memory %s [0x%x, 0x%x)" % (s.name, s.address, s.address + s.size, m["name"], lo, hi)
            if s.size:
                spans.append((s.address, s.address + s.size, s.name))
        spans.sort()
        for a, b in zip(spans, spans[1:]):
            if b[0] < a[1]:
                return "sections %r and %r overlap in memory %s: [0x%x,0x%x) / [0x%x,0x%x)" % (a[2], b[2], m["name"], a[0], a[1], b[0], b[1])
        try:
            data = bytes(img.data)
        except Exception as e:
            return "Image.data of memory %s raises %s: %s" % (m["name"], type(e).__name__, e)
        if len(data) > m["size"]:
            return "image of memory %s has %d bytes, memory size is %d" % (m["name"], len(data), m["size"])
        for s in img.sections:
            o = s.address - img.address
            if o < 0 or bytes(data[o : o + s.size]) != bytes(s.data):
                return "Image.data of memory %s does not reproduce section %r at address - image.address = %d" % (m["name"], s.name, o)
        # layout-defined symbols: at their pseudo section, which sits between its neighbours
        byname = {s.name: s for s in img.sections}
        prev_end = lo
        seq = [(k, a) for k, a in m["inputs"] if k != "align"]
        for j, (kind, arg) in enumerate(seq):
            sec = byname[arg if kind == "section" else "_$%s_" % arg]
            if kind == "symbol":
                if not out.has_symbol(arg):
                    return "DEFINESYMBOL(%s) defined no symbol" % arg
                v = out.get_symbol_value(arg)
                nxt = None
                for k2, a2 in seq[j + 1 :]:
                    nxt = byname[a2 if k2 == "section" else "_$%s_" % a2].address
                    break
                if v < prev_end or (nxt is not None and v > nxt):
                    return "DEFINESYMBOL(%s) = 0x%x is not between the end of the preceding input (0x%x) and the start of the next (%s)" % (
                        arg, v, prev_end, "end" if nxt is None else hex(nxt))
            if sec.address < prev_end:
                return "layout order not respected: %r at 0x%x starts before the end of its predecessor 0x%x" % (sec.name, sec.address, prev_end)
            prev_end = sec.address + sec.size
        got_placed = sorted((s.name, s.address, s.size) for s in img.sections)
        if got_placed != sorted((n, a, z) for n, _, a, z in loose[i]["placed"]):
            model_ok = False
    hist["addresses_equal_model" if model_ok else "addresses_differ_from_model"] += 1
    # per-input alignment at the final addresses
    for (oi, name), off in placement.items():
        si = [k for k, s in enumerate(objects[oi]["sections"]) if s["name"] == name][0]
        al = objects[oi]["sections"][si]["align"]
        if (out.get_section(name).address + off) % al:
            return "section %r of object %d ends up at 0x%x, not a multiple of its alignment %d" % (name, oi, out.get_section(name).address + off, al)
    return None


# ---------------------------------------------------------------------------


def nontrivial(case):
    ld = case["layout"]
    if ld and len(ld["memories"]) >= 2:
        return True
    al = collections.defaultdict(set)
    for o in case["objects"]:
        for s in o["sections"]:
            al[s["name"]].add(s["align"])
    return any(len(v) >= 2 for v in al.values())


def _link(objs, layout, partial):
    from ppci.api import link

    if partial:
        return link(objs, partial_link=True)
    return link(objs, layout)


def evaluate(case, hist=None):
    """Returns failure message or None.  hist: Counter for class events."""
    hist = collections.Counter() if hist is None else hist
    arch = linkgen.get_arch(case["arch"])
    objects = case["objects"]
    ld = case["layout"]
    mode = case["mode"]
    partial = mode == "partial"
    try:
        layout = linkgen.build_layout(ld, case.get("layout_form", "object"))
    except Exception as e:
        raise Discard("layout_not_parsed:%s" % type(e).__name__)
    if ld is not None and case.get("layout_form") == "text":
        ref = linkgen.build_layout(ld, "object")
        if layout != ref or (layout.entry.symbol_name if layout.entry else None) != ld.get("entry"):
            return "layout script parses to %r, the same layout built from objects is %r" % (layout, ref)
    stages = []
    if mode == "two_stage":
        k = case["split"]
        stages.append(("partial", objects[:k], None, True))
    stages.append((mode, objects, ld, partial))
    out = None
    for sname, sobjs, sld, spartial in stages:
        exp = expectations(sobjs, sld, spartial)
        must = [k for k in ("dup", "undef", "overfull_min") if exp[k]]
        try:
            built = [linkgen.build_object(arch, od) for od in sobjs]
        except Exception as e:
            raise Discard("object_not_buildable:%s" % type(e).__name__)
        try:
            if sname == "partial" and mode == "two_stage":
                stage1 = _link(built, None, True)
                res = stage1
            elif mode == "two_stage":
                k = case["split"]
                res = _link([stage1] + built[k:], layout, False)
            else:
                res = _link(built, layout, spartial)
        except Exception as e:
            text = getattr(e, "msg", None) or str(e)
            et = type(e).__name__
            if must:
                hist["rejected_as_required:" + "+".join(must)] += 1
                return None
            # an error that names a stated condition which the model refutes
            if et == "CompilerError":
                if text.startswith("Memory exceeds size") and not exp["overfull_ppci"]:
                    return "link fails with %r although every image fits its memory (model image sizes %s, memory sizes %s)" % (
                        text, [r["image_size"] for r in layout_model(merge_model(sobjs)[1], sld, DEFAULT_SECTION_ALIGNMENT)], [m["size"] for m in sld["memories"]])
                if text.startswith("Multiple defined symbol") and not exp["dup"]:
                    return "link fails with %r although no global is defined twice" % text
                if text.startswith("Undefined reference") and not exp["undef"]:
                    return "link fails with %r although every referenced global is defined" % text
                if text.startswith("Memory exceeds size"):
                    hist["rejected_overfull_under_default_alignment"] += 1
                    return None
            hist["rejected_other:%s@%s" % (et, _innermost(e.__traceback__))] += 1
            return None
        if must:
            what = []
            if exp["dup"]:
                what.append("global(s) %s defined more than once" % exp["dup"])
            if exp["undef"]:
                what.append("undefined global(s) %s" % exp["undef"])
            if exp["overfull_min"]:
                what.append("memory %s smaller than its contents" % [sld["memories"][i]["name"] for i in exp["overfull_min"]])
            return "link (%s) succeeded although the input has %s" % (sname, "; ".join(what))
        msg = check_output(arch, sobjs, res, sld, spartial, hist)
        if msg:
            return "%s link: %s" % (sname, msg)
        out = res
    hist["linked_ok:" + mode] += 1
    if mode == "two_stage":
        # informational: does the two-stage result equal the direct link?
        try:
            direct = _link([linkgen.build_object(arch, od) for od in objects], layout, False)
            same = [(s.name, s.address, bytes(s.data)) for s in direct.sections] == [(s.name, s.address, bytes(s.data)) for s in out.sections]
            hist["two_stage_equals_direct" if same else "two_stage_differs_from_direct"] += 1
        except Exception:
            hist["two_stage_direct_raises"] += 1
    return None


def replay(case):
    return evaluate(case)


def classify(case, msg):
    return None


def _classes(case):
    c = ["mode_" + case["mode"], "arch_" + case["arch"]]
    ld = case["layout"]
    if ld:
        c.append("layout_" + case["layout_form"])
        c.append("memories_%d" % len(ld["memories"]))
        kinds = {k for m in ld["memories"] for k, _ in m["inputs"]}
        c += ["input_" + k for k in sorted(kinds)]
        if ld.get("entry"):
            c.append("layout_entry")
        if any(m["location"] % 0x1000 for m in ld["memories"]):
            c.append("unaligned_memory_location")
    else:
        c.append("no_layout")
    if any(o["relocs"] for o in case["objects"]):
        c.append("with_relocations")
    for f in case.get("faults", []):
        c.append("fault_" + f)
    return c


def _worker(arg):
    import logging

    logging.getLogger("linker").setLevel(logging.CRITICAL)
    seed, n, max_size = arg
    stats = Stats()

    def prop(case):
        hist = collections.Counter()
        try:
            msg = evaluate(case, hist)
        finally:
            stats.hist.update(hist)
        nt = nontrivial(case)
        sample = None
        if nt and len(stats.samples) < 1:
            sample = case
        stats.case(case, nt, sample, classes=_classes(case))
        return msg

    fails = hyp_search(linkgen.link_case(max_size=max_size), prop, n, seed, stats, classify=classify, budget_s=600)
    return stats, fails


def run(ctx):
    n = ctx.scale(1600, 100000)
    ms = ctx.scale(48, 512)
    args = [(subseed(ctx.seed, PID, w), n // 16, ms if w % 4 else ctx.scale(48, 4096)) for w in range(16)]
    ctx.pmap(_worker, args)
    ctx.extra["targets_covered"] = ["arm", "x86_64", "riscv", "xtensa", "microblaze", "example"]
