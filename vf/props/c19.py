"""C19 - S-record output decodes to the object's code."""

import io
import os
import shutil
import tempfile

from hypothesis import strategies as st

from .. import bfdread
from ..core import Discard, Stats, hyp_search, jhash, load_findings, open_finding_ids, subseed
from ..objgen import data_size, expand_data

PID = "C19"
RULE = (
    "objects whose 'code' section has a Hypothesis-drawn size (0, 1, 15-17, 29-31, 59-61, 255/256, random <= 2000, "
    "65 520..65 570, 70 000, 200 000; thorough up to 600 000), content and section address (0 for most cases; also "
    "just below 64 KiB / 16 MiB / 4 GiB so that the 16/24/32-bit address-field limits are crossed), plus an "
    "unrelated second section. write_srecord output is parsed by a parser written from the S-record format "
    "description (count, checksum, type, address width, single final termination record, S5/S6 counts) and by GNU "
    "BFD (objdump -s -b srec); the decoded bytes at their addresses must be exactly the code section's bytes at "
    "section.address + offset; only S1/S2/S3 records may carry bytes that land in memory; no byte above the "
    "record type's address range. non-trivial = size >= 1; distinct = (address, size, content hash)"
)
ASSUMPTIONS = [
    "GNU BFD's srec reader is a correct independent S-record reader",
    "the address of a code byte is section.address + offset (0 + offset for an unlinked object)",
    "a writer that refuses (ValueError/NotImplementedError/CompilerError) code that does not fit 16-bit "
    "addresses is not counted as a violation (DESIGN.md C19), such cases are counted as discards",
]
TRUSTED = ["CPython", "Hypothesis", "reference S-record parser in vf/props/c19.py", "GNU objdump (BFD srec)"]
REGISTER = True
TECHNIQUE = "Hypothesis code sections; spec-derived S-record parser + GNU BFD srec reader"
LEVEL_TEXT = (
    "Exploration: for each generated code section the written file is decoded by an independent parser that "
    "verifies every record's count, checksum and type, and by GNU BFD; both decodings must equal the section's "
    "bytes at their addresses. Sizes and addresses are concentrated on the record-length and address-width "
    "edges (30-byte records; 64 KiB, 16 MiB, 4 GiB), which is where a writer of this format can go wrong."
)

KF_HDR = "C19-KF1"
KF_ADDR16 = "C19-KF2"
KF_SECADDR = "C19-KF3"
TAG_KF = {"hdr-in-data-record": KF_HDR, "addr16": KF_ADDR16, "section-address-ignored": KF_SECADDR}
ADDR_BYTES = {0: 2, 1: 2, 2: 3, 3: 4, 5: 2, 6: 3, 7: 4, 8: 3, 9: 2}


# --- reference parser ------------------------------------------------------------
def parse_srec(text):
    """S-record parser written from the format description (Motorola S-record; record =
    'S' type count address data checksum).  Returns (issues, records) with
    records = [(type, address, data bytes, line number)]."""
    issues = []
    recs = []
    lines = text.split("\n")
    if lines and lines[-1] == "":
        lines.pop()
    terminated = False
    ndata = 0
    for n, line in enumerate(lines, 1):
        if line.endswith("\r"):
            line = line[:-1]
        if terminated:
            issues.append("line %d: record after the termination record" % n)
            break
        if len(line) < 2 or line[0] != "S" or line[1] not in "0123456789":
            issues.append("line %d: not an S-record (%r)" % (n, line[:20]))
            continue
        typ = int(line[1])
        body = line[2:]
        try:
            if len(body) % 2 or not all(c in "0123456789abcdefABCDEF" for c in body):
                raise ValueError
            raw = bytes.fromhex(body)
        except ValueError:
            issues.append("line %d: not an even number of hex digits" % n)
            continue
        if typ == 4:
            issues.append("line %d: record type S4 is reserved" % n)
            continue
        na = ADDR_BYTES[typ]
        if len(raw) < 1 + na + 1:
            issues.append("line %d: record too short for an S%d record" % (n, typ))
            continue
        count, chk = raw[0], raw[-1]
        if count != len(raw) - 1:
            issues.append("line %d: count field %d but %d bytes follow it" % (n, count, len(raw) - 1))
        want = 0xFF - (sum(raw[:-1]) & 0xFF)
        if chk != want:
            issues.append("line %d: checksum %02X, must be %02X" % (n, chk, want))
        addr = int.from_bytes(raw[1 : 1 + na], "big")
        data = raw[1 + na : -1]
        recs.append((typ, addr, data, n))
        if typ == 0:
            if recs[:-1]:
                issues.append("line %d: header record is not the first record" % n)
            if addr != 0:
                issues.append("line %d: header record address field must be 0000" % n)
        elif typ in (1, 2, 3):
            ndata += 1
            if len(data) and addr + len(data) > 1 << (8 * na):
                pass  # reported by the caller (it is part of the address-range judgement)
        elif typ in (5, 6):
            if data:
                issues.append("line %d: count record with data" % n)
            if addr != ndata:
                issues.append("line %d: count record says %d data records, there were %d" % (n, addr, ndata))
        else:  # 7, 8, 9
            if data:
                issues.append("line %d: termination record with data" % n)
            terminated = True
    if not terminated:
        issues.append("no termination record (S7/S8/S9)")
    return issues, recs


def fmt_regions(regs, limit=5):
    return "[" + ", ".join("0x%x+%d" % (a, len(d)) for a, d in regs[:limit]) + (", ..." if len(regs) > limit else "") + "]"


def first_diff(exp, got):
    if [(a, len(d)) for a, d in exp] != [(a, len(d)) for a, d in got]:
        return "regions %s, expected %s" % (fmt_regions(got), fmt_regions(exp))
    for (a, d), (_, g) in zip(exp, got):
        if d != g:
            i = next(i for i in range(len(d)) if d[i] != g[i])
            return "byte at 0x%x is %02x, expected %02x" % (a + i, g[i], d[i])
    return None


# --- evaluation ---------------------------------------------------------------------
def build(case):
    from ppci.api import get_arch
    from ppci.binutils.objectfile import ObjectFile

    code = expand_data(case["code"])
    address = int(case.get("address", 0))
    if address < 0 or address + len(code) > 1 << 32:
        raise Discard("code does not fit a 32-bit address space")
    obj = ObjectFile(get_arch(case.get("arch", "arm")))
    other = case.get("other")
    if other and other.get("first"):
        obj.create_section(other["name"]).add_data(expand_data(other["data"]))
    sec = obj.create_section("code")
    sec.add_data(code)
    sec.address = address
    if other and not other.get("first"):
        obj.create_section(other["name"]).add_data(expand_data(other["data"]))
    return obj, code, address


def evaluate_core(case):
    """Returns (issues, job): issues = [(tag, message)], job = data for the BFD comparison."""
    from ppci.common import CompilerError
    from ppci.format.srecord import write_srecord

    obj, code, address = build(case)
    end = address + len(code)
    f = io.StringIO()
    try:
        write_srecord(obj, f)
    except (ValueError, NotImplementedError, CompilerError) as e:
        if end > 0x10000:
            raise Discard("writer refused code beyond 64 KiB")
        return [("write-raised", "write_srecord raised %s: %s (code of %d bytes at 0x%x)" % (type(e).__name__, e, len(code), address))], None
    except Exception as e:
        return [("write-raised", "write_srecord raised %s: %s (code of %d bytes at 0x%x)" % (type(e).__name__, e, len(code), address))], None
    text = f.getvalue()
    issues = []
    rec_issues, recs = parse_srec(text)
    for m in rec_issues[:3]:
        issues.append(("record", "written file: " + m))

    # known defect C19-KF1: header text written as the first *data* record
    drop_first = False
    datarecs = [r for r in recs if r[0] in (1, 2, 3)]
    if datarecs and datarecs[0] is recs[0] and recs[0][:3] == (1, 0, b"HDR") and not any(r[0] == 0 for r in recs):
        # it is the defect (and not code that happens to start with 'HDR') when the file has one data
        # record more than 30-byte chunking of the code needs
        if len(datarecs) == (len(code) + 29) // 30 + 1:
            drop_first = True
            datarecs = datarecs[1:]

    pieces = [(a, d) for t, a, d, n in datarecs if d]
    mine = bfdread.merge_regions(pieces)
    expected = bfdread.merge_regions([(address, code)])
    known_decode = False
    over = [(t, a, len(d), n) for t, a, d, n in datarecs if a + len(d) > 1 << (8 * ADDR_BYTES[t])]
    diff = first_diff(expected, mine)
    if diff or over:
        # models of the known defects: the section address is ignored (KF3) and/or every record is an
        # S1 record whose address field holds the low 16 bits (KF2)
        rec_addrs = [(t, a, len(d)) for t, a, d, n in datarecs]
        tags = None
        for ignore_addr in (False, True):
            for mask16 in (False, True):
                if not ignore_addr and not mask16:
                    continue
                base = 0 if ignore_addr else address
                if ignore_addr and address == 0:
                    continue
                if mask16 and base + len(code) <= 0x10000:
                    continue
                model = []
                for off in range(0, len(code), 30):
                    a = base + off
                    model.append((1, a & 0xFFFF, len(code[off : off + 30])) if mask16 else None)
                if mask16:
                    ok = rec_addrs == model
                else:
                    ok = not over and first_diff(bfdread.merge_regions([(base, code)]), mine) is None
                if ok and b"".join(d for t, a, d, n in datarecs) == code:
                    tags = (["section-address-ignored"] if ignore_addr else []) + (["addr16"] if mask16 else [])
                    break
            if tags:
                break
        if tags:
            known_decode = True
            if "section-address-ignored" in tags:
                issues.append(("section-address-ignored", "code section is at 0x%x but the records start at address 0" % address))
            if "addr16" in tags:
                issues.append(("addr16", "code reaches 0x%x but all data records are S1 records carrying the low 16 address bits (e.g. record %d: S1 address %04X)" % (base + len(code), len(datarecs), datarecs[-1][1])))
        else:
            if diff:
                issues.append(("decode", "written file decodes (format parser) to %s" % diff))
            for t, a, ln, n in over[:1]:
                issues.append(("addr-range", "line %d: S%d record at 0x%x with %d bytes runs past the %d-bit address range" % (n, t, a, ln, 8 * ADDR_BYTES[t])))
    if drop_first:
        # reported last: every file of the unfixed writer has it, the more specific issues come first
        issues.append(("hdr-in-data-record", "the header text 'HDR' is written as S1 data record at address 0 (first line %r); no S0 record" % text.split("\n")[0]))
    job = None
    if not known_decode:
        job = {"text": text, "expected": expected, "drop_first": drop_first}
    return issues, job


def bfd_issues(job, r):
    if r["error"]:
        return [("bfd", "objdump -b srec rejects the written file: %s" % r["error"].strip()[:300])]
    pieces = list(r["raw_pieces"])
    if job["drop_first"] and pieces and pieces[0] == (0, b"HDR"):
        pieces = pieces[1:]
    diff = first_diff(job["expected"], bfdread.merge_regions(pieces))
    if diff:
        return [("bfd", "GNU BFD reads the written file as %s" % diff)]
    return []


def evaluate(case):
    issues, job = evaluate_core(case)
    if job is None:
        return issues
    d = tempfile.mkdtemp(prefix="vf-C19-")
    try:
        path = os.path.join(d, "case.srec")
        with open(path, "w") as fh:
            fh.write(job["text"])
        try:
            r = bfdread.read_files([path], "srec")[path]
        except bfdread.BfdUnavailable:
            return issues
    finally:
        shutil.rmtree(d, ignore_errors=True)
    return issues + bfd_issues(job, r)


def render(issues):
    return "\n".join("[%s] %s" % (t, m) for t, m in issues) if issues else None


def replay(case):
    return render(evaluate(case))


_OPEN = None


def open_ids():
    global _OPEN
    if _OPEN is None:
        _OPEN = open_finding_ids(PID)
    return _OPEN


def classify(case, msg):
    """Every issue of the failure must be a modelled, open known defect; returns the first one's id."""
    tags = [l[1 : l.index("]")] for l in str(msg).split("\n") if l.startswith("[") and "]" in l]
    if not tags or any(t not in TAG_KF or TAG_KF[t] not in open_ids() for t in tags):
        return None
    return TAG_KF[tags[0]]


def active_findings():
    """Open findings whose witness still fails on the tree under test."""
    act = set()
    for e in load_findings(PID):
        if e.get("status") != "open":
            continue
        try:
            m = replay(e["witness"])
        except Discard:
            continue
        tags = [l[1 : l.index("]")] for l in str(m or "").split("\n") if l.startswith("[")]
        if any(TAG_KF.get(t) == e["id"] for t in tags):
            act.add(e["id"])
    return act


# --- generation ---------------------------------------------------------------------
EDGE_SIZES = (0, 1, 2, 15, 16, 17, 29, 30, 31, 59, 60, 61, 89, 90, 91, 255, 256)


@st.composite
def cases(draw, max_size, exclude):
    sk = draw(st.sampled_from(("edge", "edge", "edge", "random", "random", "random", "random", "k64", "big")))
    if sk == "edge":
        size = draw(st.sampled_from(EDGE_SIZES))
    elif sk == "random":
        size = draw(st.integers(0, 2000))
    elif sk == "k64":
        size = draw(st.one_of(st.sampled_from((65535, 65536, 65537)), st.integers(65520 - 30, 65570 + 30)))
    else:
        size = draw(st.one_of(st.sampled_from((70000, 200000)), st.integers(65537, max_size)))
    size = min(size, max_size)
    ak = draw(st.sampled_from(("zero", "zero", "zero", "small", "b16", "b24", "b32", "any")))
    if ak == "zero":
        address = 0
    elif ak == "small":
        address = draw(st.integers(1, 0x4000))
    elif ak == "any":
        address = draw(st.integers(0, (1 << 32) - size))
    else:
        lim = {"b16": 1 << 16, "b24": 1 << 24, "b32": 1 << 32}[ak]
        # end of the code at lim + d: d < 0 stays inside, d = 0 fills the range exactly, d > 0 crosses
        d = draw(st.sampled_from((-31, -30, -1, 0, 0, 1, 2, 29, 30, 31, 100)))
        if ak == "b32":
            d = min(d, 0)
        address = max(0, lim + d - size)
    excluded = []
    if KF_SECADDR in exclude and address != 0:
        address = 0
        excluded.append(KF_SECADDR)
    if KF_ADDR16 in exclude and address + size > 0x10000:
        if address >= 0x10000:
            address = 0
        size = max(0, 0x10000 - address - size % 211)  # stays below the limit, sizes spread just under it
        excluded.append(KF_ADDR16)
    if size <= 64 and draw(st.booleans()):
        code = {"hex": draw(st.binary(min_size=size, max_size=size)).hex()}
    elif size >= 3 and draw(st.integers(0, 9)) == 0:
        # code that itself starts with the text 'HDR'
        code = {"hex": (b"HDR" + bytes(size - 3)).hex()} if size <= 4096 else {"n": size, "seed": draw(st.integers(0, 2**32 - 1))}
    else:
        code = {"n": size, "seed": draw(st.integers(0, 2**32 - 1))}
    other = None
    if draw(st.booleans()):
        other = {
            "name": draw(st.sampled_from(("data", "rodata", ".text", "code2"))),
            "first": draw(st.booleans()),
            "data": {"n": draw(st.integers(0, 100)), "seed": draw(st.integers(0, 2**32 - 1))},
        }
    return {"code": code, "address": address, "other": other, "arch": draw(st.sampled_from(("arm", "x86_64", "msp430"))), "excluded": excluded}


def case_classes(case):
    size = data_size(case["code"])
    a = case["address"]
    cl = ["size_" + ("0" if size == 0 else "1_16" if size <= 16 else "17_65535" if size < 65536 else "ge_65536")]
    end = a + size
    cl.append("end_" + ("le_64K" if end <= 1 << 16 else "le_16M" if end <= 1 << 24 else "le_4G"))
    if a:
        cl.append("address_nonzero")
    if size and size % 30 == 0:
        cl.append("size_multiple_of_30")
    if case.get("other"):
        cl.append("second_section")
    return cl, size >= 1


BATCH = 48


def _worker(arg):
    seed, n, max_size, exclude = arg
    stats = Stats()
    tmp = tempfile.mkdtemp(prefix="vf-C19-")
    jobs = []
    late = []

    def flush():
        if not jobs:
            return
        try:
            res = bfdread.read_files([j[0] for j in jobs], "srec")
        except bfdread.BfdUnavailable as e:
            stats.discard("objdump unavailable")
            if len(stats.notes) < 1:
                stats.notes.append("GNU BFD comparison skipped: %s" % str(e)[:200])
            res = None
        for path, case, job, core in jobs:
            if res is not None:
                more = bfd_issues(job, res[path])
                stats.hist["bfd_compared"] += 1
                if more:
                    msg = render(core + more)
                    kid = classify(case, msg)
                    if kid:
                        stats.known[kid] += 1
                    elif len(late) < 3:
                        late.append((case, msg))
            try:
                os.unlink(path)
            except OSError:
                pass
        del jobs[:]

    def prop(case):
        for kid in case.get("excluded", ()):
            stats.excluded[kid] += 1
        issues, job = evaluate_core(case)
        cl, nt = case_classes(case)
        key = jhash([case["code"], case["address"], case["other"]])
        sample = None
        if nt and len(stats.samples) < 1:
            sample = {k: case[k] for k in ("code", "address", "other", "arch")}
        stats.case(key, nt, sample, classes=cl)
        for t, _ in issues:
            if t in TAG_KF:
                stats.hist["known_" + t] += 1
        if job is not None and (not issues or classify(case, render(issues))):
            path = os.path.join(tmp, "c%d.srec" % stats.evaluations)
            with open(path, "w") as fh:
                fh.write(job["text"])
            jobs.append((path, case, job, issues))
            if len(jobs) >= BATCH:
                flush()
        return render(issues)

    try:
        fails = hyp_search(cases(max_size, exclude), prop, n, seed, stats, classify=classify)
        flush()
    finally:
        shutil.rmtree(tmp, ignore_errors=True)
    return stats, fails + late


def run(ctx):
    import ppci.api  # noqa: F401  (imported before the pool forks, so that the workers share it)

    exclude = sorted(active_findings())
    if exclude:
        ctx.stats.notes.append("generator exclusions active for %s" % ", ".join(exclude))
    n = ctx.scale(320, 20000)
    max_size = ctx.scale(200000, 600000)
    ctx.pmap(_worker, [(subseed(ctx.seed, PID, w), n // 16, max_size, exclude) for w in range(16)])
