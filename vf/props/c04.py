"""C04 - x86-64 native code reproduces C program behaviour (both link paths, every optimisation level)."""

import io
import os
import shutil
import subprocess
import tempfile

from hypothesis import strategies as st

from .. import cc_oracle, gencc, x86link
from ..core import Discard, Stats, hyp_search, subseed
from ..irpasses import innermost_ppci_frame

PID = "C04"
RULE = (
    "Hypothesis-generated whole C programs: the unit of vf/gencc.py (functions over all integer types, floats, globals, "
    "arrays, structs, pointers, loops, switch, calls) + a small output runtime (decimal printing into a buffer, the "
    "external function 'ext') + a generated main that calls every function on 2 argument vectors, prints results, all "
    "globals and the caller buffer and returns a checksum as exit status. Oracle: stdout and exit status of the gcc -O0 "
    "build, used only when gcc AND clang UBSan builds report nothing and agree. ppci compiles the whole program at "
    "-O0/1/2/s and it is linked (A) by ppci's own linker with a generated layout and an assembly start-up into a static "
    "ELF executable and (B) as relocatable ELF objects by gcc/ld with a gcc-compiled syscall shim; both run natively. "
    "non-trivial = the program has a call, a loop or switch and a global access and ran on both sides; "
    "distinct = (source text, level, link path)"
)
ASSUMPTIONS = [
    "x86-64 Linux host; gcc -O0 is a conforming compiler; implementation-defined behaviour as gcc defines it",
    "programs rejected by ppci with a CompilerError are discarded and counted (C28/C29 judge failures to compile)",
]
TRUSTED = ["CPython", "Hypothesis", "gcc 12 + UBSan", "clang 14 + UBSan", "GNU ld", "the host CPU and Linux kernel", "vf/gencc.py"]
REGISTER = True
TECHNIQUE = "differential: native execution of ppci-compiled programs (ppci linker and gcc/ld link paths, -O0/1/2/s) vs gcc -O0 output, Hypothesis-generated UB-free C programs"
LEVEL_TEXT = (
    "Exploration with a differential oracle on real hardware: every generated defined-behaviour program is compiled by "
    "ppci at four optimisation levels, linked two ways and run natively; output and exit status must equal those of the "
    "gcc build. Whole-compiler behaviour on programs is only reachable by generated-program search; no bound is closed."
)

RUNTIME = r"""
long vf_syscall(long nr, long a, long b, long c);
static char vf_buf[65536];
static int vf_len;
static unsigned long vf_ext_index;
void vf_flush(void) { if (vf_len > 0) { vf_syscall(1, 1, (long)vf_buf, vf_len); } vf_len = 0; }
void vf_putc(char c) { if (vf_len >= 65000) { vf_flush(); } vf_buf[vf_len] = c; vf_len = vf_len + 1; }
void vf_puts(char *s) { while (*s) { vf_putc(*s); s = s + 1; } }
void vf_putl(long v) {
  char tmp[24]; int n = 0; unsigned long u;
  if (v < 0) { vf_putc('-'); u = 0UL - (unsigned long)v; } else { u = (unsigned long)v; }
  do { tmp[n] = (char)('0' + (int)(u % 10UL)); n = n + 1; u = u / 10UL; } while (u != 0UL);
  while (n > 0) { n = n - 1; vf_putc(tmp[n]); }
}
int ext(int tag, long v) {
  unsigned long h = 11400714819323198485UL;
  h = (h ^ 101UL) * 1099511628211UL; h = (h ^ 120UL) * 1099511628211UL; h = (h ^ 116UL) * 1099511628211UL;
  h = (h ^ (unsigned long)(long)tag) * 18397679294719823053UL; h = h ^ (h >> 33);
  h = (h ^ (unsigned long)v) * 18397679294719823053UL; h = h ^ (h >> 33);
  h = (h ^ vf_ext_index) * 14181476777654086739UL; h = h ^ (h >> 29);
  vf_ext_index = vf_ext_index + 1UL;
  vf_puts("E "); vf_putl(tag); vf_putc(' '); vf_putl(v); vf_putc('\n');
  return (int)(h & 127UL);
}
"""

START_ASM = """
section code
global start
global main
global vf_syscall
start:
    call main
    mov rdi, rax
    mov rax, 60
    syscall
vf_syscall:
    mov rax, rdi
    mov rdi, rsi
    mov rsi, rdx
    mov rdx, rcx
    syscall
    ret
"""

LAYOUT = """
ENTRY(start)
MEMORY code LOCATION=0x400000 SIZE=0x100000 {
    SECTION(code)
}
MEMORY ram LOCATION=0x20000000 SIZE=0x100000 {
    SECTION(data)
}
"""

SHIM_C = r"""
#include <unistd.h>
#include <sys/syscall.h>
long vf_syscall(long nr, long a, long b, long c) { return syscall(nr, a, b, c); }
"""


def main_source(program, tests):
    L = ["void vf_flush(void); void vf_putc(char c); void vf_puts(char *s); void vf_putl(long v);"]
    L.append("int main(void) {")
    L.append("  int buf[4]; long chk = 0; long r = 0; double d = 0.0;")
    L.append("  buf[0] = 11; buf[1] = 22; buf[2] = 33; buf[3] = 44;")
    for i, (fi, args) in enumerate(tests):
        f = program["funcs"][fi]
        call = "%s(%s)" % (f["name"], ", ".join(cc_oracle.c_arg(a, pt) for a, pt in zip(args, f["params"])))
        L.append('  vf_puts("T %d\\n");' % i)
        if f["ret"] == "void":
            L.append("  %s;" % call)
        elif gencc.is_float(f["ret"]):
            # print a float result scaled and truncated (range checked by UBSan in the reference builds)
            L.append("  d = (double)%s; r = (long)(d * 64.0);" % call)
            L.append('  vf_puts("R "); vf_putl(r); vf_putc(\'\\n\'); chk = chk * 31 + r;')
        else:
            L.append("  r = (long)%s;" % call)
            L.append('  vf_puts("R "); vf_putl(r); vf_putc(\'\\n\'); chk = chk * 31 + r;')
        for o in program["observers"]:
            L.append('  r = %s(); vf_puts("O "); vf_putl(r); vf_putc(\'\\n\'); chk = chk * 31 + r;' % o)
        L.append('  vf_puts("B "); vf_putl(buf[0]); vf_putc(\' \'); vf_putl(buf[1]); vf_putc(\' \'); vf_putl(buf[2]); vf_putc(\' \'); vf_putl(buf[3]); vf_putc(\'\\n\');')
    L.append("  vf_flush();")
    L.append("  return (int)(chk & 127);")
    L.append("}")
    return "\n".join(L) + "\n"


def whole_program(case):
    p = case["program"]
    src = p["src"]
    # chk arithmetic must not overflow: use unsigned accumulation
    main = main_source(p, case["tests"]).replace("long chk = 0;", "unsigned long chk = 0;").replace("chk * 31 + r;", "chk * 31UL + (unsigned long)r;").replace("(int)(chk & 127)", "(int)(chk & 127UL)")
    return src + RUNTIME + main


_TMP = None


def tmpdir():
    global _TMP
    if _TMP is None or not os.path.isdir(_TMP):
        _TMP = tempfile.mkdtemp(prefix="vf-C04-")
    return _TMP


def cleanup():
    global _TMP
    if _TMP:
        shutil.rmtree(_TMP, ignore_errors=True)
        _TMP = None


def reference(text, tmp):
    """(stdout, exit status) of the gcc -O0 build, or None when gcc/clang UBSan builds see UB or disagree."""
    src = os.path.join(tmp, "ref.c")
    shim = os.path.join(tmp, "shim.c")
    open(src, "w").write(text)
    open(shim, "w").write(SHIM_C)
    outs = []
    for cc, flags in (("gcc", ["-fsanitize=undefined", "-fsanitize=float-cast-overflow", "-fsanitize-recover=all"]),
                      ("clang", ["-fsanitize=undefined", "-fsanitize=float-cast-overflow", "-fsanitize-recover=all"]),
                      ("gcc", [])):
        exe = os.path.join(tmp, "ref-%s%d" % (cc, len(flags)))
        p = subprocess.run([cc, "-O0", "-w", "-std=gnu99"] + flags + ["-o", exe, src, shim], capture_output=True, text=True)
        if p.returncode != 0:
            if cc == "clang":
                continue
            raise Discard("gcc rejects the program: " + p.stderr[:100])
        try:
            r = subprocess.run([exe], capture_output=True, timeout=20)
        except subprocess.TimeoutExpired:
            raise Discard("reference run timed out")
        if r.returncode < 0:
            raise Discard("reference run crashed")
        if b"runtime error" in r.stderr or b"Sanitizer" in r.stderr:
            raise Discard("UBSan (%s) reports undefined behaviour" % cc)
        outs.append((r.stdout, r.returncode))
    if any(o != outs[0] for o in outs[1:]):
        raise Discard("gcc and clang disagree (not fully defined)")
    return outs[-1]


LEVELS = ["0", "1", "2", "s"]


def compile_level(text, level):
    from ppci.api import cc
    from ppci.common import CompilerError

    try:
        return cc(io.StringIO(text), x86link.get_arch(), opt_level=level)
    except CompilerError as e:
        raise Discard("ppci rejects at -O%s: %s" % (level, str(e.msg)[:60]))


def link_a(obj, tmp, tag):
    from ppci.api import asm, link, objcopy

    start = asm(io.StringIO(START_ASM), x86link.get_arch())
    linked = link([start, obj], layout=io.StringIO(LAYOUT))
    exe = os.path.join(tmp, "a-%s.elf" % tag)
    objcopy(linked, None, "elf", exe)
    os.chmod(exe, 0o755)
    return exe


def run_case(case, stats=None, levels=LEVELS):
    tmp = tmpdir()
    text = whole_program(case)
    ref_out, ref_rc = reference(text, tmp)
    ran = 0
    for level in case.get("levels", levels):
        try:
            obj = compile_level(text, level)
        except Discard:
            raise
        except Exception as e:
            # an internal error of the compiler is C28/C29's subject, not C04's
            raise Discard("ppci crashes at -O%s (C29): %s [%s]" % (level, type(e).__name__, innermost_ppci_frame(e)))
        for path in ("A", "B"):
            try:
                if path == "A":
                    exe = link_a(obj, tmp, level)
                else:
                    exe = x86link.build(os.path.join(tmp, "b-%s" % level), {"p.o": obj}, {"shim.c": SHIM_C})
            except Exception as e:
                return ("-O%s link path %s: linking failed: %s: %s" % (level, path, type(e).__name__, str(e)[:300]), ran)
            res = None
            for attempt in range(2):
                res = x86link.run_exe(exe, timeout=20)
                rc = int(res.status.split(":")[1]) if res.status.startswith("exit:") else (0 if res.status == "ok" else None)
                out = res.stdout if isinstance(res.stdout, bytes) else res.stdout.encode()
                if rc == ref_rc and out == ref_out:
                    break
            else:
                return ("-O%s link path %s: gcc gives exit %d and %r..., ppci-built program gives %s and %r..." % (
                    level, path, ref_rc, _first_diff(ref_out, out)[0], res.status, _first_diff(ref_out, out)[1]), ran)
            ran += 1
    return (None, ran)


def _first_diff(a, b):
    la, lb = a.split(b"\n"), b.split(b"\n")
    for i in range(max(len(la), len(lb))):
        x = la[i] if i < len(la) else b"<end>"
        y = lb[i] if i < len(lb) else b"<end>"
        if x != y:
            ctx = b" | ".join(la[max(0, i - 2) : i])
            return (ctx + b" | " + x).decode("ascii", "replace")[:160], (ctx + b" | " + y).decode("ascii", "replace")[:160]
    return ("<same>", "<same>")


def replay(case):
    try:
        return run_case(case)[0]
    finally:
        cleanup()


def classify(case, msg):
    return None


OPTIONS = gencc.Options(max_funcs=3, max_stmts=6, effects=14, many_params=20, bare_literals=8)


@st.composite
def case_strategy(draw):
    p = draw(gencc.programs(OPTIONS))
    tests = []
    for fi, f in enumerate(p["funcs"]):
        for v in gencc.arg_vectors(draw, f, 2):
            tests.append([fi, v])
    return {"program": p, "tests": tests}


def _worker(arg):
    seed, n, levels = arg
    stats = Stats()

    def prop(case):
        msg, ran = run_case(case, stats, levels)
        feats = set(case["program"]["features"])
        nt = ran > 0 and bool(feats & {"call", "ext_call"}) and bool(feats & {"for", "while", "do_while", "switch"}) and "memory_operand" in feats
        stats.case(case["program"]["src"] if nt else None, nt, {"src": case["program"]["src"][:1500], "tests": case["tests"][:2]} if nt else None,
                   classes=["executables_ok:%d" % ran] + sorted(feats))
        return msg

    try:
        fails = hyp_search(case_strategy(), prop, n, seed, stats, classify=classify, skip_first=1)
    finally:
        cleanup()
    return stats, fails


def run(ctx):
    reason = x86link.have_toolchain()
    if reason:
        from ..core import HarnessError

        raise HarnessError(reason)
    n = ctx.scale(32, 4800)
    ctx.pmap(_worker, [(subseed(ctx.seed, PID, w), max(1, n // 16), LEVELS) for w in range(16)])
    ctx.extra["levels"] = LEVELS
    ctx.extra["link_paths"] = ["A: ppci linker + objcopy elf", "B: relocatable ELF + gcc/ld"]
