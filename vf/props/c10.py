"""C10 - Out-of-range operands are rejected, never silently truncated."""

import collections

from hypothesis import strategies as st

from .. import isagen as G
from .. import llvmref as L
from ..core import Discard, Stats, hyp_search, open_finding_ids, subseed

PID = "C10"
RULE = (
    "(1) operands, all 15 target configurations: for every int operand of every instruction class the fixed "
    "candidate list 0, +-1, +-2^k, +-2^k+-1, aligned values just inside 2^k (k<=65), the neighbourhood (+-2) of "
    "the accepted interval's edges and Hypothesis-drawn values v, v+-2^n are encoded with all other operands "
    "fixed; two different accepted values must not produce the same bytes+relocations (injectivity needs no "
    "decoder). (2) for riscv/rvc/rvf, arm, thumb and x86-64 the accepted values at the interval edges are also "
    "decoded by llvm-mc/objdump and the decoded immediate must equal the given one. (3) relocations: for each "
    "relocation type of every isa.relocation_map, Relocation.apply is run on the field bytes of a real "
    "instruction carrying that relocation for S-P sweeping 0, +-2^k, +-2^k+-unit around every power of two up to 2^40 at two site addresses; apply "
    "must raise, or for types with a field extractor written from the ISA manual (RISC-V B/J/CJ/CB/U/I, ARM "
    "imm24/ldr12, Thumb B/Bcc/BL/B.W/literal, x86 rel32/jmp8) the extracted field must equal the "
    "manual's S+A-P formula, and for all full-value types two accepted displacements must not give the same "
    "bytes. non-trivial = value within 2 units of an accepted-range "
    "edge or aliasing another accepted value; distinct = (target, class/relocation, operand path, value)"
)
ASSUMPTIONS = [
    "any exception raised by encode()/relocations()/apply() counts as 'fails with an error'",
    "a value is 'accepted' when encode(), relocations() and str() all succeed with the other operands at a default",
    "field extractors and pc-bias formulas in this file are correct readings of the ISA manuals",
    "hi/lo part relocations without an extractor here (avr ldihi/ldilo, or1k CONST/CONSTH) are not judged",
]
TRUSTED = ["CPython", "Hypothesis", "llvm-mc 14 / objdump (part 2)", "field extractors in vf/props/c10.py", "vf/isagen.py"]
REGISTER = True
TECHNIQUE = "boundary-value enumeration + Hypothesis: injectivity of accepted operands, reference decode, relocation field extractors"
LEVEL_TEXT = (
    "Exploration with exhaustive boundary enumeration: every int operand of every instruction class and every "
    "relocation type is driven with the values at and around each power of two and at the edges of the range "
    "ppci accepts; truncation shows up as two accepted values with one encoding (no decoder needed), as a "
    "decoded value different from the given one, or as an extracted relocation field different from S+A-P. "
    "Overflow handling is a boundary question per field, so enumerating the boundaries of every field is the "
    "right level; values between boundaries are sampled."
)

KF_TOKEN = "C10-KF1"  # Token.__setitem__ accepts [-2^n, 2^n) for an n-bit field
KF_MASK = "C10-KF2"  # encoders that mask / shift the operand without any range check
KF_WRAPNEG = "C10-KF3"  # relocations: wrap_negative / Token setter accept the doubled range
KF_RELMASK = "C10-KF4"  # relocations that mask the value without a range check
KF_DS_NEG = "C10-KF5"  # ds / .zero accept a negative size and emit nothing
KF_THUMB_J = "C10-KF6"  # thumb B<c>.W / BL relocations do not compute S/J1/J2 from the offset


# ---------------------------------------------------------------------------
# part 1 + 2: operands


def _enc(desc):
    try:
        return G.encoding_of(desc)
    except G.BuildError:
        return None


def leaf_table(target, cid, path, extra=()):
    """{value: encoding} over the candidate list, the edge neighbourhood and `extra`."""
    full = G._probe_full(target, cid).get(path, {})
    table = dict(full)
    base = G.base_desc(target, cid, path)
    if base is None or not full:
        return base, table
    cap = G.value_cap(G.class_by_id(target, cid))
    lo, hi = min(full), max(full)
    vals = set(extra)
    for e in (lo, hi):
        for d in (-2, -1, 1, 2):
            vals.add(e + d)
    for v in vals:
        if v in table or abs(v) > cap:
            continue
        e = _enc(dict(base, args=G.set_at(base["args"], path, v)))
        if e is not None:
            table[v] = e
    return base, table


def alias_groups(table):
    groups = collections.defaultdict(list)
    for v, e in table.items():
        groups[e].append(v)
    return [sorted(g, key=lambda v: (abs(v), v < 0)) for g in groups.values() if len(g) > 1]


class _Trace:
    """Records, while an instance is encoded, every value that reaches Token.__setitem__ (bit-field
    write) and bitfun.wrap_negative -- the two places the lead defects live in."""

    def __init__(self):
        self.calls = []

    def __enter__(self):
        import sys

        import ppci.arch.token as tok

        self._tok = tok.Token.__setitem__
        calls = self.calls
        orig = self._tok

        def setitem(obj, key, value):
            if isinstance(key, slice):
                calls.append(("tok", key.start, key.stop, value))
            return orig(obj, key, value)

        tok.Token.__setitem__ = setitem
        self._mods = []
        import ppci.utils.bitfun as bf

        worig = bf.wrap_negative

        def wn(value, bits):
            calls.append(("wn", bits, None, value))
            return worig(value, bits)

        for name, mod in list(sys.modules.items()):
            if name.startswith("ppci.") and getattr(mod, "wrap_negative", None) is worig:
                self._mods.append(mod)
                mod.wrap_negative = wn
        self._worig = worig
        # token.u8/u16/u32/u64: struct-pack signed if negative else unsigned -- the same union
        self._packers = []
        for fname, bits in (("u8", 8), ("u16", 16), ("u32", 32), ("u64", 64)):
            porig = getattr(tok, fname)

            def packer(x, _o=porig, _b=bits):
                calls.append(("wn", _b, None, x))
                return _o(x)

            for name, mod in list(sys.modules.items()):
                if name.startswith("ppci.") and getattr(mod, fname, None) is porig:
                    self._packers.append((mod, fname, porig))
                    setattr(mod, fname, packer)
        return self

    def __exit__(self, *exc):
        import ppci.arch.token as tok

        tok.Token.__setitem__ = self._tok
        for mod in self._mods:
            mod.wrap_negative = self._worig
        for mod, fname, porig in self._packers:
            setattr(mod, fname, porig)
        return False


def _trace(desc):
    with _Trace() as t:
        try:
            G.emit_direct_parts(G.build(desc))
        except Exception:
            return None
    return t.calls


def classify_alias(target, cid, path, table, a, b, base=None):
    """a, b: two accepted values with the same encoding.  Dynamic attribution: both instances are
    encoded under a tracer.  If at some bit-field write (or wrap_negative call) the two raw values
    differ but are congruent modulo the field width, the aliasing is made by Token.__setitem__ /
    wrap_negative accepting the union of the signed and unsigned range (KF1).  If every value that
    reaches a token is already identical, the operand was masked or shifted by the instruction's
    own encoder without a range check (KF2)."""
    if base is None:
        base = G.base_desc(target, cid, path)
    if base is None:
        return None
    cls = G.class_by_id(target, cid)
    if cls.__module__.endswith("data_instructions") and not getattr(cls, "tokens", None) and a >= 0 > b or (
        cls.__module__.endswith("data_instructions") and not getattr(cls, "tokens", None) and b >= 0 > a
    ):
        return KF_DS_NEG
    ta = _trace(dict(base, args=G.set_at(base["args"], path, a)))
    tb = _trace(dict(base, args=G.set_at(base["args"], path, b)))
    if ta is None or tb is None or len(ta) != len(tb):
        return None
    for x, y in zip(ta, tb):
        if x[:3] != y[:3]:
            return None
        if x[3] != y[3]:
            bits = x[2] - x[1] if x[0] == "tok" else x[1]
            m = 1 << bits
            # exactly the union-range shape: the two raw values are one field modulus apart and
            # both lie in [-2^n, 2^n) -- nothing wider is attributed to this finding
            if abs(x[3] - y[3]) == m and -m <= x[3] < m and -m <= y[3] < m:
                return KF_TOKEN
            return None
    return KF_MASK


def check_pair(case):
    """case: {"target","cls","args","path","values":[a,b]} -> message or None."""
    path = tuple(case["path"])
    a, b = case["values"]
    da = dict(target=case["target"], cls=case["cls"], args=G.set_at(case["args"], path, a))
    db = dict(target=case["target"], cls=case["cls"], args=G.set_at(case["args"], path, b))
    ea, eb = _enc(da), _enc(db)
    if ea is None or eb is None:
        return None
    if ea == eb:
        try:
            ta, tb = str(G.build(da)), str(G.build(db))
        except Exception:
            ta = tb = "?"
        return "%s %s: operands %d and %d are both accepted and encode identically (%s): %r / %r" % (
            case["target"], case["cls"], a, b, ea[0].hex(), ta, tb)
    return None


# part 2: decoded immediate == given immediate at the edges of the accepted range


def edge_values(table):
    if not table:
        return []
    vs = sorted(table)
    out = set(vs[:3] + vs[-3:])
    for v in (0, 1, -1):
        if v in table:
            out.add(v)
    return sorted(out)


def check_decode(desc, decoded=False, dec=None):
    from . import c08

    try:
        ins, text, data = c08.prepare(desc)
    except Discard:
        return None, None
    if not decoded:
        dec = L.reference_decode(desc["target"], [data])[0]
    stt, detail, diff = c08.judge(desc["target"], text, data, dec)
    if stt != "fail":
        return None, None
    if diff[0] == "operand" and diff[3][0] in ("i", "m"):
        return "decoded operand differs from the given one: " + detail, diff
    if diff[0] in ("mnemonic", "count"):
        return "operand value changes the decoded instruction: " + detail, diff
    return None, None  # register / other differences are C08's subject


# ---------------------------------------------------------------------------
# part 3: relocations

_M32 = 0xFFFFFFFF


def _bits(word, hi, lo):
    return (word >> lo) & ((1 << (hi - lo + 1)) - 1)


def _sx(v, n):
    v &= (1 << n) - 1
    return v - (1 << n) if v >> (n - 1) else v


def _le(data, n=None):
    return int.from_bytes(bytes(data[: n or len(data)]), "little")


# extractor(data bytes) -> value ; expected(S, P, A) -> value   (formulas from the ISA manuals)
def _rv_b(d):  # B-type: imm[12|10:5] rs2 rs1 f3 imm[4:1|11] opcode
    w = _le(d, 4)
    return _sx((_bits(w, 31, 31) << 12) | (_bits(w, 7, 7) << 11) | (_bits(w, 30, 25) << 5) | (_bits(w, 11, 8) << 1), 13)


def _rv_j(d):  # J-type: imm[20|10:1|11|19:12]
    w = _le(d, 4)
    return _sx((_bits(w, 31, 31) << 20) | (_bits(w, 19, 12) << 12) | (_bits(w, 20, 20) << 11) | (_bits(w, 30, 21) << 1), 21)


def _rv_u(d):
    return _bits(_le(d, 4), 31, 12)


def _rv_i(d):
    return _sx(_bits(_le(d, 4), 31, 20), 12)


def _rv_cj(d):  # CJ: offset[11|4|9:8|10|6|7|3:1|5] in bits 12..2
    w = _le(d, 2)
    v = (_bits(w, 12, 12) << 11) | (_bits(w, 11, 11) << 4) | (_bits(w, 10, 9) << 8) | (_bits(w, 8, 8) << 10)
    v |= (_bits(w, 7, 7) << 6) | (_bits(w, 6, 6) << 7) | (_bits(w, 5, 3) << 1) | (_bits(w, 2, 2) << 5)
    return _sx(v, 12)


def _rv_cb(d):  # CB: offset[8|4:3] in 12..10, offset[7:6|2:1|5] in 6..2
    w = _le(d, 2)
    v = (_bits(w, 12, 12) << 8) | (_bits(w, 11, 10) << 3) | (_bits(w, 6, 5) << 6) | (_bits(w, 4, 3) << 1) | (_bits(w, 2, 2) << 5)
    return _sx(v, 9)


def _hi20(x):  # %hi: (x + 0x800) >> 12, 20 bits
    return ((x + 0x800) >> 12) & 0xFFFFF


def _arm_imm24(d):
    return _sx(_bits(_le(d, 4), 23, 0), 24) << 2


def _arm_ldr12(d):
    w = _le(d, 4)
    v = _bits(w, 11, 0)
    return v if _bits(w, 23, 23) else -v


def _th_b11(d):  # B T2: imm11
    return _sx(_bits(_le(d, 2), 10, 0), 11) << 1


def _th_b8(d):  # B<c> T1: imm8
    return _sx(_bits(_le(d, 2), 7, 0), 8) << 1


def _th_bl(d):  # BL T1: S imm10 | J1 J2 imm11 ; I1 = not(J1 xor S)
    h1, h2 = _le(d[0:2], 2), _le(d[2:4], 2)
    s = _bits(h1, 10, 10)
    i1 = 1 - (_bits(h2, 13, 13) ^ s)
    i2 = 1 - (_bits(h2, 11, 11) ^ s)
    v = (s << 24) | (i1 << 23) | (i2 << 22) | (_bits(h1, 9, 0) << 12) | (_bits(h2, 10, 0) << 1)
    return _sx(v, 25)


def _th_bw(d):  # B<c>.W T3: S cond imm6 | J1 J2 imm11 ; imm = S:J2:J1:imm6:imm11:0
    h1, h2 = _le(d[0:2], 2), _le(d[2:4], 2)
    v = (_bits(h1, 10, 10) << 20) | (_bits(h2, 11, 11) << 19) | (_bits(h2, 13, 13) << 18) | (_bits(h1, 5, 0) << 12) | (_bits(h2, 10, 0) << 1)
    return _sx(v, 21)


def _th_lit8(d):
    return _bits(_le(d, 2), 7, 0) << 2


def _x_s32(d):
    return _sx(_le(d, 4), 32)


def _x_s8(d):
    return _sx(_le(d, 1), 8)


def _align4(x):
    return x & ~3


# (family, reloc name) -> (extractor, expected(S,P,A), "signed"/"unsigned"/"either" comparison, bits)
EXTRACT = {
    ("riscv", "b_imm12"): (_rv_b, lambda S, P, A: S - P),
    ("riscv", "b_imm20"): (_rv_j, lambda S, P, A: S - P),
    ("riscv", "cb_imm11"): (_rv_j, lambda S, P, A: S - P),
    ("riscv", "cbl_imm11"): (_rv_j, lambda S, P, A: S - P),
    ("riscv", "bc_imm11"): (_rv_cj, lambda S, P, A: S - P),
    ("riscv", "bc_imm8"): (_rv_cb, lambda S, P, A: S - P),
    ("arm", "imm24"): (_arm_imm24, lambda S, P, A: S - (P + 8)),
    ("arm", "ldr_imm12"): (_arm_ldr12, lambda S, P, A: S - (P + 8)),
    ("arm:thumb", "wrap_new11"): (_th_b11, lambda S, P, A: S - (P + 4)),
    ("arm:thumb", "rel8"): (_th_b8, lambda S, P, A: S - (P + 4)),
    ("arm:thumb", "bl_imm11"): (_th_bl, lambda S, P, A: S - (P + 4)),
    ("arm:thumb", "b_imm11_imm6"): (_th_bw, lambda S, P, A: S - (P + 4)),
    ("arm:thumb", "lit8"): (_th_lit8, lambda S, P, A: S - _align4(P + 4)),
    ("x86_64", "rel32"): (_x_s32, lambda S, P, A: S + A - P),
    ("x86_64", "jmp8"): (_x_s8, lambda S, P, A: S - (P + 1)),
}
# part relocations with a manual formula: value must equal it exactly whenever apply succeeds and
# the full value S (or S-P) fits 32 bits
PART = {
    ("riscv", "abs32_imm20"): (_rv_u, lambda S, P, A: _hi20(S)),
    ("riscv", "rel_imm20"): (_rv_u, lambda S, P, A: _hi20(S - P)),
    ("riscv", "abs32_imm12"): (_rv_i, lambda S, P, A: _sx(S, 12)),
    ("riscv", "rel_imm12"): (_rv_i, lambda S, P, A: _sx(S - (P - 4), 12)),
}
# field modulus in bytes (2^n for an n-bit signed byte offset) of the relocations with an extractor
MODULUS = {
    ("riscv", "b_imm12"): 1 << 13, ("riscv", "b_imm20"): 1 << 21, ("riscv", "cb_imm11"): 1 << 21,
    ("riscv", "cbl_imm11"): 1 << 21, ("riscv", "bc_imm11"): 1 << 12, ("riscv", "bc_imm8"): 1 << 9,
    ("arm", "imm24"): 1 << 26, ("x86_64", "rel32"): 1 << 32, ("x86_64", "jmp8"): 1 << 8,
    # without extractor here; widths from the manuals: m68k 16/32-bit displacement, OpenRISC 26-bit
    # word offset, 6502 8-bit branch offset, Xtensa CALL0 18-bit and L32R 16-bit word offsets
    ("m68k", "rel16"): 1 << 16, ("m68k", "branch_rel32"): 1 << 32, ("or1k", "jump"): 1 << 28,
    ("mcs6500", "rel8"): 1 << 8, ("xtensa", "call0"): 1 << 20, ("xtensa", "ri16"): 1 << 18,
}
# the relocation types in which the doubled range (KF3) / masking (KF4) was found; anything else
# showing the same symptom is a new violation
KF3_TYPES = set(MODULUS)
KF4_TYPES = {
    ("riscv", "abs32_imm12"), ("riscv", "abs32_imm20"), ("riscv", "rel_imm12"), ("riscv", "rel_imm20"),
    ("microblaze", "R_MICROBLAZE_64_ABS"), ("microblaze", "R_MICROBLAZE_64_PCREL"),
}
# not judged: split values whose halves are documented nowhere but in ppci
SKIP = {("avr", "ldihi"), ("avr", "ldilo"), ("or1k", "OR32_CONST"), ("or1k", "OR32_CONSTH")}
# absolute full-width data/address relocations: the field holds S modulo 2^n for every S that fits n
# bits as signed or unsigned; only aliasing beyond that (S and S+2^n both accepted) is judged
ABSOLUTE = {"absaddr16", "absaddr32", "absaddr64", "abs32", "abs64", "abs16", "abs26", "R_MICROBLAZE_64_ABS"}


def _family(target):
    return "riscv" if target.startswith("riscv") else target


def reloc_deltas(unit):
    out = {0, unit, -unit, 2 * unit, -2 * unit}
    for k in range(3, 41):
        # neighbours of the field edge, also as seen through the pc bias of the instruction set (S - (P + 4), S - (P + 8), ...)
        for d in {-unit, 0, unit, -2 * unit, 2 * unit, 4, 8, 12, -4, -8, -12, 1, -1, 2, -2}:
            out.add((1 << k) + d)
            out.add(-(1 << k) + d)
    return sorted(v for v in out if v % unit == 0)


_SITE = {}


def site_bytes(target, name):
    """Bytes of a real instruction field that carries this relocation type (the first class of
    the ISA whose default instance emits it), else zeros."""
    key = (target, name)
    if key in _SITE:
        return _SITE[key]
    rcls = G.arch(target).isa.relocation_map[name]
    try:
        size = rcls("s").size()
    except Exception:
        size = 4
    found = None
    for cid, cls in G.instruction_classes(target):
        if not G.supported(target, cid):
            continue
        if not any(k == "str" for k in _leaf_kinds(cls)):
            continue
        for path in [()] + [p for p in G.int_paths(cls)][:3]:
            base = G.base_desc(target, cid, path)
            if base is None:
                continue
            try:
                data, relocs = G.emit_direct_parts(G.build(base))
            except Exception:
                continue
            for r in relocs:
                if r.name == name and len(data[r.offset : r.offset + size]) == size:
                    found = (bytes(data[r.offset : r.offset + size]), cid, r.addend)
                    break
            if found:
                break
        if found:
            break
    _SITE[key] = found or (bytes(size), None, 0)
    return _SITE[key]


def _leaf_kinds(cls, depth=0):
    for fa in cls.syntax.formal_arguments:
        k = G.kind_of(fa._cls)
        if k == "ctor" and depth < 4:
            for sub in G.ctor_options(fa._cls):
                if sub.syntax:
                    yield from _leaf_kinds(sub, depth + 1)
        else:
            yield k


def apply_reloc(target, name, S, P, fill, addend=0):
    rcls = G.arch(target).isa.relocation_map[name]
    r = rcls("sym", offset=0, addend=addend)
    data = bytearray(site_bytes(target, name)[0])
    try:
        out = r.apply(S, data, P)
    except Exception as e:
        return None, type(e).__name__
    if out is None:
        return None, "returned None"
    return bytes(out), None


def check_reloc(case):
    """case: {"target","reloc","P","deltas":[D] or [D1,D2],"fill","addend"} -> message or None."""
    target, name = case["target"], case["reloc"]
    fam = _family(target)
    P, fill, A = case["P"], case["fill"], case.get("addend", 0)
    ds = case["deltas"]
    outs = []
    for D in ds:
        S = D if name in ABSOLUTE else P + D
        out, err = apply_reloc(target, name, S, P, fill, A)
        outs.append((S, out))
    key = (fam, name)
    if len(ds) == 1:
        S, out = outs[0]
        if out is None:
            return None
        if key in EXTRACT or key in PART:
            ext, exp = EXTRACT.get(key) or PART[key]
            want = exp(S, P, A)
            got = ext(out)
            if key in PART and not (-(1 << 31) <= (S if "abs" in name else S - P) < (1 << 31)):
                return None
            if got != want:
                return "%s relocation %s: S=%#x P=%#x A=%d accepted, field decodes to %d, manual formula gives %d (bytes %s)" % (
                    target, name, S, P, A, got, want, out.hex())
        return None
    (S1, o1), (S2, o2) = outs
    if o1 is not None and o2 is not None and o1 == o2 and S1 != S2:
        return "%s relocation %s: symbol values %#x and %#x at site %#x are both accepted and give the same bytes %s" % (
            target, name, S1, S2, P, o1.hex())
    return None


def classify_reloc(case, msg, accepted=None):
    """Root-cause buckets for relocation failures.

    KF3 (types in KF3_TYPES only): the value wraps by exactly the field modulus -- two accepted
    displacements one modulus apart give one encoding, or the extracted field is the expected value
    minus one modulus -- i.e. the relocation accepts [-2^(n-1), 2^n) instead of [-2^(n-1), 2^(n-1)).
    For types without extractor the modulus is read off the accepted interval, which must have
    exactly that doubled shape.
    KF4 (types in KF4_TYPES only): displacements a multiple of 2^32 apart are accepted alike.
    KF6: Thumb B<c>.W / BL: the S/J1/J2 bits are not derived from the offset."""
    target, name = case["target"], case["reloc"]
    fam = _family(target)
    key = (fam, name)
    ds = case["deltas"]
    if fam == "arm:thumb" and name in ("b_imm11_imm6", "bl_imm11"):
        return KF_THUMB_J
    if len(ds) == 2:
        d = abs(ds[0] - ds[1])
    else:
        ext, exp = EXTRACT.get(key) or PART.get(key)
        P, A = case["P"], case.get("addend", 0)
        S = ds[0] if name in ABSOLUTE else P + ds[0]
        out, _ = apply_reloc(target, name, S, P, case["fill"], A)
        if out is None:
            return None
        d = abs(exp(S, P, A) - ext(out))
    if d == 0:
        return None
    if key in KF4_TYPES and d % (1 << 32) == 0:
        return KF_RELMASK
    if key in KF3_TYPES:
        if d == MODULUS[key]:
            return KF_WRAPNEG
    return None


_ACCEPTED = {}


def accepted_range(target, name, P):
    """(min, max, unit) of the accepted S-P over the sweep."""
    key = (target, name, P)
    if key not in _ACCEPTED:
        unit = reloc_unit(target, name)
        addend = site_bytes(target, name)[2]
        acc = []
        for D in reloc_deltas(unit):
            S = D if name in ABSOLUTE else P + D
            if S < 0 and name in ABSOLUTE:
                continue
            out, _ = apply_reloc(target, name, S, P, 0, addend)
            if out is not None:
                acc.append(D)
        _ACCEPTED[key] = (min(acc), max(acc), unit) if acc else (None, None, unit)
    return _ACCEPTED[key]


def reloc_unit(target, name):
    fam = _family(target)
    if name == "lit8" or name.startswith("absaddr") or fam in ("arm", "mips", "or1k", "microblaze"):
        return 4
    if fam in ("x86_64", "mcs6500", "stm8"):
        return 1
    return 2


def _source_of(cls):
    import inspect

    try:
        return inspect.getsource(cls)
    except Exception:
        return ""


# ---------------------------------------------------------------------------


def replay(case):
    kind = case.get("kind")
    if kind == "alias":
        return check_pair(case)
    if kind == "decode":
        msg, diff = check_decode(case["desc"])
        return msg
    if kind == "reloc":
        return check_reloc(case)
    raise Discard("unknown case kind")


def classify(case, msg):
    kind = case.get("kind")
    if kind == "alias":
        if check_pair(case) != msg:
            return None
        path = tuple(case["path"])
        base, table = leaf_table(case["target"], case["cls"], path, extra=case["values"])
        a, b = case["values"]
        return classify_alias(case["target"], case["cls"], path, table, a, b, base=dict(target=case["target"], cls=case["cls"], args=case["args"]))
    if kind == "decode":
        m, diff = check_decode(case["desc"])
        if m != msg:
            return None
        kf = classify_decode(case["desc"], diff)
        return None if kf == "C08" else kf
    if kind == "reloc":
        if check_reloc(case) != msg:
            return None
        return classify_reloc(case, msg)
    return None


def classify_decode(desc, diff):
    """A decoded-value mismatch is the visible side of an alias already bucketed by part 1: the
    decoded value is accepted too and encodes identically (C08's alias model), or it is the
    truncation of the given value."""
    from . import c08

    try:
        ins, text, data = c08.prepare(desc)
    except Discard:
        return None
    kf = c08.explain(desc, text, data, diff)
    if kf is not None and kf not in (c08.KF_IMM_ALIAS, c08.KF_THUMB_SPNEG):
        return "C08"  # another encoding defect, reported and tracked by C08 under that id
    if kf in (c08.KF_IMM_ALIAS, c08.KF_THUMB_SPNEG):
        cls = G.class_by_id(desc["target"], desc["cls"])
        for path in G.int_paths(cls):
            if G.get_at(desc["args"], path) is None:
                continue
            full = G._probe_full(desc["target"], desc["cls"]).get(path, {})
            if full and max(abs(v) for v in full) >= 1 << 64:
                return KF_MASK
        return KF_TOKEN if kf == c08.KF_IMM_ALIAS else KF_MASK
    return None


def _operand_worker(arg):
    target, k, nchunks, seed, n_random, decode = arg
    stats = Stats()
    fails = []
    open_ids = open_finding_ids(PID)
    allc = [cid for cid, _ in G.instruction_classes(target)]
    per_kf_fail = collections.Counter()
    decode_cases = []
    # the leaves (class, int operand path) of this shard
    leaves = []
    for cid in allc[k::nchunks]:
        if not G.supported(target, cid):
            continue
        cls = G.class_by_id(target, cid)
        for path in G.int_paths(cls):
            base, table = leaf_table(target, cid, path)
            if base is None or not table:
                stats.discard("operand never accepted")
                continue
            leaves.append((cid, path, min(table), max(table), G.value_cap(cls)))
    # Hypothesis supplement (one search per shard): for a drawn leaf a value near one of the
    # accepted interval's edges or inside it, optionally translated by +-2^n
    extra = collections.defaultdict(set)
    if leaves and n_random:

        def prop(t):
            li, where, delta, frac, n, sign = t
            cid, path, lo, hi, cap = leaves[li % len(leaves)]
            if where == 0:
                v = lo + delta
            elif where == 1:
                v = hi + delta
            else:
                v = lo + ((hi - lo) * frac) // 1000
            if n:
                v += sign * (1 << n)
            if abs(v) <= cap:
                extra[(cid, path)].add(v)
            return None

        strat = st.tuples(
            st.integers(0, len(leaves) - 1), st.integers(0, 2), st.integers(-4, 4), st.integers(0, 1000),
            st.integers(0, 34), st.sampled_from([-1, 1]),
        )
        hyp_search(strat, prop, n_random * len(leaves), seed, Stats())
    for cid, path, lo, hi, cap in leaves:
        base, table = leaf_table(target, cid, path, extra=sorted(extra.get((cid, path), ())))
        lo, hi = min(table), max(table)
        aliased = set()
        memo = {}
        for g in alias_groups(table):
            a = g[0]
            for b in g[1:]:
                aliased.add(b)
            # one attribution per (leaf, distance, sign pattern); the groups of one leaf are
            # translates of each other
            mkey = (abs(a - g[1]), a < 0, g[1] < 0)
            if mkey not in memo:
                memo[mkey] = classify_alias(target, cid, path, table, a, g[1], base=base)
            kf = memo[mkey]
            if kf and kf in open_ids:
                stats.known[kf] += 1
            elif per_kf_fail[cid] < 1:
                per_kf_fail[cid] += 1
                case = {"kind": "alias", "target": target, "cls": cid, "args": base["args"], "path": list(path), "values": [a, g[1]]}
                msg = check_pair(case)
                if msg:
                    fails.append((case, msg))
        nt = sum(1 for v in table if v in aliased or min(abs(v - lo), abs(v - hi)) <= 2)
        stats.bulk(len(table), nt, {"%s/operand values" % target: len(table)})
        if aliased:
            stats.hist["%s/aliasing operand values" % target] += len(aliased)
        stats.sample({"target": target, "cls": cid, "path": list(path), "accepted_min": str(lo), "accepted_max": str(hi), "aliases": len(aliased)})
        if decode:
            for v in edge_values(table):
                if v in aliased:
                    continue  # already reported by injectivity
                decode_cases.append({"target": target, "cls": cid, "args": G.set_at(base["args"], path, v)})
    if decode and decode_cases:
        from . import c08

        prepared = []
        for d in decode_cases:
            try:
                ins, text, data = c08.prepare(d)
                prepared.append((d, data))
            except Discard:
                pass
        decs = L.reference_decode(target, [p[1] for p in prepared])
        nfail = 0
        for (d, data), dec in zip(prepared, decs):
            msg, diff = check_decode(d, decoded=True, dec=dec)
            stats.hist["%s/edge value decoded" % target] += 1
            if msg:
                kf = classify_decode(d, diff)
                if kf == "C08":
                    stats.hist["%s/edge value hits a C08 finding" % target] += 1
                elif kf and kf in open_ids:
                    stats.known[kf] += 1
                elif nfail < 3:
                    nfail += 1
                    fails.append(({"kind": "decode", "desc": d}, msg))
    return stats, fails


def _reloc_worker(arg):
    target = arg
    stats = Stats()
    fails = []
    open_ids = open_finding_ids(PID)
    fam = _family(target)
    names = sorted(n for n in G.arch(target).isa.relocation_map if target == "arm" or not n.startswith("absaddr"))
    for name in names:
        if (fam, name) in SKIP:
            stats.discard("split relocation without manual formula")
            continue
        rcls = G.arch(target).isa.relocation_map[name]
        unit = reloc_unit(target, name)
        addend = site_bytes(target, name)[2]
        nfail = 0
        stats.hist["%s/reloc %s site from %s" % (fam, name, site_bytes(target, name)[1])] += 1
        for P in (0x10000, 0x40000000):
            for fill in (0,):
                seen = {}
                for D in reloc_deltas(unit):
                    case = {"kind": "reloc", "target": target, "reloc": name, "P": P, "deltas": [D], "fill": fill, "addend": addend}
                    S = D if name in ABSOLUTE else P + D
                    if S < 0 and name in ABSOLUTE:
                        continue
                    out, err = apply_reloc(target, name, S, P, fill, addend)
                    stats.bulk(1, 1, {"%s/reloc %s" % (fam, "raised" if out is None else "applied"): 1})
                    if out is None:
                        continue
                    msg = check_reloc(case)
                    if msg:
                        kf = classify_reloc(case, msg)
                        if kf and kf in open_ids:
                            stats.known[kf] += 1
                        elif nfail < 2:
                            nfail += 1
                            fails.append((case, msg))
                    if (fam, name) in PART and not (out in seen and (seen[out] - D) % (1 << 32) == 0):
                        # hi/lo parts legitimately drop bits; only values a multiple of 2^32 apart
                        # (neither fits the 32-bit address space) must not be accepted alike
                        seen.setdefault(out, D)
                        continue
                    if out in seen and seen[out] != D:
                        c2 = dict(case, deltas=[seen[out], D])
                        msg = check_reloc(c2)
                        if msg:
                            kf = classify_reloc(c2, msg)
                            if kf and kf in open_ids:
                                stats.known[kf] += 1
                            elif nfail < 2:
                                nfail += 1
                                fails.append((c2, msg))
                    else:
                        seen[out] = D
        stats.hist["relocation types"] += 1
        stats.sample({"target": target, "reloc": name, "unit": unit})
    return stats, fails


def run(ctx):
    G.configure(thorough=not ctx.quick)
    G.preload()
    n_random = ctx.scale(8, 400)
    tasks = []
    big = {"stm8": 4, "x86_64": 6, "msp430": 4, "m68k": 3, "mcs6500": 3, "arm": 2}
    for target in G.TARGETS:
        nch = big.get(target, 2)
        for k in range(nch):
            tasks.append((target, k, nch, subseed(ctx.seed, PID, target, k), n_random, L.normaliser_family(target) is not None))
    order = {"x86_64": 0, "msp430": 1, "stm8": 2, "arm": 3}
    tasks.sort(key=lambda t: order.get(t[0], 9))
    ctx.pmap(_operand_worker, tasks)
    # relocations: each type once (the riscv family through riscv:rvc, which has all its types;
    # the data relocations absaddr16/32/64 through arm)
    rtasks = [t for t in G.TARGETS if t == "riscv:rvc" or not t.startswith("riscv")]
    ctx.pmap(_reloc_worker, rtasks)
    ctx.extra["targets_covered"] = list(G.TARGETS)
    ctx.extra["decode_targets"] = [t for t in G.TARGETS if L.normaliser_family(t)]
    ctx.extra["relocation_types_with_extractor"] = sorted("%s/%s" % k for k in list(EXTRACT) + list(PART))
