"""C07 - instruction read/write annotations match machine semantics (x86-64: native single-stepping; riscv,
riscv:rvc and arm: emulators vf/rv32.py and vf/arm32.py, each used only when its own self-check passes)."""

import re

from .. import armstep, isagen, rvstep, x86step
from ..core import Discard, HarnessError, Stats, hyp_search, jhash, open_finding_ids, subseed

PID = "C07"
TARGET = "x86_64"
RV_TARGETS = ("riscv", "riscv:rvc")
ARM_TARGET = "arm"


def is_rv(target):
    return target.startswith("riscv")


def is_arm(target):
    return target == ARM_TARGET


def is_emu(target):
    """The engine of the target is one of the emulators (RISC-V: vf/rv32.py, ARM A32: vf/arm32.py)."""
    return is_rv(target) or is_arm(target)


RULE = (
    "instruction instances AS THE CODE GENERATOR EMITS THEM, for x86_64 and (when vf/rv32.py passes its self-check) riscv and "
    "riscv:rvc and (when vf/arm32.py passes its self-check) arm (A32): the final (post register allocation) instruction list of every frame is captured by wrapping "
    "CodeGenerator.emit_frame_to_stream while compiling (a) a fixed corpus of small C idiom functions at -O0 and -O2 and "
    "one-instruction IR functions for the 8/16-bit operations, (b) Hypothesis-generated C programs (vf/gencc.py) and (c) "
    "Hypothesis-generated IR modules (vf/genir.py); every real instruction becomes a unit = (class, operands, the "
    "RegisterUseDef pseudo-instructions directly before/after it; x86 `rep` + `movsb` form one unit); each harvested unit is "
    "tested as emitted and re-instantiated with other registers / immediates / displacements of the same operand shape "
    "(vf/isagen.py, allocatable registers only). In addition EVERY class of the x86_64 / riscv / riscv:rvc / arm isa that "
    "vf/isagen.py instantiates (outside the excluded categories) is enumerated once per operand form (register mode and every "
    "memory mode of its constructor-typed operand) as a stand-alone unit WITHOUT RegisterUseDef context, judged by the class' own "
    "annotations: quick = three fixed operand tuples per form, thorough adds drawn tuples; forms that cannot be judged alone are "
    "counted needs_context. Each instance is executed (x86-64: natively through vf/x86step.c; RISC-V: "
    "vf/rv32.py; ARM: vf/arm32.py, conditional instructions included, what an encoding is at machine level - memory access, "
    "control transfer, pc operand - is read from the emulator's decoder) on boundary-biased random register files (x86: 16 GPRs, "
    "6 arithmetic flags, xmm0-15; RISC-V: x1-x31; ARM: r0-r14 and a random NZCV; address "
    "registers point into a refilled scratch arena) and, for every state, on copies that differ in the undeclared bits of ONE "
    "register. Oracle (writes): a ppci register whose bits changed must lie in the alias closure (arch.info.alias) of operand "
    "writes + clobbers + adjacent RegisterUseDef defs; (reads): runs that agree on declared reads + adjacent uses + flags + "
    "arena must agree on the declared output bits and on the arena. non-trivial = the instance names >= 2 registers "
    "(operands or adjacent uses/defs); distinct = (harvested | isa sweep, target, class, operand shape, adjacent use/def signature)"
)
ASSUMPTIONS = [
    "the host CPU implements the x86-64 architecture as documented (it is the reference machine); vf/rv32.py implements RV32IMC as documented (validated independently of ppci by its self-check, refused otherwise)",
    "x86 rflags and mxcsr are implicit machine state that ppci does not model: flag reads/writes are not annotations; both runs of a read check start from equal flags",
    "ARM: ppci has no register for the APSR either, so NZCV is implicit state under the same policy (cmp / adc / conditional execution read or write it without annotation; both runs of a read check start from the same random NZCV, the flags afterwards are not compared); vf/arm32.py implements the A32 integer instruction set as documented (validated independently of ppci by its self-check, refused otherwise)",
    "ARM push / pop: the stack pointer is documented implicit state (allowed), the registers of the list are operands and are judged; instructions whose operands include the pc, control transfers, and encodings the manual calls UNPREDICTABLE or that the emulator does not model (coprocessor, VFP) decide nothing and are excluded / discarded with a count",
    "bits 64-127 of the xmm registers are not modelled by any ppci register and are ignored",
    "adjacent RegisterUseDef pseudo-instructions (contiguous run directly before and after the instruction, labels break the run) declare the implicit operands of that instruction; an adjacent def is an output of the instruction only in the bits the instruction is observed to change",
    "re-instantiated variants keep the harvested RegisterUseDef neighbourhood (the implicit operands are fixed registers)",
    "faulting executions (SIGSEGV/SIGILL/SIGFPE/SIGBUS, emulator exceptions) decide nothing and are counted untestable",
    "pc and sp effects of control-transfer / call / push / pop classes are documented implicit state: those classes are excluded",
]
TRUSTED = [
    "CPython",
    "Hypothesis",
    "gcc (builds vf/x86step.c)",
    "the host x86-64 CPU",
    "vf/x86step.c + vf/x86step.py (trampoline, register table from Intel SDM vol.1 3.4.1 / 10.2.2)",
    "vf/rv32.py + vf/rvstep.py (RISC-V emulator with its own self-validation against llvm-mc and clang/gcc)",
    "vf/arm32.py + vf/armstep.py (ARMv7-A A32 emulator written from the ARM ARM, self-validated against llvm-mc (decode), clang-compiled C vs native gcc (semantics) and hand vectors from the manual; clang, gcc, llvm-mc are trusted for that)",
    "GNU objdump, llvm-mc (encoding guard only)",
    "vf/isagen.py, vf/gencc.py, vf/genir.py (generators)",
]
REGISTER = True
TECHNIQUE = "single-stepping of harvested and re-instantiated instructions (x86-64 natively, RISC-V and ARM A32 in validated emulators) on random register files; write-set and read-set (perturb one register) oracles against ppci's annotations"
LEVEL_TEXT = (
    "Exploration: every instruction class and operand shape the x86-64, RISC-V and ARM code generators emitted for the corpora is "
    "executed (x86-64 on the real CPU, RISC-V and ARM A32 in emulators validated independently of ppci) from random machine states; "
    "registers that change outside the declared write set and outputs that depend on undeclared registers are violations. "
    "The machine is the specification, so no per-instruction model is written for the check; only the classes the corpora "
    "reach (plus one stand-alone sweep of every isa class) are covered, thumb/m68k/mips are not executed."
)

NSTATES_QUICK = 6
NSTATES = 8
VBATCH = 12
MAX_PER_KEY = 3

# ---------------------------------------------------------------------------
# excluded instruction classes (pc / sp effects are the documented implicit state)

EXCLUDED_MNEMONICS = {
    "jmp": "control transfer",
    "jmpshort": "control transfer",
    "call": "call/ret",
    "ret": "call/ret",
    "push": "push/pop",
    "pop": "push/pop",
    "int": "interrupt/syscall",
    "syscall": "interrupt/syscall",
}


def excluded_reason(cls, target=TARGET, ins=None):
    from ppci.arch.generic_instructions import ArtificialInstruction

    if issubclass(cls, ArtificialInstruction) and not is_emu(target):
        return "pseudo push/pop"
    if is_arm(target):
        # decided by the reference decoder of the emulator, not by ppci's class tables
        if isagen.is_data_pseudo(cls) or cls.__module__.endswith("data_instructions"):
            return "data pseudo-instruction"
        try:
            d = armstep.info(isagen.emit_direct_parts(ins)[0]) if ins is not None else None
        except Exception:
            return None
        if d is not None and d.control:
            return "control transfer"
        if d is not None and d.pc_operand:
            return "pc operand"
        return None
    if is_rv(target):
        # decided by the reference decoder of the emulator, not by ppci's class tables
        if isagen.is_data_pseudo(cls) or cls.__module__.endswith("data_instructions"):
            return "data pseudo-instruction"
        try:
            d = rvstep.decode_code(isagen.emit_direct_parts(ins)[0]) if ins is not None else None
        except Exception:
            return None
        if d is not None and d[0] in rvstep.CONTROL_OPS:
            return "control transfer"
        return None
    m = isagen.mnemonic(cls)
    if m in EXCLUDED_MNEMONICS:
        return EXCLUDED_MNEMONICS[m]
    if re.fullmatch(r"j[a-z]{1,3}", m):
        return "control transfer"
    if isagen.is_data_pseudo(cls) or cls.__module__.endswith("data_instructions"):
        return "data pseudo-instruction"
    return None


EXCLUDED_CLASSES_DOC = [
    "arm: b / b<cond> / bl / blx and every write of the pc (control transfer), adr and ldr literal (pc operand), data pseudo-instructions; mcr / mrc are not executed by the emulator (counted 'isa form not judged'); push / pop ARE judged (sp implicit)",
    "control transfer (jmp, jcc, jmpshort, jmp r/m)",
    "call / call *reg / ret",
    "push / pop (and the xmm push/pop pseudo-instructions)",
    "int / syscall",
    "data pseudo-instructions (db dw dd dq ...)",
    "inline assembly",
    "prologue / epilogue (not part of the post-allocation frame)",
]

# ---------------------------------------------------------------------------
# capturing the final instruction lists

_CAPTURED = []
_HOOKED = []


def _install_hook():
    from ppci.codegen import codegen as cgmod

    if _HOOKED:
        return
    orig = cgmod.CodeGenerator.emit_frame_to_stream

    def emit_frame_to_stream(self, frame, output_stream, debug=False):
        _CAPTURED.append((frame.name, list(frame.instructions)))
        return orig(self, frame, output_stream, debug=debug)

    cgmod.CodeGenerator.emit_frame_to_stream = emit_frame_to_stream
    _HOOKED.append(orig)


_ARCH = {}


def arch(target=TARGET):
    """One architecture object per target and process, shared with vf/isagen.py."""
    if target not in _ARCH:
        _ARCH[target] = isagen.arch(target)
    return _ARCH[target]


def compile_src(src):
    """Compile a source description for x86-64 and return the captured frames
    [(function name, [instruction objects])].  ppci failing to compile is another property's
    subject: Discard."""
    import io

    _install_hook()
    del _CAPTURED[:]
    target = src.get("target", TARGET)
    try:
        if src["kind"] == "c":
            from ppci.api import cc

            cc(io.StringIO(src["text"]), arch(target), opt_level=src.get("opt", 0))
        elif src["kind"] == "ir":
            from ppci.api import ir_to_object, optimize

            from .. import genir

            m = genir.build(src["desc"])
            if src.get("opt", 0):
                optimize(m, level=src["opt"])
            ir_to_object([m], arch(target))
        else:
            raise HarnessError("unknown source kind %r" % (src.get("kind"),))
    except HarnessError:
        raise
    except Exception as e:
        raise Discard("ppci failed to compile the source (%s)" % type(e).__name__)
    frames = list(_CAPTURED)
    del _CAPTURED[:]
    return frames


# ---------------------------------------------------------------------------
# units

_REGS_BY_ID = {}  # family -> {(class name, register name): register object}


def family(target):
    return "rv" if is_rv(target) else "arm" if is_arm(target) else "x86"


def _regmap(target):
    fam = family(target)
    if fam not in _REGS_BY_ID:
        from ppci.arch.registers import Register

        if fam == "rv":
            from ppci.arch.riscv import registers as R
        elif fam == "arm":
            from ppci.arch.arm import registers as R
        else:
            from ppci.arch.x86_64 import registers as R
        m = {}
        for v in vars(R).values():
            if isinstance(v, Register) and v._num is not None:
                m.setdefault((type(v).__name__, v.name), v)
        _REGS_BY_ID[fam] = m
    return _REGS_BY_ID[fam]


def _reg_by_id(target, cname, name):
    try:
        return _regmap(target)[(cname, name)]
    except KeyError:
        raise Discard("no register %s %s" % (cname, name))


def _real(reg):
    """The hardware register a (coloured virtual) register stands for."""
    if reg._num is not None:
        return reg
    try:
        return reg.get_real()
    except NotImplementedError:
        for r in type(reg).all_registers():
            if r.num == reg.color:
                return r
        raise


def _rid(reg):
    reg = _real(reg)
    return [type(reg).__name__, reg.name]


def locate(target, reg):
    return rvstep.locate(reg) if is_rv(target) else armstep.locate(reg) if is_arm(target) else x86step.locate(reg)


def _describe_args(obj):
    out = []
    for fa in obj.syntax.formal_arguments:
        k = isagen.kind_of(fa._cls)
        v = getattr(obj, fa._name)
        if k == "reg":
            out.append(["r", isagen.reg_id_of(fa._cls, _real(v))])
        elif k in ("int", "str"):
            out.append(v)
        elif k == "ctor":
            sub = _describe_args(v)
            if sub is None:
                return None
            out.append(["c", type(v).__name__, sub])
        else:
            return None
    return out


def _shape(args):
    out = []
    for a in args:
        if isinstance(a, list) and a and a[0] == "r":
            out.append("r")
        elif isinstance(a, list) and a and a[0] == "c":
            out.append("%s(%s)" % (a[1], _shape(a[2])))
        elif isinstance(a, str):
            out.append("L")
        else:
            out.append("i")
    return ",".join(out)


REP_MOVSB = "Rep+Movsb"


def class_id(target, cls):
    """isagen's class id, or "py:<module>:<name>" for classes that are not registered in the isa
    (the RISC-V pseudo-instructions that pick the compressed or the base encoding when emitted)."""
    cid = isagen.class_id_of(target, cls)
    if cid is None and getattr(cls, "syntax", None):
        return "py:%s:%s" % (cls.__module__, cls.__name__)
    return cid


def class_of(target, cid):
    if cid.startswith("py:"):
        import importlib

        _, mod, name = cid.split(":")
        if not mod.startswith("ppci.arch."):
            raise Discard("class outside ppci.arch")
        try:
            return getattr(importlib.import_module(mod), name)
        except (ImportError, AttributeError):
            raise Discard("no class %s" % cid)
    try:
        return isagen.class_by_id(target, cid)
    except isagen.BuildError as e:
        raise Discard(str(e))


def build_instruction(desc):
    if desc["cls"].startswith("py:"):
        cls = class_of(desc["target"], desc["cls"])
        return cls(*isagen._build_args(desc["target"], cls, desc["args"]))
    return isagen.build(desc)


class Unit:
    """One harvested machine instruction with its RegisterUseDef neighbourhood."""

    def __init__(self, cid, args, uses, defs, clobbers, fname, code, target=TARGET):
        self.target = target
        self.cid = cid
        self.args = args
        self.uses = sorted(uses)
        self.defs = sorted(defs)
        self.clobbers = sorted(clobbers)
        self.fname = fname
        self.code = code
        self.key = "%s%s|%s|u:%s|d:%s" % (
            target + "!" if target != TARGET else "",
            cid,
            _shape(args),
            ",".join(n for _, n in self.uses),
            ",".join(n for _, n in self.defs),
        )

    def desc(self, args=None):
        return {"target": self.target, "cls": self.cid, "args": self.args if args is None else args}


def harvest(frames, stats=None, target=TARGET):
    """[(fname, instructions)] -> [Unit] in emission order."""
    from ppci.arch.generic_instructions import (
        ArtificialInstruction,
        InlineAssembly,
        PseudoInstruction,
        RegisterUseDef,
        VirtualInstruction,
    )

    units = []
    for fname, instructions in frames:
        n = len(instructions)

        def usedefs(idxs):
            u, d = [], []
            for j in idxs:
                u.extend(_rid(r) for r in instructions[j].extra_uses)
                d.extend(_rid(r) for r in instructions[j].extra_defs)
            return u, d

        def run_before(i):
            j = i - 1
            out = []
            while j >= 0 and isinstance(instructions[j], RegisterUseDef):
                out.append(j)
                j -= 1
            return out

        def run_after(i):
            j = i + 1
            out = []
            while j < n and isinstance(instructions[j], RegisterUseDef):
                out.append(j)
                j += 1
            return out

        i = 0
        while i < n:
            ins = instructions[i]
            cls = type(ins)
            if isinstance(ins, RegisterUseDef) or isinstance(ins, PseudoInstruction):
                i += 1
                continue
            if isinstance(ins, InlineAssembly):
                if stats is not None:
                    stats.hist["excluded:inline assembly"] += 1
                i += 1
                continue
            rv_pseudo = is_rv(target) and isinstance(ins, ArtificialInstruction) and getattr(cls, "syntax", None)
            if (isinstance(ins, (ArtificialInstruction, VirtualInstruction)) and not rv_pseudo) or not getattr(cls, "syntax", None):
                if stats is not None:
                    stats.hist["excluded:pseudo/virtual"] += 1
                i += 1
                continue
            why = excluded_reason(cls, target, ins)
            if why is not None:
                if stats is not None:
                    stats.hist["excluded:" + why] += 1
                i += 1
                continue
            cid = class_id(target, cls)
            if cid == "Rep" and not is_emu(target):
                # rep ; [usedefs] ; movsb  -> one machine instruction
                mid = run_after(i)
                j = i + 1 + len(mid)
                if j < n and isagen.class_id_of(TARGET, type(instructions[j])) == "Movsb":
                    idxs = run_before(i) + mid + run_after(j)
                    u, d = usedefs(idxs)
                    clob = [_rid(r) for r in list(ins.clobbers) + list(instructions[j].clobbers)]
                    units.append(Unit(REP_MOVSB, [], u, d, clob, fname, ins.encode() + instructions[j].encode()))
                    i = j + 1
                    continue
                if stats is not None:
                    stats.hist["excluded:lone rep prefix"] += 1
                i += 1
                continue
            args = _describe_args(ins) if cid is not None else None
            if args is None:
                if stats is not None:
                    stats.hist["excluded:undescribable"] += 1
                i += 1
                continue
            u, d = usedefs(run_before(i) + run_after(i))
            try:
                code = isagen.emit_direct_parts(ins)[0]
            except Exception:
                if stats is not None:
                    stats.hist["excluded:unencodable"] += 1
                i += 1
                continue
            units.append(Unit(cid, args, u, d, [_rid(r) for r in ins.clobbers], fname, code, target))
            i += 1
    return units


# ---------------------------------------------------------------------------
# instance = unit (+ optional replacement operands) -> everything the oracle needs


class _RepMovsb:
    """`rep` and `movsb` are two ppci instructions that make one machine instruction."""

    def __init__(self):
        self.parts = [isagen.class_by_id(TARGET, "Rep")(), isagen.class_by_id(TARGET, "Movsb")()]
        self.clobbers = []

    def encode(self):
        return b"".join(p.encode() for p in self.parts)

    @property
    def used_registers(self):
        return [r for p in self.parts for r in p.used_registers]

    @property
    def defined_registers(self):
        return [r for p in self.parts for r in p.defined_registers]

    def __str__(self):
        return " ".join(str(p) for p in self.parts)


_ALIAS = {}  # family -> {id(register): alias set}


def alias_of(target, reg):
    """ppci's alias set of a register: arch.info.alias where it has an entry, else the same
    relation computed from the registers' own `aliases` attributes."""
    fam = family(target)
    if fam not in _ALIAS:
        info = arch(target).info.alias
        regs = list(_regmap(target).values())
        down = {}
        table = {}

        def subs(r):
            if id(r) not in down:
                s = []
                for a in r.aliases:
                    s.append(a)
                    s.extend(subs(a))
                down[id(r)] = s
            return down[id(r)]

        for r in regs:
            if r in info:
                table[id(r)] = set(info[r])
            else:
                s = {r} | set(subs(r))
                for q in regs:
                    if any(x is r for x in subs(q)):
                        s.add(q)
                table[id(r)] = s
        _ALIAS[fam] = table
    return _ALIAS[fam].get(id(reg), {reg})


_ALLREGS = {}


def all_regs(target=TARGET):
    """[(register object, file, index, offset, width)] for every ppci register of the target with
    a place in the architectural table."""
    fam = family(target)
    if fam not in _ALLREGS:
        out = []
        for r in _regmap(target).values():
            loc = locate(target, r)
            if loc is not None:
                out.append((r,) + loc)
        _ALLREGS[fam] = out
    return _ALLREGS[fam]


_BYFULL = {}


def regs_by_full(target=TARGET):
    """{(file, index): [(register object, offset, width)] widest first}"""
    fam = family(target)
    if fam not in _BYFULL:
        t = {}
        for r, f, i, lo, w in all_regs(target):
            t.setdefault((f, i), []).append((r, lo, w))
        for f, n in (("g", 32 if fam == "rv" else 16),) + ((("x", 16),) if fam == "x86" else ()):
            for i in range(n):
                t.setdefault((f, i), [])
                t[(f, i)].sort(key=lambda e: (-e[2], e[1]))
        _BYFULL[fam] = t
    return _BYFULL[fam]


def _mask(lo, width):
    return ((1 << width) - 1) << lo


def full_name(f, i, target=TARGET):
    if is_rv(target):
        return "x%d" % i
    if is_arm(target):
        return "r%d" % i
    return x86step.GPR[i] if f == "g" else "xmm%d" % i


def reg_bit(f, i):
    """Position of a full register in the `changed` bit sets of the engines."""
    return i if f == "g" else 16 + i


class Instance:
    def __init__(self, unit, args=None):
        self.unit = unit
        self.implicit_sp = False
        self.nsub = 1
        self.target = t = unit.target
        self.rv = is_rv(t)
        self.arm = is_arm(t)
        self.emu = self.rv or self.arm
        self.engine = family(t)
        self.conditional = False
        self._suspect = None
        self.args = unit.args if args is None else args
        if unit.cid == REP_MOVSB:
            self.ins = _RepMovsb()
            clob = []
        else:
            try:
                self.ins = build_instruction(unit.desc(self.args))
            except isagen.BuildError as e:
                raise Discard("cannot build instance: %s" % e)
            clob = [_reg_by_id(t, c, n) for c, n in unit.clobbers]
        try:
            from ppci.arch.generic_instructions import ArtificialInstruction

            if self.rv and isinstance(self.ins, ArtificialInstruction):
                # RISC-V pseudo-instructions (the allocator saw their annotations) render to the
                # compressed or the base encoding when they are emitted
                # (a few render to a short straight-line sequence, e.g. lui + addi for a constant)
                subs = list(self.ins.render())
                if not 1 <= len(subs) <= 3:
                    raise Discard("pseudo-instruction renders to %d machine instructions" % len(subs))
                self.code = b"".join(x.encode() for x in subs)
                self.text = "; ".join(str(x) for x in subs)
                self.nsub = len(subs)
            else:
                self.code = self.ins.encode()
                self.text = str(self.ins)
        except Discard:
            raise
        except Exception as e:
            raise Discard("instance not encodable (%s)" % type(e).__name__)
        if not 0 < len(self.code) <= x86step.MAXCODE:
            raise Discard("instance encodes to %d bytes" % len(self.code))
        uses = [_reg_by_id(t, c, n) for c, n in unit.uses]
        defs = [_reg_by_id(t, c, n) for c, n in unit.defs]
        self.reads = [_real(r) for r in self.ins.used_registers] + uses
        self.writes = [_real(r) for r in self.ins.defined_registers] + defs
        self.clobbers = clob
        self.closure = set()
        for r in self.writes + self.clobbers:
            self.closure |= {id(q) for q in alias_of(t, r)}
        self.readmask = {}
        for r in self.reads:
            loc = locate(t, r)
            if loc is not None:
                f, i, lo, w = loc
                self.readmask[(f, i)] = self.readmask.get((f, i), 0) | _mask(lo, w)
        # declared output bits: the instruction's own operand writes, and (separately) the adjacent
        # RegisterUseDef defs -- those only count where the instruction is seen to write (a def can
        # also be a pure liveness marker for a value that other instructions produce)
        self.outmask = {}
        self.adjmask = {}
        for r in self.ins.defined_registers:
            loc = locate(t, _real(r))
            if loc is not None:
                f, i, lo, w = loc
                self.outmask[(f, i)] = self.outmask.get((f, i), 0) | _mask(lo, w)
        for r in defs:
            loc = locate(t, r)
            if loc is not None:
                f, i, lo, w = loc
                self.adjmask[(f, i)] = self.adjmask.get((f, i), 0) | _mask(lo, w)
        # machine-level address operands, read off the operand shape (not off ppci's annotations)
        self.mem = None  # (base gpr index, index gpr index | None, displacement)
        self.addr_regs = set()
        self.unsupported_mem = None
        self.mnemonic = "rep movsb" if unit.cid == REP_MOVSB else isagen.mnemonic(class_of(t, unit.cid))
        if self.rv:
            self._scan_rv()
            if self.implicit_sp:
                sp = _reg_by_id(t, "RiscvRegister", "x2")
                self.closure |= {id(q) for q in alias_of(t, sp)}
                self.readmask[("g", 2)] = 0xFFFFFFFF
        elif self.arm:
            self._scan_arm()
            if self.implicit_sp:
                sp = _reg_by_id(t, "ArmRegister", "SP")
                self.closure |= {id(q) for q in alias_of(t, sp)}
                self.readmask[("g", 13)] = 0xFFFFFFFF
        else:
            self._scan_mem(self.args)
        if unit.cid in (REP_MOVSB, "Movsb"):
            self.addr_regs = {6, 7}
        self.nregs = len({(type(r).__name__, r.name) for r in self.reads + self.writes})

    def _gidx(self, name):
        return x86step.GPR.index(name)

    def _scan_rv(self):
        """RISC-V: what the instruction is at machine level comes from the emulator's decoder."""
        pos = 0
        n = 0
        while pos < len(self.code):
            d = rvstep.decode_code(self.code[pos:])
            if d is None:
                raise Discard("the reference emulator cannot decode the encoding")
            if d[5] == 2 and 2 in (d[1], d[2]) and '"x2"' not in repr(self.args).replace("'", '"'):
                # compressed stack-pointer forms (c.lwsp, c.swsp, c.addi4spn, c.addi16sp): sp is not an
                # operand of the instruction but documented implicit state
                self.implicit_sp = True
            if d[0] in rvstep.CONTROL_OPS:
                raise Discard("control transfer (excluded class)")
            if d[0] in rvstep.MEM_OPS:
                if pos or d[5] != len(self.code):
                    raise Discard("memory access inside a multi-instruction sequence")
                self.mem = (d[2], None, d[4])
                self.addr_regs = {d[2]}
            pos += d[5]
            n += 1
        if n != self.nsub:
            raise Discard("instance encodes to %d machine instructions, ppci renders %d" % (n, self.nsub))

    def _scan_arm(self):
        """ARM: what the instruction is at machine level comes from the emulator's decoder."""
        d = armstep.info(self.code)
        if d is None:
            raise Discard("instance does not encode to one A32 word")
        if d.bad is not None:
            raise Discard("the reference emulator does not execute the encoding (%s)" % d.bad.split(":")[0])
        if d.control:
            raise Discard("control transfer (excluded class)")
        if d.pc_operand:
            raise Discard("pc operand (excluded)")
        self.conditional = d.cond != 14
        named = set()

        def walk(args):
            for a in args:
                if isinstance(a, list) and a and a[0] == "r":
                    named.add(a[1])
                elif isinstance(a, list) and a and a[0] == "c":
                    walk(a[2])
                elif isinstance(a, list) and a and a[0] == "s":
                    named.update(a[1])

        walk(self.args)
        if d.mem is not None:
            base, index, shift, sign, lo, hi = d.mem
            self.mem = d.mem
            self.addr_regs = {base} | ({index} if index is not None and sign else set())
            if base == 13 and "SP" not in named:
                # push / pop: the stack pointer is not an operand of the instruction but documented implicit state
                self.implicit_sp = True

    def suspect_mask(self):
        """Bit set (bit i: gpr i, bit 16+i: xmm i) of the full registers that are NOT entirely inside
        the alias closure of the declared writes: a change there needs the bit-level check."""
        if self._suspect is None:
            m = 0
            for (f, i), regs in regs_by_full(self.target).items():
                if not regs or not all(id(r) in self.closure for r, _, _ in regs):
                    m |= 1 << reg_bit(f, i)
            self._suspect = m
        return self._suspect

    def _scan_mem(self, args):
        for a in args:
            if isinstance(a, list) and a and a[0] == "c":
                n, sub = a[1], a[2]
                if n == "RmMem":
                    self.mem = (self._gidx(sub[0][1]), None, 0)
                elif n == "RmMemDisp":
                    self.mem = (self._gidx(sub[0][1]), None, sub[1])
                elif n == "RmMemDisp2":
                    self.mem = (self._gidx(sub[0][1]), self._gidx(sub[1][1]), sub[2])
                elif n == "RmAbs":
                    if not (A + 256 <= sub[0] <= A + x86step.ARENA_SIZE - 256):
                        self.unsupported_mem = n
                elif n == "RmRip":
                    ea = x86step.CODE_BASE + len(self.code) + sub[0]
                    if not (A + 256 <= ea <= A + x86step.ARENA_SIZE - 256):
                        self.unsupported_mem = n
                elif n == "RmAbsLabel":
                    self.unsupported_mem = n
                else:
                    self._scan_mem(sub)
        if self.mem is not None:
            self.addr_regs = {self.mem[0]} | ({self.mem[1]} if self.mem[1] is not None else set())


# ---------------------------------------------------------------------------
# machine states

A = x86step.ARENA_BASE
M64 = x86step.M64


def _rv_state(rng):
    g = [x86step.biased64(rng) & 0xFFFFFFFF for _ in range(32)]
    g[0] = 0
    return {"g": g, "x": []}


def _shape_state_rv(inst, st, rng):
    if inst.mem is not None:
        base, _, imm = inst.mem
        t = 512 + rng.below(rvstep.ARENA_SIZE - 1024)
        if rng.below(4):
            t &= ~3
        if base != 0:
            st["g"][base] = (rvstep.ARENA_BASE + t - imm) & 0xFFFFFFFF


def _arm_state(rng):
    g = [x86step.biased64(rng) & 0xFFFFFFFF for _ in range(16)]
    g[15] = 0
    return {"g": g, "x": [], "f": rng.below(16)}


def _shape_state_arm(inst, st, rng):
    """Registers that form the address point into the arena (word aligned for the multi-word transfers)."""
    if inst.mem is None:
        return
    base, index, (stype, amt), sign, lo, hi = inst.mem
    g = st["g"]
    t = 512 + rng.below(armstep.ARENA_SIZE - 1024 - (hi - lo))
    if hi - lo > 4 or rng.below(4):
        t &= ~3
    target = armstep.ARENA_BASE + t - lo  # value of base (+|-) offset register
    if index is None or sign == 0:
        g[base] = target & 0xFFFFFFFF
        return
    if index == base:
        if stype == 0 and amt == 0 and sign == 1:
            g[base] = ((target & ~1) >> 1) & 0xFFFFFFFF
        return  # other shapes: the access faults and the state is counted untestable
    from .. import arm32

    iv = rng.pick((0, 1, 4, rng.below(64), (-rng.below(16)) & 0xFFFFFFFF))
    g[index] = iv
    off = arm32.shift_c(iv, stype, amt, (st["f"] >> 1) & 1)[0]
    g[base] = (target - sign * off) & 0xFFFFFFFF


def _perturbations_arm(inst, st, rng, sidx=0):
    out = []
    flip = sidx & 1
    for i in range(15):
        pm = ~inst.readmask.get(("g", i), 0) & 0xFFFFFFFF
        if not pm:
            continue
        v = st["g"][i]
        if i in inst.addr_regs:
            nv = (v + 4 * (1 + rng.below(8))) & 0xFFFFFFFF
        else:
            low = pm & -pm
            nv = v ^ low if flip else (v & ~pm & 0xFFFFFFFF) | (x86step.biased64(rng) & pm)
            if nv == v:
                nv = v ^ low
        out.append(("g", i, nv))
    return out


def _perturbations_rv(inst, st, rng, sidx=0):
    out = []
    flip = sidx & 1
    for i in range(1, 32):
        pm = ~inst.readmask.get(("g", i), 0) & 0xFFFFFFFF
        if not pm:
            continue
        v = st["g"][i]
        if i in inst.addr_regs:
            nv = (v + 4 * (1 + rng.below(16))) & 0xFFFFFFFF
        else:
            low = pm & -pm
            nv = v ^ low if flip else (v & ~pm & 0xFFFFFFFF) | (x86step.biased64(rng) & pm)
            if nv == v:
                nv = v ^ low
        out.append(("g", i, nv))
    return out


def _shape_state(inst, st, rng):
    g = st["g"]
    if inst.mem is not None:
        base, index, disp = inst.mem
        t = 1024 + rng.below(5000)
        if rng.below(2):
            t &= ~15
        if index is None:
            g[base] = (A + t - disp) & M64
        elif index == base:
            v = (A + t - disp) & M64
            g[base] = (v & ~1) >> 1
        else:
            iv = rng.pick((0, 1, 8, rng.below(256), (-rng.below(64)) & M64))
            g[index] = iv
            g[base] = (A + t - disp - iv) & M64
    if inst.unit.cid in (REP_MOVSB, "Movsb"):
        g[6] = A + 1024 + rng.below(2000)
        g[7] = A + 4096 + rng.below(2000) if rng.below(4) else g[6] + rng.below(40)
    if inst.unit.cid == REP_MOVSB:
        g[1] = rng.below(48)
    if inst.mnemonic in ("div", "idiv") and inst.mem is None:
        _shape_division(inst, st, rng)


def _shape_division(inst, st, rng):
    """Make most divisions succeed: high half = zero / sign extension (or a small value), divisor large."""
    g = st["g"]
    regs = [r for r in inst.ins.used_registers]
    if not regs:
        return
    loc = x86step.locate(regs[0].get_real())
    if loc is None or loc[0] != "g":
        return
    _, d, _, w = loc
    wm = (1 << w) - 1
    if d not in (0, 2):
        mag = (1 << (w - 2 - rng.below(w // 2))) | (rng.next() & ((1 << (w // 2)) - 1))
        val = mag if (inst.mnemonic == "div" or rng.below(2)) else (-mag) & wm
        g[d] = (g[d] & ~wm & M64) | (val & wm)
    c = rng.below(4)
    if inst.mnemonic == "div":
        hi = 0 if c else rng.pick((1, 2, 3))
    else:
        sign = (g[0] >> (w - 1)) & 1
        hi = (wm if sign else 0) if c else rng.pick((0, 1, wm, wm - 1))
    g[2] = (g[2] & ~wm & M64) | hi


def _perturbations(inst, st, rng, sidx=0):
    """[(file, index, new value)]: for every register one value that differs from the state only
    in bits the instance does not declare as read (and that ppci models).  Even states get a fresh
    boundary-biased value in those bits, odd states a single flipped bit (the lowest undeclared
    one) -- a small change keeps e.g. a division from overflowing."""
    out = []
    flip = sidx & 1
    for i in range(16):
        pm = ~inst.readmask.get(("g", i), 0) & M64
        if not pm:
            continue
        v = st["g"][i]
        if i in inst.addr_regs or (inst.unit.cid == REP_MOVSB and i == 1):
            # undeclared address / count register: stay inside the arena
            step = 1 + rng.below(8) if (i == 1 and inst.unit.cid == REP_MOVSB) else 16 * (1 + rng.below(8))
            nv = (v + step) & M64
            if (nv ^ v) & pm:
                out.append(("g", i, nv))
            continue
        low = pm & -pm
        nv = v ^ low if flip else (v & ~pm & M64) | (x86step.biased64(rng) & pm)
        if nv == v:
            nv = v ^ low
        out.append(("g", i, nv))
    for i in range(16):
        pm = ~inst.readmask.get(("x", i), 0) & M64
        if not pm:
            continue
        v = st["x"][i]
        low = pm & -pm
        nv = v ^ low if flip else (v & ~pm & x86step.M128) | (x86step.biased_xmm(rng) & pm)
        if nv == v:
            nv = v ^ low
        out.append(("x", i, nv))
    return out


# ---------------------------------------------------------------------------
# the oracle


class Failure:
    def __init__(self, kind, inst, reg, out, detail):
        self.kind = kind  # "WRITE" | "READ"
        self.target = inst.target
        self.cid = inst.unit.cid
        self.reg = reg  # full register that changed undeclared / that was perturbed
        self.out = out  # READ: output that differed (full register name or "arena")
        self.text = inst.text
        self.rm_reg = _rm_register(inst)
        self.detail = detail

    def line(self):
        return "%s tgt=%s cls=%s reg=%s out=%s rm=%s :: `%s` %s" % (self.kind, self.target, self.cid, self.reg, self.out or "-", self.rm_reg or "-", self.text, self.detail)


_LINE = re.compile(r"^(WRITE|READ) tgt=(\S+) cls=(\S+) reg=(\S+) out=(\S+) rm=(\S+) :: ")


def _rm_register(inst):
    """"<full register>@<operand position>" of the r/m operand when it is in register mode
    (RmReg8/16/32/64), else None."""
    if inst.arm:
        # ARM: "<full register>@<position>" of the first register operand (the destination / transferred register),
        # or "set:<r>+<r>..." for a register-list operand; the classifiers of the known findings name it
        def num(name):
            for cname in ("ArmRegister", "LowArmRegister"):
                r = _regmap(inst.target).get((cname, name.split("#")[0]))
                if r is not None and armstep.locate(r):
                    return armstep.locate(r)[1]
            return None

        for pos, a in enumerate(inst.args):
            if isinstance(a, list) and a and a[0] == "s":
                nums = sorted(n for n in (num(x) for x in a[1]) if n is not None)
                return "set:" + "+".join("r%d" % n for n in nums)
            if isinstance(a, list) and a and a[0] == "r":
                n = num(a[1])
                return None if n is None else "r%d@%d" % (n, pos)
        return None
    if inst.emu:
        return None
    for pos, a in enumerate(inst.args):
        if isinstance(a, list) and a and a[0] == "c" and (a[1].startswith("RmReg") or a[1].startswith("RmXmmReg")):
            cls = {"RmReg8": "Register8", "RmReg16": "Register16", "RmReg32": "Register32", "RmReg64": "Register64", "RmXmmReg": "XmmRegisterDouble", "RmXmmRegSingle": "XmmRegisterSingle"}.get(a[1])
            loc = x86step.REGTABLE.get((cls, a[2][0][1].split("#")[0]))
            if loc:
                return "%s@%d" % (full_name(loc[0], loc[1]), pos)
    return None


def _fmt_decl(regs):
    return "{" + ", ".join(sorted({"%s" % r.name + ("s" if type(r).__name__ == "XmmRegisterSingle" else "") for r in regs})) + "}"


class _Job:
    """Execution plan of one instance: per state the base run and ONE group run in which the
    undeclared bits of every register are perturbed at once; only when the group run disagrees
    with the base run (or faults) are the registers perturbed one at a time, with the same values,
    to name the register the output depends on."""

    def __init__(self, inst, seed, nstates):
        if inst.unsupported_mem:
            raise Discard("memory operand %s is not placed in the arena" % inst.unsupported_mem)
        self.inst = inst
        self.seed = seed
        self.nstates = nstates
        rng = x86step.Rng(seed)
        self.states = []
        self.aseeds = []
        self.perts = []
        for s in range(nstates):
            if inst.rv:
                st = _rv_state(rng)
                _shape_state_rv(inst, st, rng)
                aseed = rng.next()
                perts = _perturbations_rv(inst, st, rng, s)
            elif inst.arm:
                st = _arm_state(rng)
                _shape_state_arm(inst, st, rng)
                aseed = rng.next()
                perts = _perturbations_arm(inst, st, rng, s)
            else:
                st = x86step.random_state(rng)
                _shape_state(inst, st, rng)
                aseed = rng.next()
                perts = _perturbations(inst, st, rng, s)
            self.states.append(st)
            self.aseeds.append(aseed)
            self.perts.append(perts)
        self._base = {}

    def _apply(self, s, perts):
        """The engine's input for state s with the given perturbations applied."""
        inst, st = self.inst, self.states[s]
        if inst.emu:
            g = list(st["g"])
            for _, i, nv in perts:
                g[i] = nv
            return (inst.code, {"g": g, "f": st.get("f", 0)}, self.aseeds[s])
        if s not in self._base:
            self._base[s] = x86step.pack_record(inst.code, self.aseeds[s], st)
        if not perts:
            return self._base[s]
        rec = bytearray(self._base[s])
        for f, i, nv in perts:
            if f == "g":
                off = x86step.GPR_OFF + 8 * i
                rec[off : off + 8] = nv.to_bytes(8, "little")
            else:
                off = x86step.XMM_OFF + 16 * i
                rec[off : off + 16] = nv.to_bytes(16, "little")
        return bytes(rec)

    def round1(self):
        """[(state, None | perturbation list)], records"""
        plan, recs = [], []
        for s in range(self.nstates):
            plan.append((s, None))
            recs.append(self._apply(s, ()))
            if self.perts[s]:
                plan.append((s, self.perts[s]))
                recs.append(self._apply(s, self.perts[s]))
        return plan, recs

    def round2(self, flagged):
        plan, recs = [], []
        for s in flagged:
            for p in self.perts[s]:
                plan.append((s, [p]))
                recs.append(self._apply(s, [p]))
        return plan, recs


def evaluate(inst, seed, nstates, counters=None):
    """Run one instance on nstates random states (+ perturbed copies).  Returns [Failure] (one per
    (kind, register, output)); counters (dict) receives execution statistics."""
    r = evaluate_many([(inst, seed, nstates)], counters)[0]
    if isinstance(r, Discard):
        raise r
    return r


def _run_engines(batches):
    """batches: [(engine "x86" | "rv" | "arm", records)] -> [results]; all x86 records share one stepper request."""
    pools = {"x86": [], "rv": [], "arm": []}
    where = []
    for eng, recs in batches:
        pool = pools[eng]
        where.append((eng, len(pool), len(recs)))
        pool.extend(recs)
    res = {
        "x86": x86step.run_packed(pools["x86"]) if pools["x86"] else [],
        "rv": rvstep.run_batch(pools["rv"]) if pools["rv"] else [],
        "arm": armstep.run_batch(pools["arm"]) if pools["arm"] else [],
    }
    return [res[eng][a : a + n] for eng, a, n in where]


def evaluate_many(jobs, counters=None):
    """jobs: [(instance, seed, nstates)] -> [[Failure] | Discard] (same order)."""
    counters = counters if counters is not None else {}
    prepared = []
    for inst, seed, nstates in jobs:
        try:
            prepared.append(_Job(inst, seed, nstates))
        except Discard as d:
            prepared.append(d)
    live = [j for j in prepared if not isinstance(j, Discard)]
    plans = [j.round1() for j in live]
    results = _run_engines([(j.inst.engine, recs) for j, (_, recs) in zip(live, plans)])
    judges = []
    second = []
    for j, (plan, _), res in zip(live, plans, results):
        jd = _Judge(j, counters)
        flagged = jd.round1(plan, res)
        judges.append(jd)
        second.append(j.round2(flagged) if flagged else ([], []))
    if any(recs for _, recs in second):
        results2 = _run_engines([(j.inst.engine, recs) for j, (_, recs) in zip(live, second)])
        for jd, (plan, _), res in zip(judges, second, results2):
            if plan:
                jd.round2(plan, res)
    it = iter(judges)
    return [p if isinstance(p, Discard) else next(it).failures_list() for p in prepared]


class _Judge:
    def __init__(self, job, counters):
        self.job = job
        self.inst = job.inst
        self.counters = counters
        self.failures = {}
        self.base_res = {}
        self.base_out = {}
        self.outs = []

    def failures_list(self):
        return list(self.failures.values())

    def _count(self, k, n=1):
        self.counters[k] = self.counters.get(k, 0) + n

    def _input(self, s, perts, f, i):
        for pf, pi, nv in perts or ():
            if pf == f and pi == i:
                return nv
        return self.job.states[s][f][i]

    def _write_check(self, s, perts, res):
        """Every changed ppci register must be in the alias closure of the declared writes
        (res.changed: which full registers differ from this run's input; only full registers that are
        not entirely inside the closure need a closer look)."""
        inst = self.inst
        ch = res.changed & inst.suspect_mask()
        if not ch:
            return
        tgt = inst.target
        byfull = regs_by_full(tgt)
        for bit in range(32):
            if not (ch >> bit) & 1:
                continue
            f, i = ("g", bit) if (bit < 16 or inst.emu) else ("x", bit - 16)
            vin = self._input(s, perts, f, i)
            vout = res.reg(f, i)
            d = (vin ^ vout) & (M64 if f == "x" else x86step.M128)
            bad = [r for r, lo, w in byfull[(f, i)] if (d >> lo) & ((1 << w) - 1) and id(r) not in inst.closure]
            if not bad:
                continue
            r = bad[0]  # widest first
            k = ("WRITE", full_name(f, i, tgt), None)
            if k not in self.failures:
                self.failures[k] = Failure(
                    "WRITE",
                    inst,
                    full_name(f, i, tgt),
                    None,
                    "changed %s (%#x -> %#x) which is outside the alias closure of the declared writes %s + clobbers %s; declared reads %s [seed %d state %d%s]"
                    % (r.name, vin, vout, _fmt_decl(inst.writes), _fmt_decl(inst.clobbers), _fmt_decl(inst.reads), self.job.seed, s, "" if not perts else " with perturbed inputs"),
                )

    def _differs(self, s, res):
        """None, or (output name, description) when the run disagrees with the base run of the state."""
        b = self.base_res[s]
        for ((f, i), m), x in zip(self.outs, self.base_out[s]):
            y = res.reg(f, i)
            if (x ^ y) & m:
                return (full_name(f, i, self.inst.target), "%#x vs %#x (declared output bits %#x)" % (x & m, y & m, m))
        if b.arena_hash != res.arena_hash:
            return ("arena", "arena contents differ (bytes %d..%d vs %d..%d changed)" % (b.first, b.last, res.first, res.last))
        return None

    def round1(self, plan, results):
        inst, job = self.inst, self.job
        # bits of the adjacent defs that this instruction is seen to write (union over the base runs)
        outmask = dict(inst.outmask)
        if inst.adjmask:
            written = {}
            for (s, perts), res in zip(plan, results):
                if perts is None and res.status == 0:
                    for f, i in inst.adjmask:
                        written[(f, i)] = written.get((f, i), 0) | (job.states[s][f][i] ^ res.reg(f, i))
            for k, m in inst.adjmask.items():
                if m & written.get(k, 0):
                    outmask[k] = outmask.get(k, 0) | (m & written[k])
        self.outs = list(outmask.items())
        flagged = []
        nok = 0
        for (s, perts), res in zip(plan, results):
            if perts is None:
                self.base_res[s] = res
                if res.status != 0:
                    sn = res.status if isinstance(res.status, str) else x86step.status_name(res.status)
                    self._count("untestable:" + sn)
                    continue
                nok += 1
                self.base_out[s] = [res.reg(f, i) for (f, i), _ in self.outs]
                self._write_check(s, None, res)
                continue
            if self.base_res[s].status != 0:
                continue
            if res.status != 0:
                flagged.append(s)  # the registers are tried one at a time
                continue
            self._write_check(s, perts, res)
            if self._differs(s, res) is not None:
                flagged.append(s)
        self._count("states executed", nok)
        self._count("states", job.nstates)
        self._count("runs", len(results))
        return flagged

    def round2(self, plan, results):
        inst, job = self.inst, self.job
        self._count("runs", len(results))
        self._count("states with one-register-at-a-time runs", len({s for s, _ in plan}))
        for (s, perts), res in zip(plan, results):
            if res.status != 0:
                self._count("perturbed run faulted")
                continue
            self._write_check(s, perts, res)
            bad = self._differs(s, res)
            if bad is None:
                continue
            f, i, nv = perts[0]
            pname = full_name(f, i, inst.target)
            k = ("READ", pname, bad[0])
            if k not in self.failures:
                old = job.states[s][f][i]
                self.failures[k] = Failure(
                    "READ",
                    inst,
                    pname,
                    bad[0],
                    "output %s depends on %s, which is not among the declared reads %s: %s=%#x gives %s [seed %d state %d]"
                    % (bad[0], pname, _fmt_decl(inst.reads), pname, old, bad[1].replace(" vs ", ", %s=%#x gives " % (pname, nv), 1), job.seed, s),
                )


# ---------------------------------------------------------------------------
# encoding guard (C08's subject): skip instances that decode as something else than ppci prints

_DECODE_CACHE = {}


def _scratch_dir():
    """Directory for objdump's input file (llvmref names it by pid and unlinks it after the call;
    creating and removing a directory per call is slow on the loaded build machine)."""
    import os
    import tempfile

    return "/dev/shm" if os.path.isdir("/dev/shm") and os.access("/dev/shm", os.W_OK) else tempfile.gettempdir()


def encoding_status(instances):
    """["ok" | "mismatch: ..." | "unverifiable"] for a list of instances (one reference-decoder run
    per target: GNU objdump for x86-64, llvm-mc for RISC-V)."""
    from .. import llvmref

    todo = {}
    for i in instances:
        if i.nsub > 1:
            _DECODE_CACHE[(i.target, i.code, i.text)] = "unverifiable"
        elif i.unit.cid != REP_MOVSB and (i.target, i.code, i.text) not in _DECODE_CACHE:
            todo.setdefault(i.target, []).append(i)
    for target, insts in todo.items():
        dec = llvmref.reference_decode(target, [i.code for i in insts], _scratch_dir()) if target == TARGET else llvmref.reference_decode(target, [i.code for i in insts])
        for inst, d in zip(insts, dec):
            if d is None:
                verdict = "mismatch: reference decoder does not tile the %d bytes %s" % (len(inst.code), inst.code.hex())
            else:
                a = llvmref.norm_ppci(target, inst.text)
                b = llvmref.norm_ref(target, d)
                if a is None or b is None:
                    verdict = "unverifiable"
                else:
                    diff = llvmref.compare(a, b)
                    if diff is None:
                        verdict = "ok"
                    elif diff[0] == "shape":
                        verdict = "unverifiable"
                        if is_rv(target):
                            # two-address compressed forms: ppci's classes take rd and rs1 separately but
                            # encode one of them; an operand register that is not in the decoded text
                            # is not part of the machine instruction
                            mine = set(re.findall(r"\bx\d+\b", inst.text))
                            theirs = set(re.findall(r"\bx\d+\b", " ".join(t for t, _ in d)))
                            if not mine <= theirs:
                                verdict = "mismatch: ppci prints `%s`, bytes %s decode as `%s` (operand register not encoded)" % (inst.text, inst.code.hex(), "; ".join(t for t, _ in d))
                    else:
                        verdict = "mismatch: ppci prints `%s`, bytes %s decode as `%s` (%s)" % (inst.text, inst.code.hex(), "; ".join(t for t, _ in d), llvmref.describe_diff(diff))
            _DECODE_CACHE[(target, inst.code, inst.text)] = verdict
    out = []
    for i in instances:
        if i.unit.cid == REP_MOVSB:
            out.append("ok" if i.code == b"\xf3\xa4" else "mismatch: rep movsb encodes as %s" % i.code.hex())
        else:
            out.append(_DECODE_CACHE[(i.target, i.code, i.text)])
    return out


def evaluate_instances(pairs, nstates, counters=None):
    """[(instance, seed)] -> [(instance, guard verdict, [Failure] | Discard)]: one objdump run and
    one stepper request for the whole list."""
    verdicts = encoding_status([i for i, _ in pairs])
    jobs = [(i, sd, nstates) for (i, sd), v in zip(pairs, verdicts) if not v.startswith("mismatch")]
    res = iter(evaluate_many(jobs, counters))
    out = []
    for (i, sd), v in zip(pairs, verdicts):
        out.append((i, v, Discard("encoding_mismatch") if v.startswith("mismatch") else next(res)))
    return out


# ---------------------------------------------------------------------------
# known findings


RM_DEST_UNARY = frozenset(["Neg", "Not", "Shl", "Shr", "Dec", "ShlCl", "ShrCl", "SarCl", "RolCl8", "RorCl8", "ShlCl8", "ShrCl8", "SarCl8"])
# two-operand classes print alike in both directions; with the r/m operand at position 0 they are the "op r/m, reg" forms
RM_DEST_BINARY = frozenset(["add_ins", "or_ins", "and_ins", "sub_ins", "xor_ins", "mov_ins"])


ARM_CONDITIONAL = frozenset(["movls", "subcc", "subcs", "subne"])
SHIFT_BY_CL = frozenset(["ShlCl", "ShrCl", "SarCl", "RolCl8", "RorCl8", "ShlCl8", "ShrCl8", "SarCl8"])


def classify_failure(kind, cid, reg, out, rm, target=TARGET):
    """Id of the known finding a single failure line belongs to (narrow: class set AND the register
    the defect's model predicts), else None."""
    base = cid.split("#")[0]
    if target == "riscv:rvc":
        # KF6: compressed two-address forms (rd = rd op ...) declare rd write-only; the model of the
        # defect: the output that depends on an undeclared register is that register itself
        if kind == "READ" and base in ("CAddi", "cand_ins", "cor_ins", "csub_ins", "cxor_ins") and out == reg:
            return "C07-KF6"
        return None
    if target == ARM_TARGET:
        # KF8: a conditional instruction whose condition fails leaves rd alone, so its value after the instruction
        # depends on rd; the classes made by inter_twine keep rd write-only.  Model: the output that depends on an
        # undeclared register is that register itself, and it is the destination (operand 0)
        if kind == "READ" and base in ARM_CONDITIONAL and out == reg and rm == reg + "@0":
            return "C07-KF8"
        # KF9: strh declares the stored register (operand 0) as written instead of read: memory (and the
        # 'output' rd, which the instruction never changes) depends on it
        if kind == "READ" and base == "Strh" and rm == reg + "@0" and out in (reg, "arena"):
            return "C07-KF9"
        # KF10: the registers of a push / pop list are no operands for used_registers / defined_registers
        if rm is not None and rm.startswith("set:") and reg in rm[4:].split("+"):
            if (kind == "READ" and base == "Push" and out == "arena") or (kind == "WRITE" and base == "Pop"):
                return "C07-KF10"
        return None
    if target != TARGET:
        return None
    # KF7: store forms movss/movsd r/m, xmm with a register-mode destination do not define it
    if kind == "WRITE" and base in ("Movss2", "Movsd2") and rm is not None and rm == reg + "@0":
        return "C07-KF7"
    # KF5: shifts by cl read the count register, no operand and no RegisterUseDef says so (visible
    # where an output is declared at all, i.e. through an adjacent def; the destination itself is KF1)
    if kind == "READ" and reg == "rcx" and base in SHIFT_BY_CL:
        return "C07-KF5"
    if kind != "WRITE":
        return None
    # KF1: the r/m operand is the destination, in register mode it is only declared as read; the
    # model of the defect: the undeclared changed register IS the r/m register (operand 0)
    if rm is not None and rm == reg + "@0" and (base in RM_DEST_UNARY or base in RM_DEST_BINARY):
        return "C07-KF1"
    # KF2: sign-extension instructions with implicit operands: cqo/cdq/cwd write (r/e)dx, cdqe writes rax
    if (base in ("Cqo", "Cdq", "Cwd") and reg == "rdx") or (base == "Cdqe" and reg == "rax"):
        return "C07-KF2"
    # KF3: div/idiv write both rax and rdx; the RegisterUseDef after them names only one
    if base in ("Div", "Idiv", "Div32", "Idiv32", "Div16", "Idiv16") and reg in ("rax", "rdx"):
        return "C07-KF3"
    # KF4: rep movsb advances rsi/rdi and counts rcx down; the RegisterUseDefs only name them as uses
    if cid == REP_MOVSB and reg in ("rcx", "rsi", "rdi"):
        return "C07-KF4"
    return None


def _line_ids(msg):
    ids = []
    for line in str(msg).splitlines():
        m = _LINE.match(line)
        if not m:
            continue
        kind, tgt, cid, reg, out, rm = m.groups()
        ids.append(classify_failure(kind, cid, reg, None if out == "-" else out, None if rm == "-" else rm, tgt))
    return ids


def classify(case, msg):
    ids = _line_ids(msg)
    if not ids or any(i is None for i in ids):
        return None
    open_ids = open_finding_ids(PID)
    if any(i not in open_ids for i in ids):
        return None
    return ids[0]


def _split_failures(failures):
    """(unknown, known) where known failures are attributed to OPEN findings."""
    open_ids = open_finding_ids(PID)
    unknown, known = [], []
    for f in failures:
        kid = classify_failure(f.kind, f.cid, f.reg, f.out, f.rm_reg, f.target)
        if kid is not None and kid in open_ids:
            known.append((kid, f))
        else:
            unknown.append(f)
    return unknown, known


# ---------------------------------------------------------------------------
# cases
#
#   {"src": {"kind": "c", "text": ..., "opt": 0|2} | {"kind": "ir", "desc": ..., "opt": 0},
#    "select": None | {"key": unit key, "occ": k},    None: every unit of the program, operands as harvested
#    "args": None | [...],                            replacement operands (isagen description) for the selected unit
#    "seed": int, "nstates": int,
#    "focus": None | finding id}                      report only the failures with this finding's signature (witnesses)

_HARVEST_CACHE = {}


def place_absolute(target, cid, args):
    """x86-64: operands that address memory without a register (absolute disp32, rip-relative) get
    an address inside the scratch arena; everything else is returned unchanged."""
    if is_emu(target) or not any(isinstance(a, list) and a and a[0] == "c" and a[1] in ("RmAbs", "RmRip") for a in args):
        return args
    out = []
    for a in args:
        if isinstance(a, list) and a and a[0] == "c" and a[1] == "RmAbs":
            out.append(["c", "RmAbs", [A + 1024 + ((a[2][0] & 0xFFF) & ~7)]])
        elif isinstance(a, list) and a and a[0] == "c" and a[1] == "RmRip":
            out.append(["c", "RmRip", [0]])
        else:
            out.append(a)
    if any(isinstance(a, list) and a and a[0] == "c" and a[1] == "RmRip" for a in out):
        try:
            n = len(build_instruction({"target": target, "cls": cid, "args": out}).encode())
        except Exception:
            return out
        k = [a[2][0] for a in args if isinstance(a, list) and a and a[0] == "c" and a[1] == "RmRip"][0]
        disp = A + 1024 + ((k & 0xFFF) & ~7) - (x86step.CODE_BASE + n)
        out = [["c", "RmRip", [disp]] if isinstance(a, list) and a and a[0] == "c" and a[1] == "RmRip" else a for a in out]
    return out


_ISA_UNITS = {}
ISA_SEEDS = (16, 4, 8, 1, 2, 32, 3, 64, 256, 5, 0)  # 16 suits scaled offsets (c.lw, c.addi16sp); 0 last: reserved / hint encoding for several classes


def _distinct_registers(target, cls, args, counter=None):
    """The default operands with every register leaf replaced by a different allocatable register
    of its class (`mov bx, bx` would hide a missing write; x8-x15 suit the compressed forms)."""
    alloc = _allocatable(target)
    counter = counter if counter is not None else [0]
    out = []
    for fa, a in zip(cls.syntax.formal_arguments, args):
        k = isagen.kind_of(fa._cls)
        if k == "reg":
            ids = list(isagen.reg_ids(fa._cls)[0])
            pool = [i for i in alloc.get(fa._cls.__name__, ids) if i in ids and i not in ("rsp", "rbp", "x2", "x8", "SP")] or ids
            counter[0] += 1
            out.append(["r", pool[counter[0] % len(pool)]])
        elif k == "ctor":
            sub = [o for o in isagen.ctor_options(fa._cls) if o.__name__ == a[1]][0]
            out.append(["c", a[1], _distinct_registers(target, sub, a[2], counter)])
        else:
            out.append(a)
    return out


def same_register_args(target, cid, args):
    """The operands with every register leaf of one class set to the same register (two-address
    forms such as `add rax, rax`; the compressed RISC-V classes that encode only one of rd/rs1)."""
    cls = class_of(target, cid)
    first = {}

    def walk(c, aa):
        out = []
        for fa, a in zip(c.syntax.formal_arguments, aa):
            k = isagen.kind_of(fa._cls)
            if k == "reg":
                first.setdefault(fa._cls, a[1])
                out.append(["r", first[fa._cls]])
            elif k == "ctor":
                sub = [o for o in isagen.ctor_options(fa._cls) if o.__name__ == a[1]][0]
                out.append(["c", a[1], walk(sub, a[2])])
            else:
                out.append(a)
        return out

    new = walk(cls, args)
    return None if new == args else new


def isa_units(target, stats=None):
    """Every instruction class of the target's isa that vf/isagen.py can instantiate and that is
    not in an excluded category, once per operand form (every constructor alternative of its
    constructor-typed operand: register mode and every memory mode), as stand-alone units WITHOUT
    RegisterUseDef context: the class is judged by what it declares itself.  Classes / forms that
    cannot be judged alone are counted needs_context:<reason> in `stats.hist`."""
    if target in _ISA_UNITS:
        units, notes = _ISA_UNITS[target]
    else:
        units, notes = [], []
        seen = set()
        for cid, cls in isagen.instruction_classes(target):
            why = excluded_reason(cls, target, None)
            if why is not None:
                notes.append("isa excluded:" + why)
                continue
            if cid == "Rep" and not is_emu(target):
                notes.append("needs_context:rep prefix alone is not an instruction (judged as rep movsb)")
                continue
            if not isagen.supported(target, cid):
                notes.append("needs_context:operand kind the generator does not model (%s)" % cid)
                continue
            nopts = 1
            for fa in cls.syntax.formal_arguments:
                if isagen.kind_of(fa._cls) == "ctor":
                    nopts = max(nopts, len([o for o in isagen.ctor_options(fa._cls) if o.syntax]))
            got = False
            for choice in range(nopts):
                base = None
                for v in ISA_SEEDS:
                    try:
                        args = place_absolute(target, cid, _distinct_registers(target, cls, isagen._default_args(target, cls, v, choice)))
                        ins = build_instruction({"target": target, "cls": cid, "args": args})
                        code = isagen.emit_direct_parts(ins)[0]
                        str(ins)
                    except Exception:
                        continue
                    if code:
                        base = (args, code)
                        break
                if base is None:
                    continue
                args, code = base
                if "RmAbsLabel" in _shape(args):
                    notes.append("needs_context:[label] operand needs a linked symbol")
                    continue
                if is_rv(target):
                    d = rvstep.decode_code(code)
                    if d is not None and d[0] in rvstep.CONTROL_OPS:
                        notes.append("isa excluded:control transfer")
                        got = True
                        continue
                if is_arm(target):
                    d = armstep.info(code)
                    if d is not None and (d.control or d.pc_operand):
                        notes.append("isa excluded:" + ("control transfer" if d.control else "pc operand (%s)" % cid))
                        got = True
                        continue
                u = Unit(cid, args, [], [], [], "<isa>", code, target)
                u.key = "isa:" + u.key
                if u.key in seen:
                    continue
                seen.add(u.key)
                # a second fixed operand tuple: other registers, the next accepted integer
                u.alt_args = None
                for v2 in ISA_SEEDS[ISA_SEEDS.index(v) + 1 :] + ISA_SEEDS[:1]:
                    try:
                        a2 = place_absolute(target, cid, _distinct_registers(target, cls, isagen._default_args(target, cls, v2, choice), [3]))
                        if a2 != args and isagen.emit_direct_parts(build_instruction({"target": target, "cls": cid, "args": a2}))[0]:
                            u.alt_args = a2
                            break
                    except Exception:
                        continue
                units.append(u)
                got = True
            if not got:
                notes.append("needs_context:no accepted default operands (%s)" % cid)
        if not is_emu(target):
            try:
                rm = _RepMovsb()
                u = Unit(REP_MOVSB, [], [], [], [], "<isa>", rm.encode(), target)
                u.key = "isa:" + u.key
                units.append(u)
            except Exception:
                pass
        _ISA_UNITS[target] = (units, notes)
    if stats is not None:
        for n in notes:
            stats.hist[n] += 1
    return units


def units_of(src, stats=None):
    if src["kind"] == "isa":
        return isa_units(src.get("target", TARGET), stats)
    h = jhash(src)
    if h not in _HARVEST_CACHE:
        if len(_HARVEST_CACHE) > 64:
            _HARVEST_CACHE.clear()
        _HARVEST_CACHE[h] = harvest(compile_src(src), stats, src.get("target", TARGET))
    return _HARVEST_CACHE[h]


def select_unit(units, sel):
    k = 0
    for u in units:
        if u.key == sel["key"]:
            if k == sel.get("occ", 0):
                return u
            k += 1
    # the same class and shape with another neighbourhood is a different unit: do not substitute
    raise Discard("the program no longer yields unit %s" % sel["key"])


def run_case(case, stats=None):
    """-> (unknown failures, known [(id, failure)], info)"""
    if is_rv(case["src"].get("target", TARGET)):
        ok, note = rvstep.validated()
        if not ok:
            raise Discard("RISC-V emulator not validated: " + note)
    if is_arm(case["src"].get("target", TARGET)):
        ok, note = armstep.validated()
        if not ok:
            raise Discard("ARM emulator not validated: " + note)
    units = units_of(case["src"], stats)
    n = int(case.get("nstates", NSTATES))
    seed = int(case["seed"])
    if case.get("select"):
        u = select_unit(units, case["select"])
        todo = [Instance(u, case.get("args"))]
    else:
        seen = set()
        todo = []
        for u in units:
            k = (u.key, repr(u.args))
            if k in seen:
                continue
            seen.add(k)
            todo.append(Instance(u))
    unknown, known = [], []
    info = {"instances": 0, "counters": {}, "evaluated": []}
    for inst, v, fs in evaluate_instances([(i, seed) for i in todo], n, info["counters"]):
        if isinstance(fs, Discard):
            if case.get("select"):
                raise fs
            if stats is not None:
                stats.discard(fs.reason)
            continue
        info["instances"] += 1
        info["evaluated"].append((inst, v, len(fs)))
        if case.get("focus"):
            fs = [f for f in fs if classify_failure(f.kind, f.cid, f.reg, f.out, f.rm_reg, f.target) == case["focus"]]
        u2, k2 = _split_failures(fs)
        unknown.extend(u2)
        known.extend(k2)
    return unknown, known, info


def replay(case):
    unknown, known, _ = run_case(case)
    if unknown:
        return "\n".join(f.line() for f in unknown[:8])
    if known:
        return "\n".join(f.line() for _, f in known[:8])
    return None


# ---------------------------------------------------------------------------
# corpora

IDIOMS = [
    # division / remainder, every width and signedness
    "long d1(long a, long b){ return a / b; }\nlong d2(long a, long b){ return a % b; }\n"
    "unsigned long d3(unsigned long a, unsigned long b){ return a / b; }\nunsigned long d4(unsigned long a, unsigned long b){ return a % b; }\n",
    "int d5(int a, int b){ return a / b; }\nint d6(int a, int b){ return a % b; }\n"
    "unsigned d7(unsigned a, unsigned b){ return a / b; }\nunsigned d8(unsigned a, unsigned b){ return a % b; }\n"
    "short d9(short a, short b){ return a / b; }\nunsigned short d10(unsigned short a, unsigned short b){ return a / b; }\n",
    # shifts, negation, complement
    "long s1(long a, long b){ return a << b; }\nlong s2(long a, long b){ return a >> b; }\nunsigned long s3(unsigned long a, unsigned long b){ return a >> b; }\n"
    "int s4(int a, int b){ return a << b; }\nint s5(int a, int b){ return a >> b; }\nunsigned s6(unsigned a, unsigned b){ return a >> b; }\n",
    "long u1(long a){ return -a; }\nlong u2(long a){ return ~a; }\nint u3(int a){ return -a; }\nint u4(int a){ return ~a; }\n"
    "long m1(long a, long b){ return a * b; }\nint m2(int a, int b){ return a * b; }\n"
    "long l1(long a, long b){ return (a & b) | (a ^ 12345) | (b + 77) | (a - b); }\nint l2(int a, int b){ return (a & b) | (a ^ b) | (b - a); }\n",
    # conversions between integer widths
    "long c1(char a){ return a; }\nlong c2(short a){ return a; }\nlong c3(int a){ return a; }\nlong c4(unsigned char a){ return a; }\n"
    "long c5(unsigned short a){ return a; }\nlong c6(unsigned a){ return a; }\nint c7(char a){ return a; }\nint c8(short a){ return a; }\n"
    "int c9(unsigned char a){ return a; }\nint c10(unsigned short a){ return a; }\nchar c11(long a){ return a; }\nshort c12(long a){ return a; }\n"
    "int c13(long a){ return a; }\nchar c14(int a){ return a; }\nshort c15(int a){ return a; }\nshort c16(char a){ return a; }\nchar c17(short a){ return a; }\nunsigned short c18(unsigned char a){ return a; }\n",
    # floating point
    "double f1(double a, double b){ return a + b - a * b / (a + 1.5); }\nfloat f2(float a, float b){ return a + b - a * b / (a + (float)1.5); }\n"
    "double f3(double a){ return -a; }\nfloat f4(float a){ return -a; }\ndouble f5(float a){ return a; }\nfloat f6(double a){ return a; }\n",
    "double g1(long a){ return a; }\ndouble g2(int a){ return a; }\nfloat g3(long a){ return a; }\nfloat g4(int a){ return a; }\n"
    "double g5(unsigned long a){ return a; }\ndouble g6(unsigned a){ return a; }\nfloat g7(unsigned long a){ return a; }\nfloat g8(unsigned a){ return a; }\n"
    "long g9(double a){ return a; }\nint g10(double a){ return a; }\nlong g11(float a){ return a; }\nint g12(float a){ return a; }\n"
    "int g13(double a, double b){ return a < b; }\nint g14(float a, float b){ return a >= b; }\n",
    # memory: globals, arrays, structs, pointers, block copies
    "long gl; int arr[8]; char carr[16]; short sarr[8]; double darr[4]; float farr[4];\nstruct S { long a; int b; short c; char d; double e; float f; };\nstruct S gs, gt;\n"
    "long p1(long *p, int i){ p[i] += 3; arr[i & 7] ^= i; return p[1] + gl; }\nvoid p2(struct S *p, struct S *q){ *p = *q; }\nvoid p3(void){ gs = gt; }\n"
    "long p4(struct S *p){ p->a += p->b; p->c = p->d; p->e = p->f; return p->a; }\nvoid p5(int i, char c, short s, double d, float f){ carr[i & 15] = c; sarr[i & 7] = s; darr[i & 3] = d; farr[i & 3] = f; }\n"
    "long p6(int i){ return carr[i & 15] + sarr[i & 7] + (long)darr[i & 3] + (long)farr[i & 3]; }\n",
    # a shift whose result is narrowed right away (the narrowing RegisterUseDef follows the shift)
    "char t1(int a, int b){ return a << b; }\nshort t2(long a, long b){ return a >> b; }\nunsigned char t3(unsigned a, unsigned b){ return a >> b; }\n",
    # control flow, calls with many arguments (stack arguments), small types as arguments
    "long q0(long a, long b, long c, long d, long e, long f, long g, int h, short i, char j, double k, float l);\n"
    "long q1(long a, long b){ long r = 0; while (a < b) { r += a; a++; } if (r == 5) r = 7; return r; }\n"
    "long q2(long a, int b, short c, char d, double e, float f){ return q0(a, a, a, a, a, a, a, b, c, d, e, f) + q0(1, 2, 3, 4, 5, 6, 7, 8, 9, 10, 1.0, (float)2.0); }\n"
    "unsigned q3(unsigned a, unsigned b){ return a < b ? a : b; }\nint q4(char a, char b, short c, short d){ return (a < b) + (c > d); }\n"
    "long q5(long (*fp)(long), long x){ return fp(x); }\n",
]


def _ir_fn(name, params, ret, ins):
    return {
        "ptr_bits": 64,
        "globals": [],
        "externals": [],
        "functions": [{"name": name, "params": params, "ret": ret, "bufs": {}, "tailrec": False, "layout": [0], "blocks": [{"name": name + "_b0", "ins": ins + [["ret", "v9"]]}]}],
    }


def ir_idioms():
    """8- and 16-bit arithmetic, which C reaches only through promotions: one IR function per
    (type, operation), plus the narrow conversions and unary operations."""
    out = []
    for ty in ("i8", "u8", "i16", "u16"):
        ops = ["+", "-", "|", "&", "^", "<<", ">>"] + (["/"] if ty.endswith("16") else [])
        for k, op in enumerate(ops):
            out.append(_ir_fn("b_%s_%d" % (ty, k), [["a", ty], ["b", ty]], ty, [["binop", "v9", ty, "a", op, "b"]]))
    for ty in ("i16", "u16", "i32", "i64"):
        for k, op in enumerate(["-", "~"]):
            out.append(_ir_fn("u_%s_%d" % (ty, k), [["a", ty]], ty, [["unop", "v9", ty, op, "a"]]))
    tys = ["i8", "u8", "i16", "u16", "i32", "u32", "i64", "u64"]
    for a in tys:
        for b in tys:
            if a != b and (a[1:] in ("8", "16") or b[1:] in ("8", "16")):
                out.append(_ir_fn("c_%s_%s" % (a, b), [["a", a]], b, [["cast", "v9", b, "a"]]))
    return out


def idiom_sources():
    srcs = [{"kind": "c", "text": t, "opt": lvl} for t in IDIOMS for lvl in (0, 2)]
    # the one-instruction IR functions, several per module: one compile and one reference-decoder
    # run per source
    fns = [d["functions"][0] for d in ir_idioms()]
    for a in range(0, len(fns), 8):
        srcs.append({"kind": "ir", "desc": {"ptr_bits": 64, "globals": [], "externals": [], "functions": fns[a : a + 8]}, "opt": 0})
    return srcs


# RISC-V (RV32IM, soft float: float arithmetic is calls into the runtime and therefore excluded):
# the integer idioms; `long` is 32 bits there, the 64-bit forms simply repeat the 32-bit ones.
RV_IDIOMS = (0, 1, 2, 3, 4, 7, 8, 9)


def rv_idiom_sources():
    srcs = []
    for t in RV_TARGETS:
        for k in RV_IDIOMS:
            for lvl in (0, 2) if t == "riscv" else (2,):
                srcs.append({"kind": "c", "text": IDIOMS[k], "opt": lvl, "target": t})
    # the one-instruction IR functions, several per module (one reference-decoder run per source);
    # not the ones the RISC-V selector has no rule for (16-bit division and unary operations)
    fns = []
    for d in ir_idioms():
        f = d["functions"][0]
        if any("64" in ty for _, ty in f["params"]) or "64" in (f["ret"] or ""):
            continue
        if f["name"] in ("b_i16_7", "b_u16_7") or f["name"].startswith(("u_i16", "u_u16")):
            continue
        fns.append(f)
    for a in range(0, len(fns), 15):
        srcs.append({"kind": "ir", "desc": {"ptr_bits": 32, "globals": [], "externals": [], "functions": fns[a : a + 15]}, "opt": 0, "target": "riscv"})
    return srcs


# ARM A32 (integer only; ppci's ARM back end has no rule for remainders of unsigned values, floats or 64-bit integers)
ARM_IDIOMS = [
    "int arr[8]; char carr[16]; short sarr[8]; unsigned char ucarr[16]; unsigned short usarr[8];\nstruct S { int a; int b; short c; char d; };\nstruct S gs, gt;\n"
    "int p1(int *p, int i){ p[i] += 3; arr[i & 7] ^= i; return p[1] + arr[2]; }\nvoid p2(struct S *p, struct S *q){ *p = *q; }\nvoid p3(void){ gs = gt; }\n"
    "int p4(struct S *p){ p->a += p->b; p->c = p->d; p->d = p->a; return p->a; }\nvoid p5(int i, char c, short s){ carr[i & 15] = c; sarr[i & 7] = s; ucarr[i & 15] = c; usarr[i & 7] = s; }\n"
    "int p6(int i){ return carr[i & 15] + sarr[i & 7] + ucarr[i & 15] + usarr[i & 7]; }\nint p7(int *p){ return p[0] + p[1] + p[63] + p[100]; }\n",
    "int d5(int a, int b){ return a / b; }\nint d6(int a, int b){ return a % b; }\nunsigned d7(unsigned a, unsigned b){ return a / b; }\n",
    "int q0(int a, int b, int c, int d, int e, int f, short g, char h);\nint q1(int a, int b){ int r = 0; while (a < b) { r += a; a++; } if (r == 5) r = 7; return r; }\n"
    "int q2(int a, short c, char d){ return q0(a, a, a, a, a, a, c, d) + q0(1, 2, 3, 4, 5, 6, 7, 8); }\nunsigned q3(unsigned a, unsigned b){ return a < b ? a : b; }\n"
    "int q4(char a, char b, short c, short d){ return (a < b) + (c > d); }\nint q5(int (*fp)(int), int x){ return fp(x); }\nint q6(int a){ return a + 200 + (a - 77) + 100000 + ~a; }\n"
    "struct B { int w[6]; }; int q7(struct B b, int x);\nint r1(struct B *p){ return q7(*p, 3); }\n",
]
ARM_SHARED_IDIOMS = (2, 3, 4, 8)  # shifts, unary / mul / logic, integer conversions, narrowed shifts


def arm_idiom_sources():
    srcs = []
    for text in [IDIOMS[k] for k in ARM_SHARED_IDIOMS] + ARM_IDIOMS:
        for lvl in (0, 2):
            srcs.append({"kind": "c", "text": text, "opt": lvl, "target": ARM_TARGET})
    return srcs


def _gencc_options():
    from .. import gencc

    return gencc.Options(max_funcs=2, max_stmts=5, max_depth=3)


def _genir_profile():
    from .. import genir

    return genir.Profile(name="c07", max_funcs=2, max_blocks=5, max_ins=8, externals=False, indirect_calls=False, observe=False)


def program_strategy(targets=(TARGET,)):
    """Generated sources; RISC-V gets the generated C programs too (the IR generator draws 64-bit
    types and floats, which that backend mostly rejects)."""
    from hypothesis import strategies as st

    from .. import gencc, genir

    alts = []
    if TARGET in targets:
        alts.append(st.tuples(gencc.programs(_gencc_options()), st.sampled_from([0, 2])).map(lambda t: {"kind": "c", "text": t[0]["src"], "opt": t[1]}))
        alts.append(genir.modules(_genir_profile()).map(lambda d: {"kind": "ir", "desc": d, "opt": 0}))
    rvs = [t for t in targets if is_emu(t)]
    if rvs:
        nofloat = gencc.Options(max_funcs=2, max_stmts=5, max_depth=3, floats=False)
        alts.append(
            st.tuples(gencc.programs(nofloat), st.sampled_from([0, 2]), st.sampled_from(rvs)).map(
                lambda t: {"kind": "c", "text": t[0]["src"], "opt": t[1], "target": t[2]}
            )
        )
    return st.one_of(alts)


# ---------------------------------------------------------------------------
# workers


def _allocatable(target=TARGET):
    """{register class name: [register ids]} of the registers the allocator may pick, plus the frame
    registers (x86-64: rbp/rsp for 64-bit operands, they appear as memory bases; RISC-V: sp, fp and
    the argument/return registers the code generator names itself)."""
    out = {}
    for rc in arch(target).info.register_classes:
        out[rc.typ.__name__] = [r.name for r in rc.registers]
    if is_rv(target):
        out["RiscvRegister"] = sorted(set(out.get("RiscvRegister", [])) | {"x2", "x8", "x10", "x11", "x12", "x13"}, key=lambda n: int(n[1:]))
    elif is_arm(target):
        pass  # r0-r11 (the frame pointer r11 included); sp appears only as harvested
    else:
        out["Register64"] = out["Register64"] + ["rbp", "rsp"]
    return out


def variant_strategy(unit):
    """Replacement operands of the same shape for a harvested unit."""
    from hypothesis import strategies as st

    if unit.cid == REP_MOVSB or not unit.args or unit.cid.startswith("py:"):
        return st.just(None)
    target = unit.target
    cls = isagen.class_by_id(target, unit.cid)
    keep = set(re.findall(r"([A-Za-z0-9_]+)\(", _shape(unit.args)))
    allnames = set()

    def walk(c):
        for fa in c.syntax.formal_arguments:
            if isagen.kind_of(fa._cls) == "ctor":
                for sub in isagen.ctor_options(fa._cls):
                    allnames.add(sub.__name__)
                    if sub.syntax:
                        walk(sub)

    walk(cls)
    alloc = _allocatable(target)

    def reg_filter(path, rcls, ids):
        ok = alloc.get(rcls.__name__)
        if ok is None:
            return ids
        sel = [i for i in ids if i in ok]
        if len(path) >= 3 and path[-1] == 1 and "RmMemDisp2" in path:  # index register: never rsp
            sel = [i for i in sel if i != "rsp"]
        if not any(isinstance(p, str) and p.startswith("RmMem") for p in path):
            sel = [i for i in sel if i not in ("rbp", "rsp")] or sel
        return sel

    def int_filter(path):
        if any(isinstance(p, str) and p in ("RmAbs", "RmRip") for p in path):
            return None
        if any(isinstance(p, str) and p.startswith("RmMem") for p in path):
            return lambda v: -(1 << 31) <= v < (1 << 31)
        return None

    try:
        strat = isagen.args_strategy(target, unit.cid, exclude_ctors=frozenset(allnames - keep), canonical=True, reg_filter=reg_filter, int_filter=int_filter)
    except isagen.BuildError:
        return st.just(None)
    if "RmAbs" in keep or "RmRip" in keep:
        return strat.map(lambda a: place_absolute(target, unit.cid, a))
    return strat


def _record(stats, case, inst_infos, unknown, known, info):
    for inst, verdict, nfail in inst_infos:
        u = inst.unit
        nt = inst.nregs >= 2
        sample = None
        if nt:
            sample = {
                "instruction": inst.text,
                "bytes": inst.code.hex(),
                "target": inst.target,
                "class": u.cid,
                "declared_reads": sorted(r.name for r in inst.reads),
                "declared_writes": sorted(r.name for r in inst.writes),
                "adjacent_uses": [n for _, n in u.uses],
                "adjacent_defs": [n for _, n in u.defs],
                "from_function": u.fname,
                "states": int(case.get("nstates", NSTATES)),
            }
        tp = "" if inst.target == TARGET else inst.target + " "
        classes = ["target:" + inst.target, "class:" + tp + u.cid.split("#")[0], "mnemonic:" + tp + inst.mnemonic, "shape:" + tp + (_shape(inst.args) or "-")]
        if u.uses or u.defs:
            classes.append("with adjacent RegisterUseDef")
        if verdict != "ok":
            classes.append("encoding guard: " + verdict.split(":")[0])
        if u.key.startswith("isa:"):
            classes.append("isa sweep: stand-alone class" + ("" if case.get("args") is None else " (other operands)"))
        else:
            classes.append("variant" if case.get("args") is not None else "as harvested")
        stats.case(u.key, nt, sample, classes=classes)
    for k, v in info["counters"].items():
        stats.hist["exec:" + k] += v
    for kid, _ in known:
        stats.known[kid] += 1


def _worker(arg):
    """One shard: compile its sources (fixed idioms + Hypothesis programs), test every new unit as
    harvested, then test re-instantiated variants of the unit kinds it found."""
    seed, sources, nprog, nvar, nstates, targets, sweep = arg
    from hypothesis import strategies as st

    stats = Stats()
    fails = []
    found = {}  # key -> (src, occ, unit): smallest source seen for the unit kind
    tested = set()
    per_key = {}  # as-harvested operand tuples evaluated per unit kind (the variant phase covers the rest)

    def do_source(src):
        units = units_of(src, stats)
        occ = {}
        new = []
        for u in units:
            k = occ.get(u.key, 0)
            occ[u.key] = k + 1
            if u.key not in found or len(str(src)) < len(str(found[u.key][0])):
                found[u.key] = (src, k, u)
            ident = (u.key, repr(u.args))
            if ident in tested or per_key.get(u.key, 0) >= MAX_PER_KEY:
                continue
            tested.add(ident)
            per_key[u.key] = per_key.get(u.key, 0) + 1
            new.append((u, k))
        insts = []
        for u, k in new:
            try:
                insts.append((Instance(u), u, k))
            except Discard as d:
                stats.discard(d.reason)
        first = None
        counters = {}
        pairs = [(inst, subseed(seed, u.key, repr(u.args))) for inst, u, k in insts]
        for (inst, u, k), (_, v, fs) in zip(insts, evaluate_instances(pairs, nstates, counters)):
            if isinstance(fs, Discard):
                stats.discard(fs.reason)
                if fs.reason == "encoding_mismatch":
                    stats.hist["encoding_mismatch:" + u.cid] += 1
                continue
            unknown, known = _split_failures(fs)
            case = {"src": src, "select": {"key": u.key, "occ": k}, "args": None, "seed": subseed(seed, u.key, repr(u.args)), "nstates": nstates}
            _record(stats, case, [(inst, v, len(fs))], unknown, known, {"counters": {}})
            if unknown and first is None:
                first = (case, "\n".join(f.line() for f in unknown[:8]))
        for k_, v_ in counters.items():
            stats.hist["exec:" + k_] += v_
        return first

    for src in sources:
        try:
            f = do_source(src)
        except Discard as d:
            stats.discard(d.reason)
            continue
        if f is not None and len(fails) < 3:
            fails.append(f)

    if nprog:

        def prop(src):
            f = do_source(src)
            return None if f is None else f[1]

        for src, msg in hyp_search(program_strategy(targets), prop, nprog, seed, stats, classify=None, shrink_budget_s=40):
            # turn the (shrunk) program-level failure into a unit-level case
            tested.clear()
            per_key.clear()
            try:
                f = do_source(src)
            except Discard:
                f = None
            if f is not None and len(fails) < 3:
                fails.append(f)

    keys = sorted(found)
    if keys and nvar > 0:
        # a Hypothesis case is a batch of VBATCH variants of one unit kind, so that the encoding
        # guard (one objdump process) is paid once per batch
        def one(i):
            src, occ, u = found[keys[i]]
            return st.lists(st.tuples(variant_strategy(u), st.integers(0, 2**32 - 1)), min_size=1, max_size=VBATCH).map(
                lambda l: {"src": src, "select": {"key": u.key, "occ": occ}, "variants": [[a, sd] for a, sd in l], "nstates": nstates}
            )

        def vcases(batch):
            u = found[batch["select"]["key"]][2]
            for a, sd in batch["variants"]:
                if a is None and u.args:
                    stats.discard("no variant strategy for the class")
                    continue
                yield {"src": batch["src"], "select": batch["select"], "args": a, "seed": sd, "nstates": batch["nstates"]}

        def vprop(batch):
            cases = list(vcases(batch))
            u = found[batch["select"]["key"]][2]
            insts = []
            for c in cases:
                try:
                    insts.append((c, Instance(u, c["args"])))
                except Discard as d:
                    stats.discard(d.reason)
            first = None
            counters = {}
            res = evaluate_instances([(i, c["seed"]) for c, i in insts], batch["nstates"], counters)
            for (c, _), (inst, v, fs) in zip(insts, res):
                if isinstance(fs, Discard):
                    stats.discard(fs.reason)
                    continue
                unknown, known = _split_failures(fs)
                _record(stats, c, [(inst, v, len(fs))], unknown, known, {"counters": {}})
                if unknown and first is None:
                    first = (c, "\n".join(f.line() for f in unknown[:8]))
            for k_, v_ in counters.items():
                stats.hist["exec:" + k_] += v_
            vprop.last = first
            return None if first is None else first[1]

        vprop.last = None
        strat = st.integers(0, len(keys) - 1).flatmap(one)
        nb = max(1, nvar // VBATCH)
        for batch, msg in hyp_search(strat, vprop, nb, seed ^ 0x5A5A5A5A, stats, classify=None, shrink_budget_s=40):
            vprop(batch)  # re-evaluate the shrunk batch to get the single failing variant
            if vprop.last is not None and len(fails) < 4:
                fails.append(vprop.last)
    stats.hist["unit kinds found by a shard"] += len(keys)

    # ---- isa sweep: every class x operand form as a stand-alone unit (no RegisterUseDef context)
    if sweep:
        stargets, w, nw, kvar, nex = sweep
        sstates = nstates if kvar else min(nstates, 4)  # quick tier: a few instances x a few states per form
        sunits = []
        for t in stargets:
            sunits.extend(isa_units(t, stats if w == 0 else None))
        sunits = sunits[w::nw]

        def sweep_eval(pairs):
            """pairs: [(unit, args | None, seed)] -> first unknown failure as (case, msg) | None"""
            insts = []
            for u, a, sd in pairs:
                try:
                    insts.append((u, a, sd, Instance(u, a)))
                except Discard as d:
                    stats.discard(d.reason)
            counters = {}
            first = None
            res = evaluate_instances([(i, sd) for _, _, sd, i in insts], sstates, counters)
            for (u, a, sd, _), (inst, v, fs) in zip(insts, res):
                if isinstance(fs, Discard):
                    stats.discard(fs.reason)
                    continue
                judged.add((u.target, u.cid))
                unknown, known = _split_failures(fs)
                case = {"src": {"kind": "isa", "target": u.target}, "select": {"key": u.key, "occ": 0}, "args": a, "seed": sd, "nstates": sstates}
                _record(stats, case, [(inst, v, len(fs))], unknown, known, {"counters": {}})
                if unknown and first is None:
                    first = (case, "\n".join(f.line() for f in unknown[:8]))
            for k_, v_ in counters.items():
                stats.hist["exec:" + k_] += v_
            return first

        judged = set()
        if sunits:
            fixed = [(u, None, subseed(seed, "isa", u.key)) for u in sunits]
            for u in sunits:
                if getattr(u, "alt_args", None):
                    fixed.append((u, u.alt_args, subseed(seed, "isa-alt", u.key)))
                if u.args:
                    same = same_register_args(u.target, u.cid, u.args)
                    if same is not None:
                        fixed.append((u, same, subseed(seed, "isa-same", u.key)))
            f = sweep_eval(fixed)
            if f is not None and len(fails) < 4:
                fails.append(f)
        if sunits and kvar > 0 and nex > 0:
            per_unit = [st.lists(st.tuples(variant_strategy(u), st.integers(0, 2**32 - 1)), min_size=kvar, max_size=kvar) for u in sunits]

            def sprop(batch):
                pairs = []
                for u, l in zip(sunits, batch):
                    for a, sd in l:
                        if a is not None:
                            pairs.append((u, a, sd))
                f = sweep_eval(pairs)
                sprop.last = f
                return None if f is None else f[1]

            sprop.last = None
            for batch, msg in hyp_search(st.tuples(*per_unit), sprop, nex, seed ^ 0x15A15A, stats, classify=None, shrink_budget_s=40):
                sprop(batch)
                if sprop.last is not None and len(fails) < 4:
                    fails.append(sprop.last)
        for u in sunits:
            stats.hist["isa forms in the sweep"] += 1
            if (u.target, u.cid) not in judged:
                stats.hist["isa form not judged (every instance discarded): %s %s" % (u.target, u.cid)] += 1
    return stats, fails


def _split_sources(srcs, nw):
    out = [[] for _ in range(nw)]
    for i, s in enumerate(srcs):
        out[i % nw].append(s)
    return out


def run(ctx):
    isagen.configure(not ctx.quick)
    isagen.preload()
    x86step.build()
    arch()  # built once, inherited by the forked shards
    import ppci.api  # noqa: F401
    import ppci.codegen.codegen  # noqa: F401
    import ppci.lang.c  # noqa: F401

    from .. import gencc, genir, llvmref  # noqa: F401

    nw = 16
    nstates = NSTATES_QUICK if ctx.quick else NSTATES
    nprog = ctx.scale(1, 80)
    nvar = ctx.scale(24, 5000)
    targets = [TARGET]
    rv_ok, rv_note = rvstep.validated()
    ctx.stats.notes.append(rv_note)
    arm_ok, arm_note = armstep.validated()
    ctx.stats.notes.append(arm_note)
    emu_targets = (list(RV_TARGETS) if rv_ok else []) + ([ARM_TARGET] if arm_ok else [])
    emu_sources = (rv_idiom_sources() if rv_ok else []) + (arm_idiom_sources() if arm_ok else [])
    if emu_targets:
        # the sources of the emulated targets go to the last NEMU shards only: each of them builds the RISC-V / ARM
        # architecture objects (1-3 s each) itself, the other shards and the parent never do
        NEMU = 4
        shards = _split_sources(idiom_sources(), nw - NEMU) + _split_sources(emu_sources, NEMU)
        targets += emu_targets
    else:
        NEMU = 0
        shards = _split_sources(idiom_sources(), nw)
    # quick: RISC-V and ARM are covered through the fixed idioms, their variants and the isa sweep only
    ptargets = (TARGET,) if ctx.quick else tuple(targets)
    # isa sweep: quick = three fixed operand tuples per (class, operand form): distinct registers,
    # other registers + another integer, all registers equal; thorough adds 12 drawn tuples x 6 rounds
    kvar, nex = ctx.scale((0, 0), (12, 6))
    isa_units(TARGET)  # enumerated once here, inherited by the forked shards
    sweeps = [((TARGET,), w, nw - NEMU, kvar, nex) for w in range(nw - NEMU)] + [(tuple(emu_targets), w, NEMU, kvar, nex) for w in range(NEMU)]
    ctx.pmap(_worker, [(subseed(ctx.seed, PID, w), shards[w], nprog, nvar, nstates, ptargets, sweeps[w]) for w in range(nw)])
    ctx.extra["needs_context"] = {k[len("needs_context:") :]: v for k, v in ctx.stats.hist.items() if k.startswith("needs_context:")}
    ctx.extra["isa_sweep"] = "every class of the isa that vf/isagen.py instantiates, outside the excluded categories, once per operand form (register mode and every memory mode), judged stand-alone by its own annotations"
    ctx.extra["targets_covered"] = (
        ["x86_64 (native single-stepping on the host CPU)"]
        + (["riscv, riscv:rvc (RV32IM+C integer instructions in the emulator vf/rv32.py, which passed its own self-check)"] if rv_ok else [])
        + (["arm (A32 integer instructions, conditional ones included, in the emulator vf/arm32.py, which passed its own self-check; flags are implicit state)"] if arm_ok else [])
    )
    ctx.extra["targets_not_covered"] = (
        ([] if rv_ok else ["riscv, riscv:rvc (vf/rv32.py did not pass its self-check: %s)" % rv_note])
        + ([] if arm_ok else ["arm (vf/arm32.py did not pass its self-check: %s)" % arm_note])
        + [
            "riscv:rvf (no floating point in the emulator)",
            "arm: coprocessor classes mcr / mrc and the VFP classes (not modelled by the emulator), control transfers and pc-relative classes (b*, bl, blx, adr, ldr literal: excluded)",
            "arm:thumb",
            "m68k",
            "mips",
        ]
    )
    ctx.extra["excluded_instruction_classes"] = EXCLUDED_CLASSES_DOC
