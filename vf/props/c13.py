"""C13 - linker relaxation preserves program behaviour (riscv:rvc).

Programs are built as *instruction objects* emitted through BinaryOutputStream (the relaxable classes CB / CBl of
ppci.arch.riscv.rvc_instructions are not reachable from assembly text), linked twice - normally, and with
Linker.do_relaxations replaced by a no-op - and compared statically (oracle A) and by execution in the emulator
vf/rv32.py (oracle B).  A second source are C programs compiled for riscv:rvc (calls become the relaxable jal).

Case format (json):
  {"units": [unit...], "order": [block unit indices in logical order], "layout": {...}, "refs": [label...],
   "pwords": [8 initial data words], "inits": [[10 register values]...], "flags": {...}}
  unit  = {"kind": "block"|"func", "sec": 0..2, "obj": 0|1, "align": 0|4|8, "pad": bytes, "body": [op...],
           "term": term (blocks) | "link": 1|5 (functions)}
  op    = ["a", name, rd, rs1, rs2] | ["i", name, rd, rs1, imm] | ["c", name, rd, x] | ["call", func unit, how]
          | ["ld", rd, k, abs] | ["st", rs, k, abs]
  term  = ["j", how, to] | ["br", "b"|"cb", cond, rs1, rs2, to, ["j", how, to2]] | ["end"]
  layout= {"base": addr, "mems": [{"inputs": [["sec", name] | ["align", n] | ["def", symbol]], "gap": bytes}]}
or {"c_source": text, "calls": [[function, [args]]...]} for the compiled-C source.
"""

import os
import traceback

from hypothesis import strategies as st

from .. import rv32
from ..core import Discard, HarnessError, Stats, hyp_search, open_finding_ids, subseed

PID = "C13"
RULE = (
    "Hypothesis-generated rv32imc programs built from instruction objects: 2-12 blocks and leaf functions of register "
    "arithmetic / data loads and stores, spread over 1-3 code sections, 2 object files and 1-2 memory images (second "
    "image at a small or large gap), joined in a random logical order by relaxable j / jal ra / jal t0, 20-bit j/jal, "
    "c.j / c.jal, conditional branches (B-type and c.beqz/c.bnez), indirect jumps and calls through la/lui+addi "
    "addresses and through data words holding code addresses; zero padding of 0 B .. > 4 KiB between units with "
    "boundary values around the +-2 KiB c.j range; a label after every call.  Each program is linked with relaxation "
    "and with Linker.do_relaxations replaced by a no-op.  Oracle A: the relaxed sections must be the unrelaxed "
    "instruction sequence with only relaxable jumps shortened (all other bytes outside relocated fields identical); "
    "every control transfer, address materialisation and address word decoded from the relaxed bytes (decoder "
    "validated against llvm-mc on every encoding used) designates the same label as in the unrelaxed output, where "
    "a label's relaxed address is the address of the instruction that follows it; ppci's symbol table and section "
    "addresses agree with that map.  Oracle B: both images run in vf/rv32.py from the entry symbol on the case's "
    "register vectors; final data registers and data words agree.  Second source: generated C programs compiled "
    "for riscv:rvc, linked both ways, same return values in the emulator. "
    "non-trivial = at least one relocation was shrunk; distinct = (program, layout)"
)
ASSUMPTIONS = [
    "a label designates the instruction that follows it (symbol + 0); references with addends across shrunk code are outside the domain",
    "alignment of code after shrinking is not part of the property (reported in the histogram only)",
    "the unrelaxed link is the reference: its own address resolution is C11/C12's subject (cases whose unrelaxed link or run fails are discarded)",
]
TRUSTED = ["CPython", "Hypothesis", "vf/rv32.py (emulator, self-validated against llvm-mc decode and clang/gcc execution)", "llvm-mc-14"]
REGISTER = True
TECHNIQUE = "differential: relaxed vs unrelaxed link of generated instruction-object programs; static target map + emulated execution"
LEVEL_TEXT = (
    "Exploration with a differential oracle: each generated multi-section, multi-image program is linked with and "
    "without relaxation; the relaxed bytes are re-read instruction by instruction against the unrelaxed ones, every "
    "reference is resolved back to its label, and both images are executed in an emulator validated independently of "
    "ppci.  Relaxation is a deterministic function of the object files and layout, so generated-input search biased to "
    "the +-2 KiB boundary and to cross-section / cross-image jumps is the fitting level; no bound is closed."
)

DREGS = [8, 9, 10, 11, 12, 13, 14, 15, 16, 17]  # data registers (compared); x8..x15 are compressed-capable
CREGS = [8, 9, 10, 11, 12, 13, 14, 15]
SAVED_RA = 18
T_ADDR, T_ADDR2 = 6, 7
NPW = 8  # plain data words
XSEC_MARGIN = 40
KF_JALRD = "C13-KF1"
KF_XIMAGE = "C13-KF2"
KF_ALIGN = "C13-KF3"


def _assume_fixed():
    return set(filter(None, os.environ.get("VERIF_ASSUME_FIXED", "").split(",")))


def _open(kid):
    return kid in open_finding_ids(PID) and kid not in _assume_fixed()


# ---------------------------------------------------------------------------
# expansion of a case into flat item lists (pure function of the case)
#
# item = (kind, size, payload...) :
#   ("L", 0, name) | ("ins", size, ctor, args) | ("pad", n) | ("align", n)
#   control transfers / references carry a "ref" dict: {"kind": ..., "label": ..., "relaxable": bool, ...}

A_OPS = ["add", "sub", "xor", "or", "and", "sll", "srl", "sra", "slt", "sltu", "mul"]
I_OPS = ["addi", "xori", "ori", "andi", "slti", "sltiu", "slli", "srli", "srai"]
C_OPS = ["c.sub", "c.xor", "c.or", "c.and", "c.mv", "c.addi", "c.li", "c.slli", "c.srli", "c.srai", "c.andi"]
CONDS = ["beq", "bne", "blt", "bge", "bltu", "bgeu"]


def ulabel(i):
    return "u%d" % i


def _body_items(ui, body, units, refs_out, dlabels):
    items = []
    ncall = 0
    for op in body:
        k = op[0]
        if k == "a":
            items.append(("ins", 4, "a", op[1:]))
        elif k == "i":
            items.append(("ins", 4, "i", op[1:]))
        elif k == "c":
            items.append(("ins", 2, "c", op[1:]))
        elif k in ("ld", "st"):
            _, r, w, ab = op
            items += _addr_items(T_ADDR2, "p%d" % w, ab)
            items.append(("ins", 4, "lw" if k == "ld" else "sw", (r, 0, T_ADDR2)))
        elif k == "call":
            _, f, how = op
            link = units[f]["link"]
            tgt = ulabel(f)
            if how == "cjal" and link != 1:
                how = "JAL"  # c.jal can only link x1
            if how == "jal":
                items.append(("ins", 4, "jal", (link, tgt), {"kind": "jal", "label": tgt, "relaxable": True, "link": link}))
            elif how == "JAL":
                items.append(("ins", 4, "JAL", (link, tgt), {"kind": "jal", "label": tgt, "relaxable": False, "link": link}))
            elif how == "cjal":
                items.append(("ins", 2, "cjal", (tgt,), {"kind": "cjal", "label": tgt, "relaxable": False, "link": 1, "alt": ("ins", 4, "JAL", (1, tgt), {"kind": "jal", "label": tgt, "relaxable": False, "link": 1})}))
            elif how in ("ind", "indabs"):
                items += _addr_items(T_ADDR, tgt, how == "indabs")
                items.append(("ins", 4, "jalr", (link, T_ADDR)))
            else:  # through a data word
                dl = "d%d" % len(dlabels)
                dlabels.append((dl, tgt))
                items += _addr_items(T_ADDR, dl, how == "indwabs")
                items.append(("ins", 4, "lw", (T_ADDR, 0, T_ADDR)))
                items.append(("ins", 4, "jalr", (link, T_ADDR)))
            items.append(("L", 0, "u%dr%d" % (ui, ncall)))
            ncall += 1
        else:
            raise HarnessError("unknown body op %r" % (op,))
    return items


def _addr_items(rd, label, absolute):
    if absolute:
        return [
            ("ins", 4, "lui_abs", (rd, label), {"kind": "hi_abs", "label": label, "relaxable": False}),
            ("ins", 4, "addi_abs", (rd, rd, label), {"kind": "lo_abs", "label": label, "relaxable": False}),
        ]
    return [
        ("ins", 4, "auipc_rel", (rd, label), {"kind": "hi_rel", "label": label, "relaxable": False}),
        ("ins", 4, "addi_rel", (rd, label), {"kind": "lo_rel", "label": label, "relaxable": False}),
    ]


def _jump_items(how, to, dlabels):
    tgt = ulabel(to)
    if how == "j":
        return [("ins", 4, "j", (tgt,), {"kind": "j", "label": tgt, "relaxable": True, "link": 0})]
    if how == "J":
        return [("ins", 4, "J", (tgt,), {"kind": "j", "label": tgt, "relaxable": False, "link": 0})]
    if how == "cj":
        return [("ins", 2, "cj", (tgt,), {"kind": "cj", "label": tgt, "relaxable": False, "link": 0, "alt": ("ins", 4, "J", (tgt,), {"kind": "j", "label": tgt, "relaxable": False, "link": 0})})]
    if how in ("ind", "indabs"):
        return _addr_items(T_ADDR, tgt, how == "indabs") + [("ins", 4, "jalr", (0, T_ADDR))]
    dl = "d%d" % len(dlabels)
    dlabels.append((dl, tgt))
    return _addr_items(T_ADDR, dl, how == "indwabs") + [("ins", 4, "lw", (T_ADDR, 0, T_ADDR)), ("ins", 4, "jalr", (0, T_ADDR))]


def _term_items(term, dlabels):
    k = term[0]
    if k == "end":
        return [("ins", 4, "jalr", (0, SAVED_RA))]
    if k == "j":
        return _jump_items(term[1], term[2], dlabels)
    if k == "br":
        _, btype, cond, rs1, rs2, to, then = term
        tgt = ulabel(to)
        full = ("ins", 4, "b", (cond, rs1, rs2, tgt), {"kind": "b", "label": tgt, "relaxable": False, "droppable": True})
        if btype == "cb":
            c = "beq" if cond in ("beq", "bge", "bgeu") else "bne"
            r = rs1 if rs1 in CREGS else 8
            alt = ("ins", 4, "b", (c, r, 0, tgt), {"kind": "b", "label": tgt, "relaxable": False, "droppable": True})
            it = ("ins", 2, "cb", (c, r, tgt), {"kind": "cb", "label": tgt, "relaxable": False, "alt": alt})
        else:
            it = full
        return [it] + _jump_items(then[1], then[2], dlabels)
    raise HarnessError("unknown terminator %r" % (term,))


SECNAMES = ["code0", "code1", "code2"]


def expand(case):
    """-> dict(objects=[{secname: [items]}], layout=..., labels=set)"""
    units = case["units"]
    nobj = 1 + max(u["obj"] for u in units)
    objects = [dict() for _ in range(nobj)]
    dlabels = []
    first = case["order"][0]
    for ui, u in enumerate(units):
        items = []
        if u.get("align"):
            items.append(("align", u["align"]))
        items.append(("L", 0, ulabel(ui)))
        if u["kind"] == "block":
            if ui == first:
                items.append(("ins", 4, "i", ("addi", SAVED_RA, 1, 0)))
            items += _body_items(ui, u["body"], units, None, dlabels)
            titems = _term_items(u["term"], dlabels)
            for it in titems:
                if len(it) > 4 and it[4]["kind"] in ("j", "cj"):
                    it[4]["term_of"] = ui
            items += titems
        else:
            items += _body_items(ui, [op for op in u["body"] if op[0] != "call"], units, None, dlabels)
            items.append(("ins", 4, "jalr", (0, u["link"])))
        if u.get("pad"):
            items.append(("pad", u["pad"]))
        objects[u["obj"]].setdefault(SECNAMES[u["sec"]], []).extend(items)
    # data section lives in object 0
    data = []
    for k in range(NPW):
        data.append(("L", 0, "p%d" % k))
        data.append(("ins", 4, "word", (case["pwords"][k] & 0xFFFFFFFF,)))
    for dl, tgt in dlabels:
        data.append(("L", 0, dl))
        data.append(("ins", 4, "aword", (tgt,), {"kind": "word", "label": tgt, "relaxable": False}))
    for n, lab in enumerate(case.get("refs", [])):
        data.append(("L", 0, "x%d" % n))
        data.append(("ins", 4, "aword", (lab,), {"kind": "word", "label": lab, "relaxable": False}))
    objects[0]["data"] = data
    return objects


def item_size(it):
    return it[1]


class Model:
    """Independent model of the unrelaxed link: section contents as item lists with offsets, section addresses."""

    def __init__(self, objects, layout):
        self.sections = {}  # name -> list of (offset, item)
        self.size = {}
        self.align = {}
        for obj in objects:
            for name, items in obj.items():
                lst = self.sections.setdefault(name, [])
                off = self.size.get(name, 0)
                # the linker pads the output section to the input section's alignment (4, or more after .align)
                al = max([4] + [it[1] for it in items if it[0] == "align"])
                self.align[name] = max(self.align.get(name, 4), al)
                off = (off + al - 1) // al * al
                base = off
                for it in items:
                    if it[0] == "align":
                        # alignment inside an object section is relative to that object's section start
                        rel = off - base
                        off = base + (rel + it[1] - 1) // it[1] * it[1]
                        continue
                    lst.append((off, it))
                    off += it[1]
                self.size[name] = off
        self.addr = {}
        self.symdefs = {}
        self.image_of = {}
        self.mem_loc = []
        self.placed = []  # per memory: [("sec", name) | ("def", symbol)] in layout order
        cur = layout["base"]
        for mi, mem in enumerate(layout["mems"]):
            if mi:
                cur = (cur + mem.get("gap", 0) + 3) & ~3
            self.mem_loc.append(cur)
            self.placed.append([])
            for inp in mem["inputs"]:
                if inp[0] == "sec":
                    if inp[1] not in self.sections:
                        continue
                    al = self.align[inp[1]]
                    cur = (cur + al - 1) // al * al
                    self.addr[inp[1]] = cur
                    self.image_of[inp[1]] = mi
                    self.placed[mi].append(("sec", inp[1]))
                    cur += self.size[inp[1]]
                elif inp[0] == "align":
                    cur = (cur + inp[1] - 1) // inp[1] * inp[1]
                elif inp[0] == "def":
                    self.symdefs[inp[1]] = (cur, mi)
                    self.placed[mi].append(("def", inp[1]))
        self.labels = {}
        for name, lst in self.sections.items():
            for off, it in lst:
                if it[0] == "L":
                    self.labels[it[2]] = (name, off)

    def label_addr(self, lab):
        if lab in self.symdefs:
            return self.symdefs[lab][0]
        s, o = self.labels[lab]
        return self.addr[s] + o


def tuned(case):
    """case["tune"] = [block unit, D]: adjust one pad so that the unrelaxed distance from the block's final jump to its
    target is D bytes (forward jump: the pad after the block; backward jump: the pad after the target unit).
    Pure function of the case; returns the case to analyse (unchanged when tuning is impossible)."""
    t = case.get("tune")
    if not t:
        return case
    import copy

    ui, want = t
    if ui >= len(case["units"]) or case["units"][ui]["kind"] != "block":
        return case
    cur = case
    for _ in range(3):
        objects = expand(cur)
        m = legalise(objects, cur["layout"])
        found = None
        for name, lst in m.sections.items():
            for off, it in lst:
                if it[0] == "ins" and len(it) > 4 and it[4].get("term_of") == ui:
                    found = (name, off, it)
        if found is None:
            return case
        name, off, it = found
        dist = m.label_addr(it[4]["label"]) - (m.addr[name] + off)
        if dist == want:
            return cur
        if (dist > 0) != (want > 0):
            return case
        victim = ui if dist > 0 else int(it[4]["label"][1:])
        newpad = cur["units"][victim]["pad"] + abs(want) - abs(dist)
        if newpad < 0 or newpad > 8000:
            return case
        cur = copy.deepcopy(cur)
        cur["units"][victim]["pad"] = newpad
    return cur


def legalise(objects, layout):
    """Replace short-range transfers whose unrelaxed distance does not fit by their long alternative, drop
    conditional branches that do not fit the B-type range; iterate until stable (sizes change)."""
    for _ in range(12):
        m = Model(objects, layout)
        changed = False
        for obj in objects:
            for name, items in obj.items():
                # offsets of the items of this object within the merged section
                offs = {id(it): off for off, it in m.sections[name]}
                for idx, it in enumerate(items):
                    if it[0] != "ins" or len(it) < 5:
                        continue
                    ref = it[4]
                    kind = ref["kind"]
                    if kind not in ("cj", "cjal", "cb", "b"):
                        continue
                    dist = m.label_addr(ref["label"]) - (m.addr[name] + offs[id(it)])
                    lim = {"cj": 2048, "cjal": 2048, "cb": 256, "b": 4096}[kind]
                    # ranges are [-lim, lim-2].  Fixed-size short jumps into another section keep a margin: when
                    # sections are re-aligned after shrinking such a distance may legitimately grow by the padding,
                    # and a fixed-size jump that no longer reaches is an honest link error, not relaxation's subject
                    lab = ref["label"]
                    margin = 0 if lab in m.labels and m.labels[lab][0] == name else XSEC_MARGIN
                    if -lim + margin <= dist <= lim - 2 - margin:
                        continue
                    if "alt" in ref:
                        items[idx] = ref["alt"]
                    else:
                        items[idx] = ("pad", 0)
                    changed = True
        if not changed:
            return m
    raise HarnessError("legalisation does not converge")


# ---------------------------------------------------------------------------
# building ppci objects


def _mk_instruction(ctor, args):
    from ppci.arch.data_instructions import Dcd2, Dd
    from ppci.arch.riscv import instructions as I
    from ppci.arch.riscv import rvc_instructions as C
    from ppci.arch.riscv.registers import get_register as R

    if ctor == "a":
        name, rd, rs1, rs2 = args
        cls = {"add": I.Addr, "sub": I.Subr, "xor": I.Xorr, "or": I.Orr, "and": I.Andr, "sll": I.Sll, "srl": I.Srl, "sra": I.Sra, "slt": I.Slt, "sltu": I.Sltu, "mul": I.Mul}[name]
        return cls(R(rd), R(rs1), R(rs2))
    if ctor == "i":
        name, rd, rs1, imm = args
        cls = {"addi": I.Addi, "xori": I.Xori, "ori": I.Ori, "andi": I.Andi, "slti": I.Slti, "sltiu": I.Sltiu, "slli": I.Slli, "srli": I.Srli, "srai": I.Srai}[name]
        return cls(R(rd), R(rs1), imm)
    if ctor == "c":
        name, rd, x = args
        if name in ("c.sub", "c.xor", "c.or", "c.and"):
            return {"c.sub": C.CSub, "c.xor": C.CXor, "c.or": C.COr, "c.and": C.CAnd}[name](R(rd), R(x))
        if name == "c.mv":
            return C.CMovr(R(rd), R(x))
        if name == "c.addi":
            return C.CAddi(R(rd), R(rd), x)
        if name == "c.li":
            return C.CLi(R(rd), x)
        if name == "c.slli":
            return C.CSlli(R(rd), R(rd), x)
        return {"c.srli": C.CSrli, "c.srai": C.CSrai, "c.andi": C.CAndi}[name](R(rd), R(rd), x)
    if ctor == "lw":
        return I.Lw(R(args[0]), args[1], R(args[2]))
    if ctor == "sw":
        return I.Sw(R(args[0]), args[1], R(args[2]))
    if ctor == "jal":
        return C.CBl(R(args[0]), args[1])
    if ctor == "JAL":
        return I.Bl(R(args[0]), args[1])
    if ctor == "cjal":
        return C.CJal(args[0])
    if ctor == "j":
        return C.CB(args[0])
    if ctor == "J":
        return I.B(args[0])
    if ctor == "cj":
        return C.CJ(args[0])
    if ctor == "jalr":
        return I.Blr(R(args[0]), R(args[1]), 0)
    if ctor == "b":
        cond, rs1, rs2, tgt = args
        cls = {"beq": I.Beq, "bne": I.Bne, "blt": I.Blt, "bge": I.Bge, "bltu": I.Bltu, "bgeu": I.Bgeu}[cond]
        return cls(R(rs1), R(rs2), tgt)
    if ctor == "cb":
        c, r, tgt = args
        return (C.CBeqz if c == "beq" else C.CBnez)(R(r), tgt)
    if ctor == "lui_abs":
        return I.Adru(R(args[0]), args[1])
    if ctor == "addi_abs":
        return I.Adrl(R(args[0]), R(args[1]), args[2])
    if ctor == "auipc_rel":
        return I.Adrurel(R(args[0]), args[1])
    if ctor == "addi_rel":
        return I.Adrlrel(R(args[0]), args[1])
    if ctor == "word":
        return Dd(args[0])
    if ctor == "aword":
        return Dcd2(args[0])
    raise HarnessError("unknown constructor %r" % ctor)


def get_arch():
    from ppci.api import get_arch as ga

    return ga("riscv:rvc")


def build_objects(objects):
    from ppci.arch.data_instructions import DZero
    from ppci.arch.generic_instructions import Alignment, Global, Label, SectionInstruction
    from ppci.binutils.objectfile import ObjectFile
    from ppci.binutils.outstream import BinaryOutputStream

    arch = get_arch()
    res = []
    for obj in objects:
        of = ObjectFile(arch)
        out = BinaryOutputStream(of)
        declared = False
        for name, items in obj.items():
            out.emit(SectionInstruction(name))
            if not declared:
                # like `global x` in assembly: labels defined elsewhere must be declared global before their first use
                declared = True
                for lab in sorted({it[4]["label"] for its in obj.values() for it in its if it[0] == "ins" and len(it) > 4} | {it[2] for its in obj.values() for it in its if it[0] == "L"}):
                    out.emit(Global(lab))
            for it in items:
                if it[0] == "L":
                    out.emit(Label(it[2]))
                elif it[0] == "pad":
                    if it[1]:
                        out.emit(DZero(it[1]))
                elif it[0] == "align":
                    out.emit(Alignment(it[1]))
                else:
                    ins = _mk_instruction(it[2], it[3])
                    before = of.get_section(name).size
                    out.emit(ins)
                    if of.get_section(name).size - before != it[1]:
                        raise HarnessError("size model: %r emitted %d bytes" % (it, of.get_section(name).size - before))
        res.append(of)
    return res


def build_layout(layout, model):
    from ppci.binutils import layout as L

    lay = L.Layout()
    for mi, mem in enumerate(layout["mems"]):
        m = L.Memory("m%d" % mi)
        m.location = model.mem_loc[mi]
        m.size = 0x400000
        for inp in mem["inputs"]:
            if inp[0] == "sec":
                if inp[1] in model.sections:
                    m.add_input(L.Section(inp[1]))
            elif inp[0] == "align":
                m.add_input(L.Align(inp[1]))
            else:
                m.add_input(L.SymbolDefinition(inp[1]))
        lay.add_memory(m)
    return lay


def do_link(objs, lay, relax):
    from ppci.binutils.linker import Linker

    lk = Linker(get_arch())
    if not relax:
        lk.do_relaxations = lambda: None
    return lk.link(objs, layout=lay)


# ---------------------------------------------------------------------------
# oracle A


def _sx(v, b):
    v &= (1 << b) - 1
    return v - (1 << b) if v >> (b - 1) else v


def _decode_at(data, off, used):
    lo = int.from_bytes(data[off : off + 2], "little")
    if lo & 3 == 3:
        enc = int.from_bytes(data[off : off + 4], "little")
        ln = 4
    else:
        enc, ln = lo, 2
    d = rv32.decode(enc)
    used.add((enc, ln))
    return d, ln


def walk_section(name, model, sec_u, sec_r, used):
    """Align the relaxed bytes of a section with the model's item list.
    Returns (msg | None, relaxed offset per item index, shrunk count)."""
    items = model.sections[name]
    du, dr = bytes(sec_u.data), bytes(sec_r.data)
    if len(du) != model.size[name]:
        raise Discard("layout model mismatch (unrelaxed size of %s)" % name)
    roff = []
    ro = 0
    shrunk = 0
    prev_end_u = 0
    for off_u, it in items:
        # inter-item gap in the unrelaxed section (alignment padding): the same number of bytes is kept
        gap = off_u - prev_end_u
        if gap:
            if dr[ro : ro + gap] != du[prev_end_u:off_u]:
                return ("section %s: alignment padding before unrelaxed offset %#x differs after relaxation" % (name, off_u), None, 0)
            ro += gap
        roff.append(ro)
        size = it[1]
        if it[0] == "ins":
            ref = it[4] if len(it) > 4 else None
            if ref and ref["relaxable"]:
                if ro + 2 > len(dr):
                    return ("section %s: relaxed data ends inside item at unrelaxed offset %#x" % (name, off_u), None, 0)
                if dr[ro] & 3 != 3:
                    size = 2
                    shrunk += 1
            elif ref is None:
                if dr[ro : ro + size] != du[off_u : off_u + size]:
                    return (
                        "section %s: non-relaxed instruction at unrelaxed offset %#x (%s) changed: %s -> %s at relaxed offset %#x"
                        % (name, off_u, it[2], du[off_u : off_u + size].hex(), dr[ro : ro + size].hex(), ro),
                        None, 0,
                    )  # fmt: skip
        elif it[0] == "pad":
            if dr[ro : ro + size] != du[off_u : off_u + size]:
                return ("section %s: padding at unrelaxed offset %#x changed" % (name, off_u), None, 0)
        ro += size
        prev_end_u = off_u + it[1]
    tail = len(du) - prev_end_u
    if len(dr) != ro + tail:
        return ("section %s: relaxed size %d, expected %d (unrelaxed %d minus %d shrunk jumps)" % (name, len(dr), ro + tail, len(du), shrunk), None, 0)
    return (None, roff, shrunk)


def check_refs(name, model, sec, offsets, addr_of_label, sec_addr, used, which):
    """Every reference of the section, decoded from `sec`'s bytes, must designate its label."""
    data = bytes(sec.data)
    items = model.sections[name]
    hi_val = {}
    for idx, (off_u, it) in enumerate(items):
        if it[0] != "ins" or len(it) < 5:
            continue
        ref = it[4]
        off = offsets[idx]
        pc = sec_addr + off
        want = addr_of_label(ref["label"])
        kind = ref["kind"]
        if kind == "word":
            got = int.from_bytes(data[off : off + 4], "little")
            if got != want & 0xFFFFFFFF:
                return "%s link: address word at %s+%#x holds %#x, label %s is at %#x" % (which, name, off, got, ref["label"], want)
            continue
        d, ln = _decode_at(data, off, used)
        if d is None:
            return "%s link: undecodable instruction %s at %s+%#x (%s)" % (which, data[off : off + 4].hex(), name, off, it[2])
        op, rd, rs1, rs2, imm = d[0], d[1], d[2], d[3], d[4]
        if kind in ("j", "jal", "cj", "cjal"):
            if op != "jal":
                return "%s link: %s at %s+%#x decodes as %r" % (which, it[2], name, off, d[6])
            if rd != ref["link"]:
                return "%s link: '%s' to %s at %s+%#x became '%s' (links x%d instead of x%d)" % (which, _show(it), ref["label"], name, off, d[6], rd, ref["link"])
            got = pc + imm
        elif kind in ("b", "cb"):
            if op not in ("beq", "bne", "blt", "bge", "bltu", "bgeu"):
                return "%s link: %s at %s+%#x decodes as %r" % (which, it[2], name, off, d[6])
            got = pc + imm
        elif kind == "hi_abs":
            if op != "lui":
                return "%s link: lui at %s+%#x decodes as %r" % (which, name, off, d[6])
            hi_val[idx] = _sx(imm, 32)
            continue
        elif kind == "lo_abs":
            if op != "addi" or idx - 1 not in hi_val:
                return "%s link: addi at %s+%#x decodes as %r" % (which, name, off, d[6])
            got = (hi_val[idx - 1] + imm) & 0xFFFFFFFF
        elif kind == "hi_rel":
            if op != "auipc":
                return "%s link: auipc at %s+%#x decodes as %r" % (which, name, off, d[6])
            hi_val[idx] = pc + _sx(imm, 32)
            continue
        elif kind == "lo_rel":
            if op != "addi" or idx - 1 not in hi_val:
                return "%s link: addi at %s+%#x decodes as %r" % (which, name, off, d[6])
            got = (hi_val[idx - 1] + imm) & 0xFFFFFFFF
        else:
            raise HarnessError("reference kind %r" % kind)
        if got & 0xFFFFFFFF != want & 0xFFFFFFFF:
            return "%s link: '%s' at %s+%#x (address %#x) decodes as '%s' and reaches %#x; label %s is at %#x (off by %d)" % (
                which, _show(it), name, off, pc, d[6], got & 0xFFFFFFFF, ref["label"], want, (got - want)
            )  # fmt: skip
    return None


def _show(it):
    return "%s %s" % (it[2], ",".join(str(a) for a in it[3]))


# ---------------------------------------------------------------------------
# the property


def _ximage_risky(model):
    """Relaxable jumps to another memory image (or to a layout-defined symbol) whose distance can grow out of the c.j
    range when code before them shrinks: yields (section, index in the section's item list, item, distance)."""
    nrel = {}
    for name, lst in model.sections.items():
        mi = model.image_of[name]
        nrel[mi] = nrel.get(mi, 0) + sum(1 for _, it in lst if it[0] == "ins" and len(it) > 4 and it[4]["relaxable"])
    for name, lst in model.sections.items():
        mi = model.image_of[name]
        for idx, (off, it) in enumerate(lst):
            if it[0] != "ins" or len(it) < 5 or not it[4]["relaxable"]:
                continue
            lab = it[4]["label"]
            tmi = model.symdefs[lab][1] if lab in model.symdefs else model.image_of[model.labels[lab][0]]
            if tmi == mi:
                continue
            dist = model.label_addr(lab) - (model.addr[name] + off)
            grow = 2 * (nrel.get(mi, 0) + nrel.get(tmi, 0))
            if -2048 <= dist <= 2047 and (dist + grow > 2047 or dist - grow < -2048):
                yield name, idx, it, dist


def _exclude_ximage(model):
    """Turn them into their non-relaxable 20-bit forms (same size); returns {id(old item): new item}."""
    res = {}
    for name, idx, it, dist in list(_ximage_risky(model)):
        it[4]["relaxable"] = False
        repl = ("ins", 4, "J" if it[2] == "j" else "JAL", it[3], it[4])
        off = model.sections[name][idx][0]
        model.sections[name][idx] = (off, repl)
        res[id(it)] = repl
    return res


def entry_label(case):
    return ulabel(case["order"][0])


def run_program(obj, entry, inits, dreg_vals, limit=20000):
    m = rv32.Machine(rvc=True, step_limit=limit)
    m.load_object(obj)
    m.map(0x7F000000, 0x1000, name="stack")
    for r, v in zip(DREGS, dreg_vals):
        m.regs[r] = v & 0xFFFFFFFF
    m.regs[2] = 0x7F000800
    m.regs[1] = rv32.SENTINEL
    m.run(entry, rv32.SENTINEL)
    return m


def analyse(case, used=None):
    """Returns (msg | None, info dict).  Raises Discard."""
    used = set() if used is None else used
    info = {"shrunk": 0, "relaxable": 0, "classes": []}
    t = tuned(case)
    if t is not case:
        info["classes"].append("distance_tuned_to_cj_limit")
    case = t
    layout = case["layout"]
    if len(layout["mems"]) > 1:
        info["classes"].append("two_images")
    objects = expand(case)
    model = legalise(objects, layout)
    if case.get("flags", {}).get("no_ximage_relax"):
        repl = _exclude_ximage(model)
        if repl:
            info["excluded_ximage"] = len(repl)
            for obj in objects:
                for items in obj.values():
                    items[:] = [repl.get(id(it), it) for it in items]
    for s in SECNAMES + ["data"]:
        if s in model.sections and s not in model.addr:
            raise HarnessError("section %s is not placed by the layout" % s)
    lay = build_layout(layout, model)
    try:
        lu = do_link(build_objects(objects), lay, relax=False)
    except HarnessError:
        raise
    except Exception as e:
        raise Discard("unrelaxed link raised %s" % type(e).__name__)
    # the unrelaxed link must agree with the model (otherwise: C11/C12 business, or a model bug)
    for name in model.sections:
        if lu.get_section(name).address != model.addr[name] or lu.get_section(name).size != model.size[name]:
            raise Discard("layout model mismatch (section %s)" % name)
    for lab in model.labels:
        if lu.get_symbol_id_value(lu.get_symbol(lab).id) != model.label_addr(lab):
            raise Discard("layout model mismatch (label %s)" % lab)
    for name in model.sections:
        offs = [off for off, _ in model.sections[name]]
        msg = check_refs(name, model, lu.get_section(name), offs, model.label_addr, model.addr[name], used, "unrelaxed")
        if msg:
            raise Discard("unrelaxed link does not resolve its own references (C11)")
    nrel = sum(1 for lst in model.sections.values() for _, it in lst if it[0] == "ins" and len(it) > 4 and it[4]["relaxable"])
    info["relaxable"] = nrel
    try:
        lr = do_link(build_objects(objects), lay, relax=True)
    except Exception as e:
        tb = traceback.extract_tb(e.__traceback__)
        inner = [f for f in tb if "/ppci/" in f.filename]
        where = "%s:%s" % (os.path.basename(inner[-1].filename), inner[-1].name) if inner else "?"
        info["link_exception"] = (type(e).__name__, where)
        return ("relaxed link raised %s: %s [%s]; the same link without relaxation succeeds" % (type(e).__name__, str(e)[:200], where), info)
    # --- oracle A: structure of every section
    roffs = {}
    for name in model.sections:
        msg, ro, shrunk = walk_section(name, model, lu.get_section(name), lr.get_section(name), used)
        if msg:
            return (msg, info)
        roffs[name] = ro
        info["shrunk"] += shrunk
    # relaxed section addresses: the image start is fixed; what follows a shrunk section moves down by the bytes
    # removed before it (inter-section padding is kept), or by less when that keeps the section's own alignment
    exp_addr = {}
    exp_def = {}
    for mi, placed in enumerate(model.placed):
        shift = 0  # old end - new end of what was placed before
        for kind, name in placed:
            if kind == "def":
                exp_def[name] = model.symdefs[name][0] - shift
                continue
            old = model.addr[name]
            got = lr.get_section(name).address
            naive = old - shift
            al = model.align[name]
            ok = {naive, (naive + al - 1) // al * al}
            if got not in ok:
                return ("section %s is at %#x after relaxation; %#x expected (unrelaxed %#x, %d bytes were removed before it in its image)" % (
                    name, got, naive, old, shift), info)  # fmt: skip
            if got % 4 and old % 4 == 0:
                info["classes"].append("section_alignment_lost")
            exp_addr[name] = got
            shift = (old + model.size[name]) - (got + lr.get_section(name).size)

    def raddr(lab):
        if lab in exp_def:
            return exp_def[lab]
        s, _ = model.labels[lab]
        idx = label_index[lab]
        return exp_addr[s] + roffs[s][idx]

    label_index = {}
    for name, lst in model.sections.items():
        for idx, (_, it) in enumerate(lst):
            if it[0] == "L":
                label_index[it[2]] = idx
    # ppci's symbol table after relaxation
    for lab in list(model.labels) + list(exp_def):
        got = lr.get_symbol_id_value(lr.get_symbol(lab).id)
        if got != raddr(lab):
            base = model.label_addr(lab)
            return ("symbol %s: %#x after relaxation, but the instruction it labels is at %#x (unrelaxed %#x)" % (lab, got, raddr(lab), base), info)
    for name in model.sections:
        msg = check_refs(name, model, lr.get_section(name), roffs[name], raddr, exp_addr[name], used, "relaxed")
        if msg:
            return (msg, info)
    # --- oracle B
    eu = model.label_addr(entry_label(case))
    er = raddr(entry_label(case))
    pw_u = [model.label_addr("p%d" % k) for k in range(NPW)]
    pw_r = [raddr("p%d" % k) for k in range(NPW)]
    ran = 0
    try:
        rv32.Machine().load_object(lr)
    except ValueError as e:
        return ("the relaxed output's images cannot be built: %s" % e, info)
    for vec in case["inits"]:
        try:
            mu = run_program(lu, eu, None, vec)
        except rv32.EmuError as e:
            info["classes"].append("unrelaxed_run_failed")
            continue
        ran += 1
        try:
            mr = run_program(lr, er, None, vec)
        except rv32.EmuError as e:
            return ("execution from %s with registers %r: unrelaxed image finishes after %d instructions, relaxed image: %s" % (entry_label(case), vec, mu.steps, e), info)
        used |= mu.executed | mr.executed
        for r in DREGS:
            if mu.regs[r] != mr.regs[r]:
                return ("execution from %s with registers %r: final x%d = %#x unrelaxed, %#x relaxed" % (entry_label(case), vec, r, mu.regs[r], mr.regs[r]), info)
        for k in range(NPW):
            a, b = mu.read_u32(pw_u[k]), mr.read_u32(pw_r[k])
            if a != b:
                return ("execution from %s with registers %r: data word p%d = %#x unrelaxed, %#x relaxed" % (entry_label(case), vec, k, a, b), info)
        info["steps"] = mu.steps
    info["ran"] = ran
    return (None, info)


def prop_case(case, used=None):
    if "c_source" in case:
        return analyse_c(case, used)
    return analyse(case, used)


def replay(case):
    used = set()
    msg, info = prop_case(case, used)
    _validate_used(used)
    return msg


def _validate_used(used):
    """Every encoding the decision relied on is compared with llvm-mc (cached per encoding)."""
    if not used:
        return
    r = rv32.validate_decode_strict(sorted(used))
    if r["mismatches"]:
        raise HarnessError("rv32 decoder disagrees with llvm-mc: %s" % r["mismatches"][:3])


def classify(case, msg):
    kid = _classify(case, msg)
    return None if kid in _assume_fixed() else kid


def _classify(case, msg):
    if "c_source" in case:
        if "relaxed link raised AssertionError" in msg and "[data_instructions.py:calc]" in msg and case.get("same_mem"):
            return KF_ALIGN
        return None
    if "units" in case:
        if "links x1 instead of x" in msg and "became 'c.jal" in msg and "relaxed link" in msg:
            # jal rd (rd != x1) shortened to c.jal, which links x1
            for u in case["units"]:
                for op in u.get("body", []):
                    if op[0] == "call" and op[2] == "jal" and case["units"][op[1]]["link"] != 1:
                        return KF_JALRD
        if "relaxed link raised ValueError: Cannot encode" in msg and "in a signed field of 11 bits [bitfun.py:wrap_signed]" in msg:
            # a shortened jump to another memory image no longer fits: its distance grew when code before it shrank
            try:
                c = tuned(case)
                model = legalise(expand(c), c["layout"])
                if any(True for _ in _ximage_risky(model)):
                    return KF_XIMAGE
            except Exception:
                return None
        if "relaxed link raised AssertionError" in msg and "[data_instructions.py:calc]" in msg and _data_after_code(case):
            # the data section slid to an address that is 2 mod 4: U32DataRelocation asserts reloc_value % 4 == 0
            return KF_ALIGN
    return None


# ---------------------------------------------------------------------------
# generator

PADS = st.one_of(
    st.sampled_from([0, 0, 0, 2, 4, 6, 8]),
    st.integers(0, 40).map(lambda x: 2 * x),
    st.integers(90, 140).map(lambda x: 2 * x),
    st.integers(1000, 1030).map(lambda x: 2 * x),
    st.integers(2030, 2060).map(lambda x: 2 * x),
    st.integers(2500, 3000).map(lambda x: 2 * x),
)


@st.composite
def _op(draw, nfuncs, funcs, in_func):
    k = draw(st.integers(0, 9))
    if k <= 2:
        return ["a", draw(st.sampled_from(A_OPS)), draw(st.sampled_from(DREGS)), draw(st.sampled_from(DREGS)), draw(st.sampled_from(DREGS))]
    if k <= 4:
        name = draw(st.sampled_from(I_OPS))
        imm = draw(st.integers(0, 31)) if name in ("slli", "srli", "srai") else draw(st.integers(-2048, 2047))
        return ["i", name, draw(st.sampled_from(DREGS)), draw(st.sampled_from(DREGS)), imm]
    if k <= 6:
        name = draw(st.sampled_from(C_OPS))
        if name in ("c.sub", "c.xor", "c.or", "c.and"):
            return ["c", name, draw(st.sampled_from(CREGS)), draw(st.sampled_from(CREGS))]
        if name == "c.mv":
            return ["c", name, draw(st.sampled_from(DREGS)), draw(st.sampled_from(DREGS))]
        if name in ("c.addi", "c.li"):
            v = draw(st.integers(-32, 31))
            return ["c", name, draw(st.sampled_from(DREGS)), v if (v or name == "c.li") else 1]
        if name == "c.andi":
            return ["c", name, draw(st.sampled_from(CREGS)), draw(st.integers(-32, 31))]
        if name == "c.slli":
            return ["c", name, draw(st.sampled_from(DREGS)), draw(st.integers(1, 31))]
        return ["c", name, draw(st.sampled_from(CREGS)), draw(st.integers(1, 31))]
    if k == 7:
        return [draw(st.sampled_from(["ld", "st"])), draw(st.sampled_from(DREGS)), draw(st.integers(0, NPW - 1)), draw(st.booleans())]
    if in_func or not funcs:
        return ["a", "add", draw(st.sampled_from(DREGS)), draw(st.sampled_from(DREGS)), draw(st.sampled_from(DREGS))]
    f = draw(st.sampled_from(funcs))
    how = draw(st.sampled_from(["jal", "jal", "jal", "jal", "JAL", "cjal", "ind", "indabs", "indw", "indwabs"]))
    return ["call", f, how]


JHOW = ["j", "j", "j", "j", "j", "J", "cj", "ind", "indabs", "indw", "indwabs"]


@st.composite
def programs(draw, big=False):
    nblocks = draw(st.integers(2, 10 if big else 7))
    nfuncs = draw(st.integers(0, 3))
    nsec = draw(st.integers(1, 3))
    nobj = draw(st.integers(1, 2))
    kinds = ["block"] * nblocks + ["func"] * nfuncs
    kinds = draw(st.permutations(kinds))
    funcs = [i for i, k in enumerate(kinds) if k == "func"]
    blocks = [i for i, k in enumerate(kinds) if k == "block"]
    order = draw(st.permutations(blocks))
    pos = {b: p for p, b in enumerate(order)}
    units = []
    excluded = 0
    for i, k in enumerate(kinds):
        u = {"kind": k, "sec": draw(st.integers(0, nsec - 1)), "obj": draw(st.integers(0, nobj - 1)), "align": draw(st.sampled_from([0, 0, 0, 4, 8])), "pad": draw(PADS)}
        nops = draw(st.integers(0, 5))
        if k == "func":
            u["link"] = draw(st.sampled_from([1, 1, 5]))
            u["body"] = [draw(_op(nfuncs, funcs, True)) for _ in range(nops)]
        else:
            u["body"] = [draw(_op(nfuncs, funcs, False)) for _ in range(nops)]
            later = order[pos[i] + 1 :]
            if not later:
                u["term"] = ["end"]
            else:
                j = ["j", draw(st.sampled_from(JHOW)), draw(st.sampled_from(later))]
                if draw(st.integers(0, 2)) == 0:
                    u["term"] = ["br", draw(st.sampled_from(["b", "b", "cb"])), draw(st.sampled_from(CONDS)), draw(st.sampled_from(CREGS)), draw(st.sampled_from(DREGS)), draw(st.sampled_from(later)), j]
                else:
                    u["term"] = j
        units.append(u)
    # make sure every used section exists in object order: sections are created on demand
    secs_used = sorted({u["sec"] for u in units})
    names = [SECNAMES[s] for s in secs_used] + ["data"]
    names = draw(st.permutations(names))
    nmem = draw(st.integers(1, 2))
    mems = [{"inputs": [], "gap": 0} for _ in range(nmem)]
    ndef = 0
    for n in names:
        mem = mems[draw(st.integers(0, nmem - 1))]
        x = draw(st.integers(0, 5))
        if x == 0:
            mem["inputs"].append(["align", draw(st.sampled_from([4, 8, 16]))])
        mem["inputs"].append(["sec", n])
        if x == 1:
            mem["inputs"].append(["def", "mark%d" % ndef])
            ndef += 1
    if nmem == 2:
        mems[1]["gap"] = draw(st.one_of(st.integers(0, 16).map(lambda v: 4 * v), st.integers(0, 1200).map(lambda v: 4 * v), st.just(0xC0000)))
    # labels that extra address words may reference
    cands = [ulabel(i) for i in range(len(units))] + ["mark%d" % k for k in range(ndef)]
    for i, u in enumerate(units):
        if u["kind"] == "block":
            nc = sum(1 for op in u["body"] if op[0] == "call")
            cands += ["u%dr%d" % (i, k) for k in range(nc)]
    refs = draw(st.lists(st.sampled_from(cands), max_size=3))
    word = st.one_of(st.sampled_from([0, 1, 0xFFFFFFFF, 0x80000000, 0x7FFFFFFF]), st.integers(0, 0xFFFFFFFF))
    tune = None
    if draw(st.integers(0, 2)) == 0:
        d = draw(st.integers(-6, 6)) * 2
        tune = [draw(st.sampled_from(blocks)), (2046 + d) if draw(st.booleans()) else (-2048 + d)]
    case = {
        "tune": tune,
        "units": units,
        "order": list(order),
        "layout": {"base": draw(st.sampled_from([0, 0x1000, 0x8000000, 0x20000])), "mems": mems},
        "refs": refs,
        "pwords": [draw(word) for _ in range(NPW)],
        "inits": [[draw(word) for _ in DREGS] for _ in range(draw(st.integers(1, 2)))],
    }
    return case


@st.composite
def ximage_programs(draw):
    """Jumps between two memory images at a distance near the c.j limit, with shrinkable calls in front of them."""
    word = st.one_of(st.sampled_from([0, 1, 0xFFFFFFFF, 0x80000000]), st.integers(0, 0xFFFFFFFF))
    k = draw(st.integers(0, 4))
    forward = draw(st.booleans())
    body = lambda n, f: [draw(_op(1, f, False)) for _ in range(draw(st.integers(0, n)))]  # noqa: E731
    func = {"kind": "func", "sec": 0, "obj": 0, "align": 0, "pad": draw(st.sampled_from([0, 2, 6])), "link": 1, "body": [draw(_op(1, [], True)) for _ in range(draw(st.integers(0, 2)))]}
    calls = [["call", 1, "jal"] for _ in range(k)]
    how = draw(st.sampled_from(["j", "j", "j", "J"]))
    if forward:
        units = [
            {"kind": "block", "sec": 0, "obj": 0, "align": 0, "pad": 0, "body": calls + body(2, [1]), "term": ["j", how, 2]},
            func,
            {"kind": "block", "sec": 1, "obj": draw(st.integers(0, 1)), "align": 0, "pad": 0, "body": body(3, [1]), "term": ["end"]},
        ]
        order = [0, 2]
        tune = [0, 2046 + 2 * draw(st.integers(-6, 2))]
    else:
        units = [
            {"kind": "block", "sec": 0, "obj": 0, "align": 0, "pad": 0, "body": calls + body(2, [1]), "term": ["j", draw(st.sampled_from(["j", "J"])), 3]},
            func,
            {"kind": "block", "sec": 0, "obj": 0, "align": 0, "pad": 0, "body": body(3, [1]), "term": ["end"]},
            {"kind": "block", "sec": 1, "obj": draw(st.integers(0, 1)), "align": 0, "pad": 0, "body": body(2, [1]), "term": ["j", how, 2]},
        ]
        order = [0, 3, 2]
        tune = [3, -2048 + 2 * draw(st.integers(-2, 6))]
    m1 = [["sec", "code1"]]
    m0 = [["sec", "code0"]]
    draw(st.sampled_from([m0, m1])).append(["sec", "data"])
    return {
        "tune": tune,
        "units": units,
        "order": order,
        "layout": {"base": draw(st.sampled_from([0, 0x1000, 0x20000])), "mems": [{"inputs": m0, "gap": 0}, {"inputs": m1, "gap": draw(st.sampled_from([0, 4, 64]))}]},
        "refs": [],
        "pwords": [draw(word) for _ in range(NPW)],
        "inits": [[draw(word) for _ in DREGS]],
    }


@st.composite
def aligned_between_programs(draw):
    """A forward jump over a section that is aligned more strictly than the sections of the jump and of its target, at a
    distance just inside the c.j range, with shrinkable calls in front of it: the code in front of the jump shrinks, the
    aligned section stays put, so the distance GROWS by up to alignment - 2 bytes."""
    word = st.one_of(st.sampled_from([0, 1, 0xFFFFFFFF, 0x80000000]), st.integers(0, 0xFFFFFFFF))
    k = draw(st.integers(1, 12))
    al = draw(st.sampled_from([8, 16, 32, 64]))
    body = lambda n, f: [draw(_op(1, f, False)) for _ in range(draw(st.integers(0, n)))]  # noqa: E731
    func = {"kind": "func", "sec": 0, "obj": 0, "align": 0, "pad": draw(st.sampled_from([0, 2, 6])), "link": 1, "body": [draw(_op(1, [], True)) for _ in range(draw(st.integers(0, 2)))]}
    calls = [["call", 1, "jal"] for _ in range(k)]
    units = [
        {"kind": "block", "sec": 0, "obj": 0, "align": 0, "pad": 0, "body": calls + body(2, [1]), "term": ["j", "j", 3]},
        func,
        {"kind": "block", "sec": 1, "obj": draw(st.integers(0, 1)), "align": al, "pad": draw(st.sampled_from([0, 2, 4, 10])), "body": body(3, [1]), "term": ["end"]},
        {"kind": "block", "sec": 2, "obj": draw(st.integers(0, 1)), "align": 0, "pad": 0, "body": body(2, [1]), "term": ["j", draw(st.sampled_from(["j", "J"])), 2]},
    ]
    return {
        "tune": [0, 2046 - 2 * draw(st.integers(0, al // 2 + 2))],
        "units": units,
        "order": [0, 3, 2],
        "layout": {"base": draw(st.sampled_from([0, 0x1000, 0x20000])), "mems": [{"inputs": [["sec", "code0"], ["sec", "code1"], ["sec", "code2"], ["sec", "data"]], "gap": 0}]},
        "refs": [],
        "pwords": [draw(word) for _ in range(NPW)],
        "inits": [[draw(word) for _ in DREGS]],
    }


def cases(big=False):
    return st.one_of(programs(big), programs(big), programs(big), programs(big), programs(big), programs(big), programs(big), ximage_programs(),
                     aligned_between_programs())


def apply_exclusions(case, stats=None):
    """Exclusion by construction for open findings (pure function of the case)."""
    if "units" not in case:
        return case
    if _open(KF_JALRD):
        hit = False
        for u in case["units"]:
            for op in u.get("body", []):
                if op[0] == "call" and op[2] == "jal" and case["units"][op[1]]["link"] != 1:
                    op[2] = "JAL"
                    hit = True
        if hit and stats is not None:
            stats.excluded[KF_JALRD] += 1
    if _open(KF_XIMAGE) and len(case["layout"]["mems"]) > 1:
        # jumps into another image that could grow out of range are built in their 20-bit form (decided in analyse
        # from the layout model; counted there)
        case.setdefault("flags", {})["no_ximage_relax"] = True
    if _open(KF_ALIGN) and _data_after_code(case):
        # keep the data section (the only one with 4-byte address words) in front of the code of its image
        for mem in case["layout"]["mems"]:
            if ["sec", "data"] in mem["inputs"]:
                mem["inputs"].remove(["sec", "data"])
                mem["inputs"].insert(0, ["sec", "data"])
        if stats is not None:
            stats.excluded[KF_ALIGN] += 1
    return case


def _data_after_code(case):
    for mem in case["layout"]["mems"]:
        seen_code = False
        for inp in mem["inputs"]:
            if inp[0] == "sec" and inp[1].startswith("code"):
                seen_code = True
            if inp == ["sec", "data"] and seen_code:
                return True
    return False


def _worker(arg):
    seed, n, big, nc = arg
    st1, f1 = _worker_p(seed, n, big)
    if nc:
        st2, f2 = _worker_c(subseed(seed, "c"), nc)
        st1.merge(st2)
        f1 = f1 + f2
    return st1, f1


def _worker_p(seed, n, big):
    stats = Stats()
    used = set()

    def prop(case):
        import copy

        c = apply_exclusions(copy.deepcopy(case), stats)
        msg, info = prop_case(c, used)
        if info.get("excluded_ximage"):
            stats.excluded[KF_XIMAGE] += 1
        nt = info["shrunk"] > 0
        classes = ["shrunk:%s" % ("0" if not info["shrunk"] else "1-2" if info["shrunk"] <= 2 else "3-5" if info["shrunk"] <= 5 else "6+")]
        classes += sorted(set(info["classes"]))
        stats.hist["relocations_shrunk"] += info["shrunk"]
        stats.hist["relaxable_relocations"] += info["relaxable"]
        stats.case(
            str(c) if nt else None,
            nt,
            {"shrunk": info["shrunk"], "relaxable": info["relaxable"], "units": len(c["units"]), "layout": c["layout"], "order": c["order"], "first_unit": c["units"][0]} if nt else None,
            classes=classes,
        )
        if msg and c != case:
            # report the case as evaluated (with exclusions applied)
            last_applied["case"] = c
        return msg

    last_applied = {}
    fails = hyp_search(cases(big), prop, n, seed, stats, classify=lambda c, m: classify(apply_exclusions(__import__("copy").deepcopy(c)), m))
    fails = [(apply_exclusions(__import__("copy").deepcopy(c)), m) for c, m in fails]
    _validate_used(used)
    stats.hist["encodings_checked_against_llvm_mc"] += len(used)
    return stats, fails


def _worker_c(seed, n):
    stats = Stats()
    used = set()

    def prop(case):
        if case.get("same_mem") and _open(KF_ALIGN):
            stats.excluded[KF_ALIGN] += 1
        msg, info = analyse_c(case, used)
        nt = info["shrunk"] > 0
        stats.hist["relocations_shrunk"] += info["shrunk"]
        stats.hist["relaxable_relocations"] += info["relaxable"]
        stats.case(case["c_source"] if nt else None, nt, {"shrunk": info["shrunk"], "c_source": case["c_source"][:600], "calls": case["calls"]} if nt and stats.evaluations % 7 == 0 else None,
                   classes=["c_source:shrunk" if nt else "c_source:none"] + sorted(set(info["classes"]) - {"c_source"}))
        return msg

    fails = hyp_search(c_programs(), prop, n, seed, stats, classify=classify)
    _validate_used(used)
    stats.hist["encodings_checked_against_llvm_mc"] += len(used)
    return stats, fails


def preload():
    import hypothesis  # noqa: F401
    import ppci.api  # noqa: F401
    import ppci.arch.riscv.rvc_instructions  # noqa: F401
    import ppci.binutils.layout  # noqa: F401
    import ppci.binutils.linker  # noqa: F401

    get_arch()
    # Hypothesis registers its PRNG on first use and runs a full gc.collect() for that; in a forked worker this
    # touches (copies) the whole preloaded heap.  Do it once here, and keep the parent's heap out of the children's
    # collections.
    import gc

    hyp_search(st.integers(0, 3), lambda v: None, 2, 0, Stats())
    try:
        io_src = {"c_source": "int f0(int a, int b) { return a + b; }\nint f1(int a, int b) { return f0(a, b) + f0(b, 1); }", "calls": [["f1", [1, 2]]], "opt": 1}
        analyse_c(io_src)
    except Discard:
        pass
    gc.collect()
    gc.freeze()


def run(ctx):
    sc = rv32.selfcheck("quick" if ctx.quick else "thorough")
    if not sc["ok"]:
        raise HarnessError("vf/rv32.py self-validation failed: %s" % sc["problems"][:3])
    ctx.extra["emulator_selfcheck"] = {k: v for k, v in sc.items() if k != "problems"}
    ctx.extra["targets_covered"] = ["riscv:rvc"]
    preload()
    n = ctx.scale(208, 10000)
    nc = ctx.scale(1, 40)
    ctx.pmap(_worker, [(subseed(ctx.seed, PID, w), n // 16, not ctx.quick, nc) for w in range(16)])
    ctx.extra["relocations_shrunk"] = ctx.stats.hist.get("relocations_shrunk", 0)


# ---------------------------------------------------------------------------
# second source: C compiled for riscv:rvc (every call is the relaxable `jal ra`)


@st.composite
def c_programs(draw):
    nf = draw(st.integers(2, 6))
    consts = st.one_of(st.integers(-8, 8), st.sampled_from([255, 256, 4095, 65535, 100000, -100000, 2147483647]))

    def expr(i, depth):
        k = draw(st.integers(0, 9 if depth else 3))
        if k <= 1:
            return draw(st.sampled_from(["a", "b", "g1"]))
        if k == 2:
            return str(draw(consts))
        if k == 3:
            return draw(st.sampled_from(["g0", "g1", "arr[a & 7]", "arr[(b + 1) & 7]"]))
        if k <= 6:
            op = draw(st.sampled_from(["+", "-", "*", "&", "|", "^", "<", "==", ">="]))
            return "(%s %s %s)" % (expr(i, depth - 1), op, expr(i, depth - 1))
        if k == 7:
            return "(%s %s %d)" % (expr(i, depth - 1), draw(st.sampled_from(["<<", ">>"])), draw(st.integers(0, 9)))
        if i == 0:
            return "(%s ? %s : %s)" % (expr(i, depth - 1), expr(i, depth - 1), expr(i, depth - 1))
        return "f%d(%s, %s)" % (draw(st.integers(0, i - 1)), expr(i, depth - 1), expr(i, depth - 1))

    src = ["int g0 = %d; int g1 = %d; int arr[8] = {%s};" % (draw(consts), draw(consts), ", ".join(str(draw(consts)) for _ in range(8)))]
    for i in range(nf):
        body = ["  int t = %s;" % expr(i, 2)]
        for _ in range(draw(st.integers(0, 3))):
            k = draw(st.integers(0, 4))
            if k == 0:
                body.append("  if (%s) { t = %s; } else { g0 = %s; }" % (expr(i, 1), expr(i, 2), expr(i, 1)))
            elif k == 1:
                body.append("  for (int i = 0; i < (%s & 3); i = i + 1) { t = t + %s; }" % (expr(i, 1), expr(i, 2)))
            elif k == 2:
                body.append("  arr[%s & 7] = %s;" % (expr(i, 1), expr(i, 2)))
            elif k == 3:
                body.append("  g1 = g1 + %s;" % expr(i, 2))
            else:
                body.append("  t = %s;" % expr(i, 3))
        src.append("int f%d(int a, int b) {\n%s\n  return %s;\n}" % (i, "\n".join(body), expr(i, 2)))
    calls = [["f%d" % draw(st.integers(0, nf - 1)), [draw(st.integers(-(2**31), 2**31 - 1)), draw(st.integers(-100, 100))]] for _ in range(draw(st.integers(1, 3)))]
    return {"c_source": "\n".join(src), "calls": calls, "opt": draw(st.sampled_from([0, 1, 2])), "same_mem": draw(st.booleans()), "pad": draw(st.sampled_from([0, 0, 2, 6]))}


def _walk_lockstep(du, dr, base_u, base_r, used):
    """Both code sections hold the same instruction sequence; a 4-byte jal in the unrelaxed one may be a 2-byte
    c.j / c.jal in the relaxed one.  Returns (msg, [(off_u, off_r, dec_u, dec_r)], shrunk)."""
    ou = orr = 0
    rows = []
    shrunk = 0
    while ou < len(du):
        if orr >= len(dr):
            return ("relaxed code ends early (unrelaxed offset %#x)" % ou, None, 0)
        a, la = _decode_at(du, ou, used)
        b, lb = _decode_at(dr, orr, used)
        if a is None or b is None:
            n = 4 if du[ou] & 3 == 3 else 2
            if a is None and b is None and du[ou : ou + n] == dr[orr : orr + n]:
                # alignment padding (zeros), or an encoding outside RV32IMC that the code generator emitted in both
                # links alike (e.g. the reserved `c.lui rd, 0`): not relaxation's business (C05/C08)
                rows.append((ou, orr, None, None))
                ou += n
                orr += n
                continue
            return ("undecodable instruction at unrelaxed %#x / relaxed %#x" % (ou, orr), None, 0)
        if la != lb:
            if not (la == 4 and lb == 2 and a[0] == "jal" and b[0] == "jal"):
                return ("instruction streams diverge at unrelaxed %#x (%s) / relaxed %#x (%s)" % (ou, a[6], orr, b[6]), None, 0)
            shrunk += 1
        rows.append((ou, orr, a, b))
        ou += la
        orr += lb
    if orr != len(dr):
        return ("relaxed code has %d trailing bytes" % (len(dr) - orr), None, 0)
    return (None, rows, shrunk)


def analyse_c(case, used=None):
    import io

    used = set() if used is None else used
    info = {"shrunk": 0, "relaxable": 0, "classes": ["c_source"]}
    from ppci.api import c_to_ir, ir_to_object, optimize
    from ppci.binutils.layout import Layout

    arch = get_arch()
    try:
        m = c_to_ir(io.StringIO(case["c_source"]), arch)
        optimize(m, level=str(case.get("opt", 1)))
        obj = ir_to_object([m], arch)
    except Exception as e:
        raise Discard("compilation raised %s (C28/C29)" % type(e).__name__)
    same = case.get("same_mem") and not _open(KF_ALIGN)
    if same:
        text = "MEMORY ram LOCATION=0x1000 SIZE=0x40000 { SECTION(code) SECTION(data) }"
    else:
        text = "MEMORY flash LOCATION=0x1000 SIZE=0x20000 { SECTION(code) }\nMEMORY ram LOCATION=0x40000 SIZE=0x20000 { SECTION(data) }"
    lay = Layout.load(io.StringIO(text))
    try:
        lu = do_link([obj], lay, relax=False)
    except Exception as e:
        raise Discard("unrelaxed link raised %s" % type(e).__name__)
    info["relaxable"] = sum(1 for r in lu.relocations if r.reloc_type in ("cb_imm11", "cbl_imm11"))
    try:
        lr = do_link([obj], lay, relax=True)
    except Exception as e:
        tb = traceback.extract_tb(e.__traceback__)
        inner = [f for f in tb if "/ppci/" in f.filename]
        where = "%s:%s" % (os.path.basename(inner[-1].filename), inner[-1].name) if inner else "?"
        return ("relaxed link raised %s: %s [%s]; the same link without relaxation succeeds" % (type(e).__name__, str(e)[:200], where), info)
    cu, cr = lu.get_section("code"), lr.get_section("code")
    msg, rows, shrunk = _walk_lockstep(bytes(cu.data), bytes(cr.data), cu.address, cr.address, used)
    if msg:
        return (msg, info)
    info["shrunk"] = shrunk
    amap = {cu.address + ou: cr.address + orr for ou, orr, _, _ in rows}
    amap[cu.address + cu.size] = cr.address + cr.size
    for ou, orr, a, b in rows:
        if a is None:
            continue
        if a[0] != b[0] or a[1:4] != b[1:4]:
            return ("instruction at unrelaxed %#x '%s' became '%s' at relaxed %#x" % (cu.address + ou, a[6], b[6], cr.address + orr), info)
        if a[0] in ("jal", "beq", "bne", "blt", "bge", "bltu", "bgeu"):
            tu = cu.address + ou + a[4]
            tr = cr.address + orr + b[4]
            if amap.get(tu) != tr:
                return ("'%s' at unrelaxed %#x reaches %#x; after relaxation '%s' at %#x reaches %#x, but that instruction moved to %s" % (
                    a[6], cu.address + ou, tu, b[6], cr.address + orr, tr, "%#x" % amap[tu] if tu in amap else "?"), info)  # fmt: skip
        elif a[4] != b[4] and a[0] not in ("auipc", "lui", "addi", "lw", "sw"):
            return ("immediate of '%s' at unrelaxed %#x changed to '%s'" % (a[6], cu.address + ou, b[6]), info)
    # symbols of the code section follow their instructions
    for sy in lu.symbols:
        if sy.section == "code":
            vu = lu.get_symbol_id_value(sy.id)
            vr = lr.get_symbol_id_value(lr.get_symbol(sy.name).id) if sy.binding == "global" else None
            if vr is not None and amap.get(vu) != vr:
                return ("symbol %s: unrelaxed %#x, relaxed %#x, but the instruction it labels moved to %s" % (sy.name, vu, vr, "%#x" % amap[vu] if vu in amap else "?"), info)
    du, dr = lu.get_section("data"), lr.get_section("data")
    skip = set()
    for r in lu.relocations:
        if r.section == "data":
            skip |= set(range(r.offset, r.offset + 4))
    for fname, args in case["calls"]:
        res = []
        for o in (lu, lr):
            mach = rv32.Machine(rvc=True, step_limit=200000)
            mach.load_object(o)
            mach.map_stack()
            try:
                # ppci's riscv convention: integer arguments in x12..x17, result in x10
                for reg, v in zip((12, 13), args):
                    mach.regs[reg] = v & 0xFFFFFFFF
                mach.call(o.get_symbol_id_value(o.get_symbol(fname).id), [])
                sec = o.get_section("data")
                mem = mach.read(sec.address, sec.size)
                res.append((mach.regs[10], bytes(b for i, b in enumerate(mem) if i not in skip), mach))
            except rv32.EmuError as e:
                res.append(e)
        if isinstance(res[0], Exception):
            info["classes"].append("unrelaxed_run_failed")
            continue
        if isinstance(res[1], Exception):
            return ("%s%r: unrelaxed image returns %#x, relaxed image: %s" % (fname, args, res[0][0], res[1]), info)
        used |= res[0][2].executed | res[1][2].executed
        if res[0][0] != res[1][0]:
            return ("%s%r returns %#x unrelaxed, %#x relaxed" % (fname, args, res[0][0], res[1][0]), info)
        if res[0][1] != res[1][1]:
            return ("%s%r leaves different data memory in the relaxed image" % (fname, args), info)
        info["ran"] = info.get("ran", 0) + 1
    return (None, info)
