"""C28 - compiler front-ends fail only with diagnostics, never internal errors (C, C3, textual IR).

case = {"lang": "c" | "c3" | "ir", "src": text, "features": [construct tags of the generator]}

C:  valid C99 (gcc -std=c99 -fsyntax-only -pedantic-errors is silent) from vf/gencdecl.py; ppci.api.c_to_ir +
    optimize at every level, then (a third of the inputs) ppci.api.cc(x86_64, -O2).  Two generator profiles: "supported"
    uses only constructs of the table SUPPORTED, "full" uses everything.
C3: modules from vf/genc3mini.py (constructs of docs/test_c3/librt only); c3_to_ir + optimize at every level, then c3c.
IR: print_module of vf/genir modules with whitespace variations; read_module + verify + optimize at every level.

Outcome = success | diagnostic (CompilerError and subclasses incl. IrFormError/ParseError, TaskError,
IrParseException) | internal error (anything else).  Internal errors whose innermost ppci frame lies in the back end
(ppci/codegen, ppci/arch, ppci/binutils) belong to C29 and are only counted.  A case whose feature tags are all
in SUPPORTED is in the supported stream (an internal error is a violation); other cases form the
unsupported-but-valid stream whose internal errors are only reported in the evidence.
"""

import contextlib
import io
import os
import re
import shutil
import subprocess
import traceback

from hypothesis import strategies as st

from .. import cfeat, fuzz, gencdecl, genc3mini, genir
from ..core import Discard, HarnessError, Stats, hyp_search, jhash, open_finding_ids, subseed
from . import c27

PID = "C28"
RULE = (
    "three Hypothesis streams: (1) C99 translation units from vf/gencdecl.py - enum/struct/union/bit-field type "
    "definitions, globals of every integer/float/pointer/array/struct/union type with in- and out-of-range constants, "
    "constant expressions (vf/cconst trees), designated/nested/elided/partial/string initialisers, address constants, "
    "function pointers, functions whose bodies nest if/while/do/for/switch (case labels in inner blocks, default not "
    "last, fall-through, nested switch)/goto/blocks with every operator - kept only when gcc -std=c99 -fsyntax-only "
    "-pedantic-errors accepts them; (2) C3 modules from vf/genc3mini.py (constants, struct/array/pointer types, "
    "initialised globals, functions with all statements and operators of docs + test_c3 + librt); (3) IR text = "
    "print_module of vf/genir modules with validity-preserving whitespace variations.  Each input is compiled at "
    "levels 0,1,2,s (front end + optimize); a third of the C/C3 inputs also go through the whole cc/c3c pipeline for "
    "x86_64 at -O2.  A case is in the supported stream when "
    "every construct tag it uses is backed by a use in ppci's docs/samples/tests (table SUPPORTED), else in the "
    "unsupported-but-valid stream (internal errors listed in evidence only).  non-trivial = uses an initialiser with "
    "a non-literal constant expression, an out-of-range constant, a nested aggregate, or control flow nested >= 2 deep "
    "(C), a struct/array/switch/loop (C3), >= 2 blocks (IR); distinct = hash of the source text. "
    "Thorough tier additionally: coverage-guided byte-level fuzzing of the C front end (atheris/libFuzzer, vf/fuzz.py; two campaigns of "
    "VERIF_FUZZ_RUNS (default 15000) executions from an empty corpus and from 30 small units of the supported profile): c_to_ir alone; on an "
    "internal exception gcc decides validity, the known findings are matched by classify(), and the supported subset is decided from "
    "construct tags recovered by an independent parse (vf/cfeat.py: clang -ast-dump=json + lexical whitelists; anything it cannot place "
    "goes to the unsupported stream); internal errors on invalid or unsupported inputs are only counted (coverage[\"fuzz\"])"
)
ASSUMPTIONS = [
    "gcc 12 -std=c99 -fsyntax-only -pedantic-errors decides validity of the C inputs",
    "C3 and IR inputs are valid by construction (no independent validator exists): a ppci diagnostic is an accepted outcome anyway",
    "internal errors raised from ppci/codegen, ppci/arch or ppci/binutils (instruction selection, register allocation, "
    "encoding) are back-end defects in the domain of C29 and are counted, not reported",
    "the value of a constant is not a construct: an initialiser constant outside the range of the declared type belongs "
    "to the supported subset because scalar initialisers with integer constants are used throughout ppci's samples",
]
TRUSTED = ["CPython", "Hypothesis", "gcc 12 (validity of C inputs)", "vf/gencdecl.py, vf/genc3mini.py, vf/genir.py (generators)",
           "thorough tier: atheris 3.1 / libFuzzer (input producer only), clang 14 AST + vf/cfeat.py (construct tags of fuzzed C units)"]
TECHNIQUE = "grammar/type-directed generation of valid C, C3 and IR text; crash oracle on the exception type, bucketed by innermost ppci frame"
LEVEL_TEXT = (
    "Exploration with a crash oracle: generated valid inputs in three languages are compiled at every optimisation "
    "level and the only accepted failures are the documented diagnostic exception types; every other exception is "
    "bucketed by (type, innermost ppci frame).  The input space is unbounded, so structured generation with "
    "per-construct supported/unsupported bookkeeping is the fitting level."
)
REGISTER = True

GCC = shutil.which("gcc")
LEVELS = [0, 1, 2, "s"]
BACKEND = ("codegen/", "arch/", "binutils/")
NOT_BACKEND = ("codegen/codegen.py:generate_global",)  # reached with a malformed Variable.value built by a front end

# construct tag -> where ppci's own material uses it (None = not found: unsupported-but-valid stream)
TC = "test/lang/c/test_c.py"
SUPPORTED = {
    # C declarations and initialisers
    "type:float": "test/samples/fp/fpmath.c:4",
    "type:struct": TC + ":249",
    "type:union": TC + ":359",
    "type:enum-variable": "test/samples/simple/initialization2.c:20",
    "enum:explicit-value": TC + ":438",
    "enum:negative-value": "examples/riscvmurax/csrc/nos/nOS.h:640",
    "bitfield": "test/samples/simple/bitfields.c:11",
    "bitfield:signed": "test/samples/simple/bitfields.c:18",
    "bitfield:unnamed": None,
    "decl:static-global": TC + ":84",
    "decl:qualifier": TC + ":240",
    "decl:static-function": "librt/libc/lib.c:71",
    "decl:array-size-from-initializer": "test/samples/simple/arrays.c:41",
    "init:out-of-range": "(value, not a construct) test/samples/simple/control_flow.c:58",
    "init:negative-constant": "test/samples/simple/arrays.c:43",
    "init:enumerator": "test/samples/simple/initialization2.c:21",
    "init:char-constant": TC + ":832",
    "init:float": "test/samples/fp/fpmath.c:4",
    "init:braced-scalar": None,
    "literal:float-suffix": None,
    "init:union": TC + ":359",
    "init:union-designated": None,
    "init:address-of-global": TC + ":835",
    "init:int-to-pointer-cast": TC + ":833 (int* ptr = (int*)0x1000;), test/samples/simple/arithmatic.c:4, examples/riscvpicorv32/csrc/bsp.c:8",
    "init:array-decay": None,
    "init:address-of-element": None,
    "init:array-plus-offset": None,
    "init:string-pointer": TC + ":910",
    "init:string-array": "test/samples/simple/initialization2.c:12",
    "init:string-exact-fit": "test/samples/simple/initialization2.c:14",
    "init:braced-string": None,
    "init:string-row": None,
    "init:designated-array": TC + ":837",
    "init:designated-struct": TC + ":836",
    "init:designated-out-of-order": TC + ":837",
    "init:nested-designator": TC + ":836 (.d.x = only; .f[i] = not found)",
    "init:partial-array": None,
    "init:partial-struct": None,
    "init:brace-elision": TC + ":388",
    "init:trailing-comma": TC + ":382",
    "init:bitfield": "test/samples/simple/bitfields.c:25",
    "init:nested-aggregate": "test/samples/simple/arrays.c:41, test/samples/simple/jitsample.c:17",
    "param:pointer": "test/samples/simple/jitsample.c:4",
    "param:struct-pointer": "test/samples/simple/alignment_issue.c:15",
    "param:opaque-pointer": TC + ":252 (struct s; struct s* p; - a pointer to a not yet complete struct)",
    "fn:pointer-return": "librt/libc/src/string/string.c:22",
    "expr:pointer-param": "test/samples/simple/jitsample.c:4",
    "fptr:global": None,
    "fptr:array": "test/samples/simple/fpointer.c:37",
    "fptr:call": "test/samples/simple/fpointer.c:29",
    "fptr:struct-member": "examples/riscvmurax/csrc/nos/nOS.h:922",
    "local:aggregate-initializer": "test/samples/simple/jitsample.c:16",
    "local:static": TC + ":67",
    "local:uninitialised": TC + ":133",
    # constant-expression operators (global initialisers, case labels, ...)
    "constexpr:lit": TC + ":438",
    "constexpr:charlit": TC + ":832",
    "constexpr:enum": TC + ":438",
    "constexpr:bin+": TC + ":438",
    "constexpr:bin-": "examples/c/sample10.c:11",
    "constexpr:bin*": "examples/c/sample10.c:11",
    "constexpr:bin/": TC + ":384",
    "constexpr:bin&": "test/samples/simple/initialization2.c:16",
    "constexpr:bin^": "test/samples/simple/initialization2.c:16",
    "constexpr:un-": "test/samples/simple/control_flow.c:64",
    "constexpr:sizeoft": "examples/c/sample8.c:5",
    "constexpr:sizeofe": "examples/c/sample10.c:11",
    "constexpr:octal-literal": None,
    # statements and expressions
    "expr:ternary": "test/samples/simple/ternary.c:5",
    "expr:sizeof": TC + ":521",
    "expr:member": TC + ":267",
    "expr:bitfield-access": "test/samples/simple/bitfields.c:27",
    "expr:call": TC + ":688",
    "expr:assign-in-expression": "examples/riscvmurax/csrc/nos/clib.c:188",
    "expr:incdec": "test/samples/simple/bitfields.c:27",
    "expr:comma": TC + ":193",
    "stmt:empty": "examples/riscvmurax/csrc/nos/clib.c:282",
    "stmt:while": "test/samples/simple/control_flow.c",
    "stmt:do-while": TC + ":111",
    "stmt:for": TC + ":118",
    "stmt:for-declaration": TC + ":133",
    "stmt:for-empty-clauses": TC + ":119",
    "stmt:continue": "test/samples/simple/control_flow.c:45",
    "stmt:nested-block": TC + ":275",
    "stmt:goto": TC + ":533",
    "stmt:goto-backward": TC + ":534",
    "stmt:switch": "test/samples/simple/control_flow.c:59",
    "stmt:switch-non-int": "test/samples/simple/control_flow.c:58 (char), " + TC + ":570 (short)",
    "stmt:switch-long": None,
    "stmt:fallthrough": "examples/riscvmurax/csrc/nos/clib.c:201",
    "stmt:default-not-last": None,
    "stmt:case-in-nested-block": None,
    "stmt:case-constant-expression": None,
    "stmt:empty-switch": None,
}
for _op in ("%", "<<", ">>", "|", "<", ">", "<=", ">=", "==", "!=", "&&", "||"):
    SUPPORTED["constexpr:bin" + _op] = None
for _t in ("constexpr:un~", "constexpr:un!", "constexpr:un+", "constexpr:tern", "constexpr:cast"):
    SUPPORTED[_t] = None
# C3 (all constructs of vf/genc3mini.py come from docs/test_c3/librt/samples; exceptions listed)
C3_UNSUPPORTED = {
    "stmt:default-not-last",  # test_c3.py always puts default last
    "const:op-", "const:op*",  # constants in the corpus only use literals, + and cast<>
    "init:global-wide-int",  # only int, byte, bool, float, pointer, array and struct globals are initialised in the corpus
}
C3_EVIDENCE = {
    "init:global-bool": "examples/riscvpicorv32/c3src/irq.c3:17",
    "init:global-pointer": "examples (const byte* DR = 0x84000004)",
    "sem:missing-return": "test/lang/test_c3.py:422 (expected diagnostic)",
    "init:literal-out-of-range": "(value, not a construct)",
}
# IR text: everything print_module prints is in the format


def stream_of(case):
    feats = case.get("features", ())
    if case["lang"] == "c":
        return "supported" if all(SUPPORTED.get(f) for f in feats) else "unsupported"
    if case["lang"] == "c3":
        return "unsupported" if set(feats) & C3_UNSUPPORTED else "supported"
    return "supported"


# open findings: id -> (lang, exception type, innermost frame, regex on the source | None)
FINDINGS = {
    "C28-KF1": ("c", "error", "lang/c/context.py:pack", None),
    "C28-KF2": ("c", "KeyError", "lang/c/eval.py:eval_binop", r"\bK\d+\b"),
    "C28-KF4": ("c3", "AssertionError", "lang/c3/codegenerator.py:gen_function", None),
    "C28-KF5": ("c3", "NotImplementedError", "codegen/codegen.py:generate_global", r"var (bool|\w+\s*\*) \w+ = "),
    "C28-KF6": ("c3", "error", "lang/c3/context.py:pack_int", None),
    "C28-KF7": ("ir", "NotImplementedError", "irutils/reader.py:parse_assignment", r" (rol|ror) "),
    "C28-KF8": ("ir", "KeyError", "irutils/reader.py:parse_type", r"memcpy"),
    "C28-KF9": ("ir", "AttributeError", "opt/mem2reg.py:promote", r"\balloc\b"),
}
# generator tags to avoid while a finding is open
AVOID = {
    "C28-KF1": ("init:out-of-range",),
    "C28-KF2": ("cx:enum",),
    "C28-KF4": ("sem:missing-return",),
    "C28-KF5": ("init:global-bool", "init:global-pointer"),
    "C28-KF6": ("init:literal-out-of-range",),
    "C28-KF7": ("ir:rotate",),
    "C28-KF8": ("ir:copyblob",),
    "C28-KF9": ("ir:optimize",),
}


def _frame(e):
    frame = "?"
    for fs in traceback.extract_tb(e.__traceback__):
        fn = fs.filename.replace("\\", "/")
        if "/ppci/" in fn and "/verif/" not in fn:
            frame = "%s:%s" % (fn.split("/ppci/")[-1], fs.name)
    return frame


def _guard(fn, stage):
    """-> None | ("diag", type) | ("internal" | "backend", type, frame, text, stage)"""
    from ppci.build.tasks import TaskError
    from ppci.common import CompilerError
    from ppci.irutils.reader import IrParseException

    try:
        with contextlib.redirect_stdout(io.StringIO()), contextlib.redirect_stderr(io.StringIO()):
            fn()  # (the C3 front end prints initialiser lists and its diagnostics)
    except (CompilerError, TaskError, IrParseException) as e:
        return ("diag", type(e).__name__, str(getattr(e, "msg", e))[:80])
    except RecursionError as e:
        return ("internal", "RecursionError", _frame(e), "", stage)
    except Exception as e:  # noqa
        fr = _frame(e)
        kind = "backend" if fr.startswith(BACKEND) and fr not in NOT_BACKEND else "internal"
        return (kind, type(e).__name__, fr, str(e)[:120], stage)
    return None


def compile_case(case):
    """-> ("ok",) | ("diag", type, text) | ("internal", type, frame, text, stage) | ("backend", ...)"""
    import ppci.api as api

    src, lang = case["src"], case["lang"]
    backend = None
    levels = LEVELS
    if lang == "ir" and "ir:no-mem2reg-phi" in case.get("features", ()):
        levels = [0]  # exclusion of C28-KF9: every higher level runs Mem2RegPromotor
    for lv in levels:
        if lang == "c":

            def fe():
                m = api.c_to_ir(io.StringIO(src), "x86_64")
                api.optimize(m, level=lv)

        elif lang == "c3":

            def fe():
                m = api.c3_to_ir([io.StringIO(src)], [], "x86_64")
                api.optimize(m, level=lv)

        else:

            def fe():
                from ppci.irutils import read_module, verify_module

                m = read_module(io.StringIO(src))
                verify_module(m)
                api.optimize(m, level=lv)
                verify_module(m)

        r = _guard(fe, "front end + optimize(level=%s)" % lv)
        if r is not None:
            if r[0] == "backend":
                backend = backend or r
                continue
            return r
    full = jhash(src) % 3 == 0  # the whole pipeline (back end included) on a third of the inputs
    if lang == "c" and full:
        r = _guard(lambda: api.cc(io.StringIO(src), "x86_64", opt_level=2), "cc(x86_64, O2)")
    elif lang == "c3" and (full or "init:global-" in " ".join(case.get("features", ()))):
        r = _guard(lambda: api.c3c([io.StringIO(src)], [], "x86_64", opt_level=2), "c3c(x86_64, O2)")
    else:
        r = None
    if r is not None and r[0] != "backend":
        return r
    backend = backend or r
    return backend or ("ok",)


def gcc_valid(src):
    p = subprocess.run([GCC, "-std=c99", "-fsyntax-only", "-pedantic-errors", "-x", "c", "-"], input=src, capture_output=True, text=True, env=dict(os.environ, LC_ALL="C"))
    return p.returncode == 0


def message(case, r):
    return "%s input (%s stream): internal error %s @ %s in %s: %s\nSIG=%s|%s\n%s" % (
        case["lang"], stream_of(case), r[1], r[2], r[4], r[3], r[1], r[2], case["src"][:1500])


def replay(case):
    if fuzz.is_case(case):
        return fuzz.replay_case(case, lambda d: fuzz_cfront(d, known_as_label=False))
    if case["lang"] == "c":
        if not GCC:
            raise HarnessError("gcc not found")
        if not gcc_valid(case["src"]):
            raise Discard("gcc rejects the input")
    r = compile_case(case)
    if r[0] == "internal" and stream_of(case) == "supported":
        return message(case, r)
    return None


def classify(case, msg):
    mo = re.search(r"^SIG=(.*)\|(.*)$", msg, re.M)
    if not mo:
        return None
    etype, frame = mo.group(1), mo.group(2)
    if fuzz.is_case(case):
        case = {"lang": "c", "src": fuzz.case_bytes(case).decode("utf-8", "ignore")}
    assumed_fixed = {x.strip() for x in os.environ.get("VERIF_C28_FIXED", "").split(",") if x.strip()}
    for kid, (lang, t, fr, rx) in FINDINGS.items():
        if kid in assumed_fixed:
            continue
        if lang == case["lang"] and t == etype and fr == frame and (rx is None or re.search(rx, case["src"])):
            return kid
    return None


# ---------------------------------------------------------------------------
# IR text variations


@st.composite
def ir_texts(draw, avoid=frozenset()):
    from ppci.irutils import print_module

    prof = genir.Profile(name="c28", max_funcs=2, max_blocks=5, rotates="ir:rotate" not in avoid, copyblob="ir:copyblob" not in avoid)
    desc = draw(genir.modules(prof))
    m = genir.build(desc)
    f = io.StringIO()
    print_module(m, file=f)
    lines = f.getvalue().split("\n")
    mode = draw(st.integers(0, 4))
    feats = ["blocks:%d" % min(3, max(len(fn["blocks"]) for fn in desc["functions"]))]
    avoided = [t for t in ("ir:rotate", "ir:copyblob") if t in avoid]
    if "ir:optimize" in avoid and any(i[0] == "alloc" for fn in desc["functions"] for b in fn["blocks"] for i in b["ins"]) and max(len(fn["blocks"]) for fn in desc["functions"]) > 1:
        feats.append("ir:no-mem2reg-phi")
        avoided.append("ir:optimize")
    if mode == 1:
        lines = [l.strip() for l in lines]
        feats.append("ws:no-indent")
    elif mode == 2:
        lines = [l.replace(" ", draw(st.sampled_from(["  ", "\t", " \t "]))) for l in lines]
        feats.append("ws:wide")
    elif mode == 3:
        out = []
        for l in lines:
            parts = l.split(" ")
            if len(parts) > 2 and "'" not in l and draw(st.integers(0, 3)) == 0:
                k = draw(st.integers(1, len(parts) - 1))
                out += [" ".join(parts[:k]), " ".join(parts[k:])]
            else:
                out.append(l)
        lines = out
        feats.append("ws:split-lines")
    elif mode == 4:
        lines = [x for l in lines for x in (l, "")]
        feats.append("ws:blank-lines")
    return {"lang": "ir", "src": "\n".join(lines), "features": feats, "avoided": avoided}


# ---------------------------------------------------------------------------
# search


def nontrivial(case):
    f = set(case.get("features", ()))
    if case["lang"] == "c":
        keys = {"init:out-of-range", "init:nested-aggregate", "init:designated-array", "init:designated-struct", "init:brace-elision"}
        deep = len(re.findall(r"\b(if|while|for|switch|do)\b", case["src"])) >= 2
        return bool(f & keys) or any(x.startswith("constexpr:bin") or x.startswith("constexpr:un") for x in f) or deep
    if case["lang"] == "c3":
        return bool(f & {"type:struct", "stmt:switch", "stmt:while", "stmt:for", "init:global-array", "init:global-struct"})
    return "blocks:1" not in f


def _worker(arg):
    seed, n, lang = arg
    profile = "full"
    if lang == "c-supported":
        lang, profile = "c", "supported"
    stats = Stats()
    # VERIF_C28_FIXED=id,id: treat these findings as repaired (exclusions off) - used with tools/withpatch.sh
    open_ids = set(open_finding_ids(PID)) - {x.strip() for x in os.environ.get("VERIF_C28_FIXED", "").split(",") if x.strip()}
    avoid = set()
    for kid in open_ids:
        avoid |= set(AVOID.get(kid, ()))
    if lang == "c":
        cavoid = frozenset(a for a in ("missing", "enum", "charlit") if ("cx:" + a) in avoid)
        if profile == "supported":
            # only constructs backed by ppci's own material: the supported stream by construction
            cfg = gencdecl.Cfg(avoid=avoid | {k for k, v in SUPPORTED.items() if not v}, const_expr="supported")
        else:
            cfg = gencdecl.Cfg(avoid=avoid, const_expr=lambda d: c27.exprs(d, {}, cavoid, []))
        strat = gencdecl.programs(cfg).map(lambda p: dict(p, lang="c"))
    elif lang == "c3":
        strat = genc3mini.modules(genc3mini.Cfg(avoid=avoid)).map(lambda p: dict(p, lang="c3"))
    else:
        strat = ir_texts(frozenset(avoid))

    def prop(case):
        if lang == "c":
            feats = set(case["features"])
            if re.search(r"(?<![\w.])0[0-7]+[uUlL]*\b", case["src"]):
                feats.add("constexpr:octal-literal")
            case["features"] = sorted(feats)
            if not gcc_valid(case["src"]):
                raise Discard("gcc rejects the generated C")
        for t in case.pop("avoided", ()):
            for kid in open_ids:
                if t in AVOID.get(kid, ()):
                    stats.excluded[kid] += 1
        r = compile_case(case)
        stream = stream_of(case)
        nt = nontrivial(case)
        cls = ["%s:%s" % (lang, stream), "%s:outcome:%s" % (lang, r[0])]
        if r[0] == "diag":
            cls.append("%s:%s:diag:%s" % (lang, stream, re.sub(r"[\d'\"]+", "_", r[2])[:40]))
        if r[0] == "backend":
            cls.append("backend(C29):%s@%s" % (r[1], r[2]))
        if r[0] == "internal" and stream == "unsupported":
            cls.append("unsupported-stream internal error:%s@%s" % (r[1], r[2]))
        stats.case(jhash(case["src"]), nt, {"lang": lang, "stream": stream, "outcome": r[0], "src": case["src"][:600]} if nt and r[0] == "ok" else None, classes=cls)
        if r[0] == "internal" and stream == "supported":
            return message(case, r)
        return None

    fails = hyp_search(strat, prop, n, seed, stats, classify=classify)
    return stats, [({k: v for k, v in c.items() if k != "avoided"}, m) for c, m in fails]


def run(ctx):
    if not GCC:
        raise HarnessError("gcc not found")
    import ppci.api  # noqa: F401

    ppci.api.get_arch("x86_64")
    nc, n3, ni = ctx.scale(256, 60000), ctx.scale(96, 30000), ctx.scale(64, 20000)
    args = []
    for w in range(8):
        args.append((subseed(ctx.seed, PID, "c", w), nc // 8, "c-supported" if w % 4 else "c"))
    for w in range(4):
        args.append((subseed(ctx.seed, PID, "c3", w), n3 // 4, "c3"))
    for w in range(4):
        args.append((subseed(ctx.seed, PID, "ir", w), ni // 4, "ir"))
    if not fuzz.only(ctx):
        ctx.pmap(_worker, args)
    if not ctx.quick:
        fuzz_layer(ctx)


# ---------------------------------------------------------------------------
# coverage-guided fuzzing of the C front end (thorough tier only; driver: vf/fuzz.py)

FUZZ_TARGET = "C28.cfront"
FUZZ_RUNS = 15000  # (one c_to_ir call of a 0.5 KB unit under coverage instrumentation costs 20-100 ms)
# byte-level mutations only; one per execution (libFuzzer's default of up to 5 stacked mutations leaves < 2 % of the
# mutants of a C unit compilable, so that the search never gets past the parser)
FUZZ_ARGS = ["-mutate_depth=1"]
# executions per libFuzzer run; between the runs the corpus is distilled to the units that compile (vf/fuzz.py).  Short
# runs: within a few hundred executions the corpus is dominated by rejected units again
FUZZ_ROUND = 400
FUZZ_DICT = [w.encode() for w in sorted(cfeat.KEYWORDS_OK)] + [b"<<=", b">>=", b"++", b"--", b"<<", b">>", b"<=", b">=", b"==", b"!=", b"&&", b"||",
             b"+=", b"-=", b"*=", b"/=", b"%=", b"&=", b"|=", b"^=", b" = { ", b" };\n", b"0x", b"u", b"l", b"ul", b"lu", b"ll", b"ull", b"llu", b"U", b"L", b"UL", b"LU", b"LL", b"ULL", b"LLU", b"'a'", b"'\\n'", b"'\\0'", b"\"ab\"", b"1.5", b"1e3",
             b"[2]", b"[0] = ", b".m1 = ", b": 3;", b"case 1: ;", b"default: ;", b"int g1", b"int f1(void) {", b"return 0;", b"\t", b"\n", b"  ", b" \t "]  # fmt: skip


def _gcc_valid_bounded(src):
    try:
        p = subprocess.run([GCC, "-std=c99", "-fsyntax-only", "-pedantic-errors", "-x", "c", "-"], input=src.encode("utf-8", "ignore"),
                           capture_output=True, env=dict(os.environ, LC_ALL="C"), timeout=120)  # fmt: skip
    except (OSError, subprocess.TimeoutExpired):
        return False
    return p.returncode == 0


def fuzz_features(src):
    """Construct tags of a mutated unit (vf/cfeat.py: clang's AST + lexical rules); None = undecided."""
    try:
        return cfeat.tags(src)
    except (RecursionError, MemoryError, KeyError, TypeError, AttributeError, IndexError, ValueError):
        return None  # an AST shape the walker does not know: undecided, i.e. not reported


def fuzz_cfront(data, known_as_label=True):
    """One fuzz input = bytes of a would-be C translation unit.  Returns an outcome label; raises fuzz.Failure on a C28
    violation.  Cheap path first: c_to_ir alone; success and diagnostics are fine.  Only on an internal exception gcc
    decides whether the input is valid C99; for a valid one the known findings (classify) and the supported subset
    (stream_of over the construct tags recovered by vf/cfeat.py) are applied exactly as for generated inputs."""
    import ppci.api as api

    text = data.decode("utf-8", "ignore")
    r = _guard(lambda: api.c_to_ir(io.StringIO(text), "x86_64"), "c_to_ir")
    if r is None:
        return "ok"
    if r[0] == "diag":
        return "diagnostic:" + r[1]
    bucket = "%s@%s" % (r[1], r[2])
    if r[1] in ("RecursionError", "MemoryError"):
        return "resource:" + r[1]
    if r[0] == "backend":
        return "backend(C29):" + bucket
    lex = cfeat.lexical_tags(text)  # cheap: no subprocess
    if any(t.startswith("invalid:") for t in lex):
        return "invalid C (lexical), internal error:" + bucket
    if any(not SUPPORTED.get(t) for t in lex):
        return "outside the supported subset (lexical; validity not asked), internal error:" + bucket
    if not GCC or not _gcc_valid_bounded(text):
        return "invalid C, internal error:" + bucket
    case = {"lang": "c", "src": text, "features": []}
    kid = classify(case, message(case, r)) if known_as_label else None  # (replay reports; the runner classifies)
    if kid and kid in open_finding_ids(PID):
        return "known:" + kid
    tags = fuzz_features(text)
    if tags is None:
        return "valid C, stream undecided (clang), internal error:" + bucket
    case["features"] = sorted(tags)
    if stream_of(case) != "supported":
        return "unsupported-stream internal error:%s [%s]" % (bucket, ",".join(sorted(tags))[:80])
    raise fuzz.Failure("fuzzed " + message(case, r), bucket)


def fuzz_cfront_keep(label):
    """corpus distillation between the rounds of a campaign: go on from units that compile"""
    return label == "ok" or label.startswith("known:")


def fuzz_seeds(seed):
    """~30 small units of the supported profile (gcc-valid)"""
    open_ids = set(open_finding_ids(PID))
    avoid = set()
    for kid in open_ids:
        avoid |= set(AVOID.get(kid, ()))
    cfg = gencdecl.Cfg(avoid=avoid | {k for k, v in SUPPORTED.items() if not v}, const_expr="supported", max_funcs=2, max_globals=5, max_depth=2)
    seeds = []
    for c in fuzz.collect(gencdecl.programs(cfg), 120, subseed(seed, PID, "fuzz-seeds")):
        b = c["src"].encode()
        if 40 <= len(b) <= 1500 and b not in seeds and gcc_valid(c["src"]):
            seeds.append(b)
        if len(seeds) >= 30:
            break
    return seeds


def fuzz_layer(ctx):
    try:
        info = {}
        fails = fuzz.campaign(FUZZ_TARGET, fuzz_cfront, fuzz_seeds(ctx.seed), fuzz.runs(FUZZ_RUNS), subseed(ctx.seed, PID, "fuzz"),
                              ctx.tmpdir(), dictionary=FUZZ_DICT, info=info, libfuzzer_args=FUZZ_ARGS, rounds=max(4, fuzz.runs(FUZZ_RUNS) // FUZZ_ROUND))  # fmt: skip
    except ImportError:
        ctx.stats.notes.append("atheris unavailable")
        return
    ctx.extra["fuzz"] = info
    for data, msg in fails:
        ctx.fail(fuzz.case(FUZZ_TARGET, data), msg)
