"""C33 - integer range sets behave as mathematical sets.

Code under test: ppci/utils/integer_set.py (IntegerSet, merge_overlapping_intervals).

Two oracles, both written without interval merging loops:

* small universe: the Python ``set`` of the integers a list of input items denotes;
  the canonical range form of a set is computed by grouping the sorted elements on
  ``element - position`` (constant inside a run of consecutive integers);
* large integers: coordinate compression - every endpoint becomes a breakpoint, a set
  is the Python ``set`` of elementary-segment indices it covers, results are mapped
  back to ranges by the same grouping trick.

A case is ``{"a": items, "b": items}``; an item is an int or ``[lo, hi]`` (inclusive, a
range with lo > hi is empty).
"""

import itertools

from hypothesis import strategies as st

from ..core import Stats, hyp_search, subseed

PID = "C33"
RULE = (
    "exhaustive part 1: every list of up to 3 (thorough: 4) input items over the universe -3..3, an item "
    "being an int or any (lo,hi) tuple incl. reversed (empty) ones - constructor result, iteration, len, "
    "bool, membership vs the Python set of denoted integers; exhaustive part 2: all 128x128 pairs of "
    "subsets of the universe, each subset built from 4 representations (canonical runs, single ints in "
    "descending order, overlapping+nested+reversed-empty ranges, adjacent pieces in reverse order), all "
    "16 representation combinations, operations | & - ^ == hash; Hypothesis part: pairs of item lists "
    "whose endpoints are big anchors (up to 2^70) plus small offsets so that adjacency/overlap/nesting "
    "occur, against a coordinate-compression oracle. Every result must be in canonical form (equal to the "
    "unique sorted/disjoint/non-adjacent range tuple of the reference set). non-trivial = both operands "
    "non-empty and one of them has >= 2 ranges or was built from overlapping/adjacent items (part 1: at "
    "least 2 non-empty items); distinct = (set A, set B, operation) resp. the item list"
)
ASSUMPTIONS = [
    "input items are ints or (lo, hi) tuples of ints, as the constructor documents; operands of the binary "
    "operations are IntegerSet objects produced by the constructor or by other operations",
    "len() is only asked for sets with fewer than 2^63 elements (CPython restricts __len__), cardinality() otherwise",
]
TRUSTED = ["CPython set/sorted/itertools.groupby", "Hypothesis", "reference oracles in vf/props/c33.py"]
REGISTER = True
TECHNIQUE = "exhaustive enumeration over a 7-element universe + Hypothesis big-integer sets against set/coordinate-compression oracles"
LEVEL_TEXT = (
    "Exploration, exhaustive on the small domain: every pair of subsets of a 7-element universe in every "
    "combination of four input representations, and every list of up to 3 (thorough 4) arbitrary input ranges, is "
    "compared with Python set semantics, including the canonical form of every result. All interval-boundary "
    "relations (before, adjacent, overlapping, nested, equal endpoints) between two ranges occur inside 7 elements; "
    "the Hypothesis part checks that nothing depends on the magnitude of the integers. The code is a pure function "
    "of small data, so enumeration is the right level."
)

UNIVERSE = list(range(-3, 4))
OPS = ("or", "and", "sub", "xor")


# ---------------------------------------------------------------------------
# reference side


def norm_items(items):
    """json items -> constructor arguments."""
    out = []
    for it in items:
        if isinstance(it, (list, tuple)):
            out.append((int(it[0]), int(it[1])))
        else:
            out.append(int(it))
    return out


def denote(items):
    """Python set of the integers denoted by constructor arguments (small ranges only)."""
    s = set()
    for it in items:
        if isinstance(it, tuple):
            s.update(range(it[0], it[1] + 1))
        else:
            s.add(it)
    return s


def runs_of(sorted_values):
    """Canonical range tuple of an ascending sequence of distinct integers."""
    out = []
    for _, grp in itertools.groupby(enumerate(sorted_values), key=lambda p: p[1] - p[0]):
        grp = list(grp)
        out.append((grp[0][1], grp[-1][1]))
    return tuple(out)


def canon(s):
    return runs_of(sorted(s))


def is_canonical(ranges):
    """The form the statement asks for, checked directly on a result."""
    if not isinstance(ranges, tuple):
        return False
    prev_hi = None
    for r in ranges:
        if not (isinstance(r, tuple) and len(r) == 2):
            return False
        lo, hi = r
        if not (isinstance(lo, int) and isinstance(hi, int)) or lo > hi:
            return False
        if prev_hi is not None and lo <= prev_hi + 1:
            return False
        prev_hi = hi
    return True


PY_OPS = {
    "or": lambda a, b: a | b,
    "and": lambda a, b: a & b,
    "sub": lambda a, b: a - b,
    "xor": lambda a, b: a ^ b,
}
METHODS = {"or": "union", "and": "intersection", "sub": "difference", "xor": "symmetric_difference"}


def check_unary(x, ref, probes, what):
    """IntegerSet x against the Python set ref; probes = integers for the membership test."""
    want = canon(ref)
    if not is_canonical(x.ranges):
        return "%s: ranges %r are not in canonical form" % (what, x.ranges)
    if x.ranges != want:
        return "%s: ranges %r, expected %r" % (what, x.ranges, want)
    if list(x) != sorted(ref):
        return "%s: iteration gives %r, expected %r" % (what, list(x), sorted(ref))
    if len(x) != len(ref) or x.cardinality() != len(ref):
        return "%s: len %r / cardinality %r, expected %d" % (what, len(x), x.cardinality(), len(ref))
    if bool(x) != bool(ref) or x.empty() != (not ref):
        return "%s: bool %r / empty() %r, expected bool %r" % (what, bool(x), x.empty(), bool(ref))
    for p in probes:
        if (p in x) != (p in ref) or x.contains(p) != (p in ref):
            return "%s: membership of %d is %r, expected %r" % (what, p, p in x, p in ref)
    return None


def check_pair_small(ia, ib):
    """Everything the statement asks of two item lists over a small span (set oracle)."""
    from ppci.utils.integer_set import IntegerSet

    sa, sb = denote(ia), denote(ib)
    both = sa | sb
    probes = range(min(both) - 2, max(both) + 3) if both else range(-2, 3)
    a, b = IntegerSet(*ia), IntegerSet(*ib)
    ra, rb = a.ranges, b.ranges
    for x, s, name in ((a, sa, "A"), (b, sb, "B")):
        msg = check_unary(x, s, probes, "IntegerSet(%s)" % name)
        if msg:
            return msg
    for op in OPS:
        want = PY_OPS[op](sa, sb)
        for how, res in (("operator", PY_OPS[op](a, b)), ("method", getattr(a, METHODS[op])(b))):
            if type(res) is not IntegerSet:
                return "A %s B (%s) returns %r" % (op, how, type(res))
            msg = check_unary(res, want, probes, "A %s B (%s)" % (op, how))
            if msg:
                return msg
            if (res == IntegerSet(*sorted(want))) is not True or hash(res) != hash(IntegerSet(*sorted(want))):
                return "A %s B does not compare/hash equal to the same set built from single integers" % op
        if a.ranges != ra or b.ranges != rb:
            return "operation %s modified an operand" % op
    msg = check_eq(a, b, sa == sb)
    if msg:
        return msg
    return None


def check_eq(a, b, same):
    if (a == b) is not same or (b == a) is not same or (a != b) is same:
        return "A == B is %r, A != B is %r, expected equal=%r" % (a == b, a != b, same)
    if same and hash(a) != hash(b):
        return "equal sets have different hashes"
    return None


# -- coordinate compression oracle (large integers) -----------------------------


def _nonempty(items):
    out = []
    for it in items:
        lo, hi = it if isinstance(it, tuple) else (it, it)
        if lo <= hi:
            out.append((lo, hi))
    return out


class Compressed:
    def __init__(self, *item_lists):
        pts = set()
        for items in item_lists:
            for lo, hi in _nonempty(items):
                pts.add(lo)
                pts.add(hi + 1)
        self.pts = sorted(pts)

    def cover(self, items):
        rs = _nonempty(items)
        p = self.pts
        return {k for k in range(len(p) - 1) if any(lo <= p[k] and p[k + 1] - 1 <= hi for lo, hi in rs)}

    def ranges(self, segs):
        p = self.pts
        return tuple((p[k0], p[k1 + 1] - 1) for k0, k1 in runs_of(sorted(segs)))

    def size(self, segs):
        return sum(self.pts[k + 1] - self.pts[k] for k in segs)


def first_elements(ranges, n):
    out = []
    for lo, hi in ranges:
        v = lo
        while v <= hi and len(out) < n:
            out.append(v)
            v += 1
    return out


def check_big_unary(x, want, size, items_for_membership, probes, what):
    if not is_canonical(x.ranges):
        return "%s: ranges %r are not in canonical form" % (what, x.ranges)
    if x.ranges != want:
        return "%s: ranges %r, expected %r" % (what, x.ranges, want)
    if x.cardinality() != size:
        return "%s: cardinality %r, expected %d" % (what, x.cardinality(), size)
    if size < 2**63 and len(x) != size:
        return "%s: len %r, expected %d" % (what, len(x), size)
    if bool(x) != (size > 0):
        return "%s: bool %r for a set of %d elements" % (what, bool(x), size)
    got = list(itertools.islice(iter(x), 40))
    if got != first_elements(want, 40):
        return "%s: iteration starts %r, expected %r" % (what, got, first_elements(want, 40))
    if items_for_membership is not None:
        for p in probes:
            exp = items_for_membership(p)
            if (p in x) != exp:
                return "%s: membership of %d is %r, expected %r" % (what, p, p in x, exp)
    return None


def check_pair_big(ia, ib):
    from ppci.utils.integer_set import IntegerSet

    cc = Compressed(ia, ib)
    ca, cb = cc.cover(ia), cc.cover(ib)
    na, nb = _nonempty(ia), _nonempty(ib)
    probes = sorted({p + d for p in cc.pts for d in (-2, -1, 0, 1)})
    if len(cc.pts) >= 2:
        probes += [(cc.pts[k] + cc.pts[k + 1]) // 2 for k in range(len(cc.pts) - 1)]

    def in_a(p):
        return any(lo <= p <= hi for lo, hi in na)

    def in_b(p):
        return any(lo <= p <= hi for lo, hi in nb)

    a, b = IntegerSet(*ia), IntegerSet(*ib)
    for x, c, f, name in ((a, ca, in_a, "A"), (b, cb, in_b, "B")):
        msg = check_big_unary(x, cc.ranges(c), cc.size(c), f, probes, "IntegerSet(%s)" % name)
        if msg:
            return msg
    memb = {
        "or": lambda p: in_a(p) or in_b(p),
        "and": lambda p: in_a(p) and in_b(p),
        "sub": lambda p: in_a(p) and not in_b(p),
        "xor": lambda p: in_a(p) != in_b(p),
    }
    for op in OPS:
        c = PY_OPS[op](ca, cb)
        res = PY_OPS[op](a, b)
        if type(res) is not IntegerSet:
            return "A %s B returns %r" % (op, type(res))
        msg = check_big_unary(res, cc.ranges(c), cc.size(c), memb[op], probes, "A %s B" % op)
        if msg:
            return msg
        res2 = getattr(a, METHODS[op])(b)
        if res2.ranges != res.ranges:
            return "A.%s(B) = %r differs from the operator result %r" % (METHODS[op], res2.ranges, res.ranges)
        again = IntegerSet(*cc.ranges(c))
        if (res == again) is not True or hash(res) != hash(again):
            return "A %s B does not compare/hash equal to the same set built from its canonical ranges" % op
    return check_eq(a, b, ca == cb)


def span_small(ia, ib):
    ne = _nonempty(ia) + _nonempty(ib)
    if not ne:
        return True
    return max(hi for _, hi in ne) - min(lo for lo, _ in ne) <= 4096


def check_case(ia, ib):
    if span_small(ia, ib):
        msg = check_pair_small(ia, ib)
        if msg:
            return msg
    return check_pair_big(ia, ib)


def replay(case):
    return check_case(norm_items(case["a"]), norm_items(case["b"]))


def to_json(items):
    return [list(it) if isinstance(it, tuple) else it for it in items]


# ---------------------------------------------------------------------------
# exhaustive part 1: constructor over arbitrary item lists

ITEMS = [v for v in UNIVERSE] + [(a, b) for a in UNIVERSE for b in UNIVERSE]


def _ctor_worker(arg):
    shard, nshards, maxlen = arg
    from ppci.utils.integer_set import IntegerSet

    stats = Stats()
    fails = []
    probes = range(UNIVERSE[0] - 2, UNIVERSE[-1] + 3)
    n = nt = 0
    hist = {}
    idx = 0
    for length in range(0, maxlen + 1):
        for combo in itertools.product(ITEMS, repeat=length):
            idx += 1
            if idx % nshards != shard:
                continue
            n += 1
            ref = denote(combo)
            x = IntegerSet(*combo)
            # fast path: the complete comparison only when the cheap one passes
            if x.ranges != canon(ref) or len(x) != len(ref):
                msg = check_unary(x, ref, probes, "IntegerSet(*items)") or "len mismatch"
                if len(fails) < 3:
                    fails.append(({"a": to_json(combo), "b": []}, msg))
                continue
            if n % 7 == 0:
                msg = check_unary(x, ref, probes, "IntegerSet(*items)")
                if msg and len(fails) < 3:
                    fails.append(({"a": to_json(combo), "b": []}, msg))
            nonempty = sum(1 for it in combo if not isinstance(it, tuple) or it[0] <= it[1])
            if nonempty >= 2:
                nt += 1
            k = "ctor_items=%d_runs=%d" % (length, len(x.ranges))
            hist[k] = hist.get(k, 0) + 1
            if shard == 0 and nonempty >= 2 and len(stats.samples) < 1 and length == maxlen and len(x.ranges) == 2:
                stats.sample({"a": to_json(combo), "b": [], "ranges": [list(r) for r in x.ranges]})
    stats.bulk(n, nt, hist)
    return stats, fails


# ---------------------------------------------------------------------------
# exhaustive part 2: all pairs of subsets, several representations


def subset(i):
    return [u for k, u in enumerate(UNIVERSE) if i >> k & 1]


def representations(i):
    """Four argument lists that all denote subset i of the universe."""
    elems = subset(i)
    runs = canon(elems)
    rep0 = list(runs)
    rep1 = sorted(elems, reverse=True)
    rep2 = []
    for lo, hi in runs:
        if lo < hi:
            rep2 += [(lo + 1, hi), (lo, hi - 1), (lo, lo), (hi, lo)]  # overlapping, nested, reversed-empty
        else:
            rep2 += [(lo, hi), lo, (lo + 1, lo)]
    rep3 = []
    for lo, hi in runs:
        mid = (lo + hi) // 2
        if lo < hi:
            rep3 += [(lo, mid), (mid + 1, hi)]  # adjacent pieces
        else:
            rep3 += [(lo, hi)]
    rep3.reverse()
    return [rep0, rep1, rep2, rep3]


def _pairs_worker(arg):
    shard, nshards = arg
    from ppci.utils.integer_set import IntegerSet

    stats = Stats()
    fails = []
    nsub = 1 << len(UNIVERSE)
    reps = [representations(i) for i in range(nsub)]
    sets = [set(subset(i)) for i in range(nsub)]
    canons = [canon(s) for s in sets]
    # reference results indexed by subset bit masks
    built = [[IntegerSet(*r) for r in reps[i]] for i in range(nsub)]
    n = nt = 0
    hist = {}
    probes = range(UNIVERSE[0] - 2, UNIVERSE[-1] + 3)
    for i in range(shard, nsub, nshards):
        for j in range(nsub):
            want = {"or": canons[i | j], "and": canons[i & j], "sub": canons[i & ~j], "xor": canons[i ^ j]}
            nontriv = bool(i and j) and (len(canons[i]) >= 2 or len(canons[j]) >= 2 or max(len(sets[i]), len(sets[j])) >= 2)
            bad = False
            for ra in range(4):
                a = built[i][ra]
                for rb in range(4):
                    b = built[j][rb]
                    ok = (
                        (a | b).ranges == want["or"]
                        and (a & b).ranges == want["and"]
                        and (a - b).ranges == want["sub"]
                        and (a ^ b).ranges == want["xor"]
                        and (a == b) is (i == j)
                        and (i != j or hash(a) == hash(b))
                    )
                    n += 5
                    if not ok and not bad:
                        bad = True
                        msg = check_pair_small(norm_items(reps[i][ra]), norm_items(reps[j][rb])) or "fast path and full check disagree"
                        if len(fails) < 3:
                            fails.append(({"a": to_json(reps[i][ra]), "b": to_json(reps[j][rb])}, msg))
            # the complete check (iteration, membership, methods, operands unchanged) once per pair
            ra, rb = (i + j) % 4, (i ^ j) % 4
            msg = check_pair_small(norm_items(reps[i][ra]), norm_items(reps[j][rb]))
            if msg and not bad and len(fails) < 3:
                fails.append(({"a": to_json(reps[i][ra]), "b": to_json(reps[j][rb])}, msg))
            if nontriv:
                nt += 5
            k = "pair_runs=%d,%d" % (len(canons[i]), len(canons[j]))
            hist[k] = hist.get(k, 0) + 1
            if shard in (1, 2) and nontriv and len(stats.samples) < 1 and len(canons[i]) >= 2 and len(canons[j]) >= 2 and (i & j) and (i & ~j):
                stats.sample(
                    {"a": to_json(reps[i][2]), "b": to_json(reps[j][3]), "a|b": [list(r) for r in want["or"]], "a-b": [list(r) for r in want["sub"]]}
                )
    stats.bulk(n, nt, hist)
    return stats, fails


# ---------------------------------------------------------------------------
# Hypothesis part: large integers


@st.composite
def big_case(draw):
    nanch = draw(st.integers(1, 3))
    bits = draw(st.integers(8, 70))
    anchors = [
        draw(
            st.one_of(
                st.integers(-(2**bits), 2**bits),
                st.builds(lambda sgn, d: sgn * 2**bits + d, st.sampled_from([-1, 1]), st.integers(-100, 100)),
            )
        )
        for _ in range(nanch)
    ]

    def point():
        return anchors[draw(st.integers(0, nanch - 1))] + draw(st.integers(-4, 4))

    def items():
        out = []
        for _ in range(draw(st.integers(0, 5))):
            kind = draw(st.integers(0, 9))
            p, q = point(), point()
            if kind == 0:
                out.append(p)
            elif kind == 1:
                out.append((p, q))  # possibly reversed = empty
            else:
                out.append((min(p, q), max(p, q)))
        return out

    return {"a": to_json(items()), "b": to_json(items())}


def _hyp_worker(arg):
    seed, n = arg
    stats = Stats()

    def prop(case):
        ia, ib = norm_items(case["a"]), norm_items(case["b"])
        msg = check_case(ia, ib)
        na, nb = _nonempty(ia), _nonempty(ib)
        cc = Compressed(ia, ib)
        runs_a, runs_b = cc.ranges(cc.cover(ia)), cc.ranges(cc.cover(ib))
        nontriv = bool(na and nb) and (len(runs_a) >= 2 or len(runs_b) >= 2 or len(na) > len(runs_a) or len(nb) > len(runs_b))
        big = max([abs(v) for lo, hi in na + nb for v in (lo, hi)] or [0])
        cls = ["big_runs=%d,%d" % (min(len(runs_a), 3), min(len(runs_b), 3)), "big_magnitude_bits=%d0s" % (big.bit_length() // 10)]
        if len(na) > len(runs_a) or len(nb) > len(runs_b):
            cls.append("big_merged_inputs")
        stats.case(("big", case["a"], case["b"]), nontriv, case if big > 2**40 and len(runs_a) >= 2 and not stats.samples else None, classes=cls)
        return msg

    fails = hyp_search(big_case(), prop, n, seed, stats)
    return stats, fails


def _all_worker(arg):
    shard, maxlen, seed, n = arg
    stats = Stats()
    fails = []
    for part in (_ctor_worker((shard, 16, maxlen)), _pairs_worker((shard, 16)), _hyp_worker((seed, n))):
        stats.merge(part[0])
        fails.extend(part[1])
    return stats, fails


def run(ctx):
    maxlen = ctx.scale(3, 4)
    n = ctx.scale(3200, 240000)
    ctx.pmap(_all_worker, [(w, maxlen, subseed(ctx.seed, PID, w), n // 16) for w in range(16)])
    ctx.exhaustive = True
    ctx.extra["exhaustive_domain"] = (
        "all item lists of length <= %d over ints and (lo,hi) tuples in -3..3; all 128x128 subset pairs x 16 representation combinations"
        % maxlen
    )
