"""C31 - regular-expression automata accept exactly the expression's language."""

import contextlib
import io
import re
import traceback
import warnings

from hypothesis import strategies as st

from .. import core
from ..core import Discard, Stats, hyp_search, subseed

PID = "C31"
RULE = (
    "all regex ASTs up to size 5 (thorough: 6) over the atoms a, b, \\*, ., [ab], [a-b] with "
    "concatenation, alternation, * + ?, each rendered minimally and fully parenthesised, against all "
    "strings up to length 5 over {a,b,c} (plus '*' when the pattern escapes it); Hypothesis-built larger "
    "expressions (more literals, escapes and classes) against all short strings plus sampled members and "
    "near-members. Oracle: re.fullmatch on the same pattern text (cross-checked by a position-set matcher "
    "on the reference AST); ppci side: running the table returned by compile(); for non-nullable "
    "expressions scan() against a reference maximal-munch loop, and make_scanner() token streams. "
    "A case = (pattern, string); non-trivial = pattern has >= 2 different operators and the string is "
    "non-empty; distinct = (pattern text, string)"
)
ASSUMPTIONS = [
    "supported syntax = literals, backslash-escaped metacharacters, '.', positive classes with ranges, "
    "groups, '|', concatenation, one postfix operator * + ? per element (stacked ones written through a group)",
    "input characters are ASCII without newline (ppci's SIGMA is 0..255; re's '.' excludes newline)",
    "re.fullmatch decides membership correctly for this syntax (cross-checked by an independent matcher)",
]
TRUSTED = ["CPython re", "Hypothesis", "reference parser/matcher in vf/props/c31.py"]
REGISTER = True
TECHNIQUE = "exhaustive small-AST x all-short-strings enumeration + Hypothesis larger expressions against re.fullmatch"
LEVEL_TEXT = (
    "Exploration, exhaustive for all expressions up to AST size 5 and all strings up to length 5: the DFA "
    "tables are run on every string and compared with re.fullmatch, and the scanner with a reference "
    "maximal-munch loop. Parser precedence and derivative-simplification mistakes are shape dependent and "
    "small, so exhaustive small shapes plus random larger ones is the right level; no proof of the "
    "derivative construction is attempted."
)

META = ".*+?|()[]\\"
UNARY = {"star": "*", "plus": "+", "opt": "?"}
SYM2UN = {v: k for k, v in UNARY.items()}
FOREIGN = "\x01"


# ---------------------------------------------------------------------------
# reference AST:  ("set", frozenset(chars)) ("dot",) ("cat",x,y) ("alt",x,y) ("star",x) ("plus",x) ("opt",x)
# generator AST additionally uses ("atom", text)


class Unsupported(Exception):
    pass


class RefParser:
    """Parser for the supported syntax with the usual precedence (postfix > concatenation > '|')."""

    def __init__(self, txt):
        self.t = txt
        self.p = 0

    def peek(self):
        return self.t[self.p] if self.p < len(self.t) else None

    def take(self):
        c = self.peek()
        if c is None:
            raise Unsupported("unexpected end")
        self.p += 1
        return c

    def parse(self):
        e = self.alt()
        if self.p != len(self.t):
            raise Unsupported("unbalanced ')'")
        return e

    def alt(self):
        e = self.cat()
        while self.peek() == "|":
            self.take()
            e = ("alt", e, self.cat())
        return e

    def cat(self):
        items = []
        while self.peek() is not None and self.peek() not in "|)":
            items.append(self.post())
        if not items:
            raise Unsupported("empty alternative")
        e = items[0]
        for x in items[1:]:
            e = ("cat", e, x)
        return e

    def post(self):
        e = self.base()
        c = self.peek()
        if c is not None and c in "*+?":
            self.take()
            e = (SYM2UN[c], e)
            c = self.peek()
            if c is not None and c in "*+?":
                raise Unsupported("stacked postfix operator")
        if self.peek() == "{":
            raise Unsupported("brace")
        return e

    def escaped(self):
        c = self.take()
        if c not in META and c not in "-^":
            raise Unsupported("escape of non-metacharacter")
        return c

    def base(self):
        c = self.take()
        if c == "(":
            if self.peek() == "?":
                raise Unsupported("(? extension")
            e = self.alt()
            if self.peek() != ")":
                raise Unsupported("missing ')'")
            self.take()
            return e
        if c == "[":
            return self.cls()
        if c == ".":
            return ("dot",)
        if c == "\\":
            return ("set", frozenset(self.escaped()))
        if c in "*+?{}^$]\n" or ord(c) > 126 or ord(c) < 32:
            raise Unsupported("bare %r" % c)
        return ("set", frozenset(c))

    def cls(self):
        if self.peek() == "^":
            raise Unsupported("negated class")
        chars = set()
        n = 0
        while self.peek() != "]":
            lo = self.cls_char()
            if self.peek() == "-":
                self.take()
                if self.peek() == "]":
                    raise Unsupported("trailing '-' in class")
                hi = self.cls_char()
                if not lo < hi:
                    raise Unsupported("class range not increasing")
                chars.update(chr(x) for x in range(ord(lo), ord(hi) + 1))
            else:
                chars.add(lo)
            n += 1
        self.take()
        if not n:
            raise Unsupported("empty class")
        return ("set", frozenset(chars))

    def cls_char(self):
        c = self.take()
        if c == "\\":
            return self.escaped()
        if c in "[^-" or ord(c) > 126 or ord(c) < 32:
            raise Unsupported("bare %r in class" % c)
        return c


def ref_parse(txt):
    return RefParser(txt).parse()


def ends(node, s, i, memo):
    """Set of end positions of matches of node in s starting at i (denotational)."""
    key = (id(node), i)
    r = memo.get(key)
    if r is not None:
        return r
    k = node[0]
    if k == "set":
        r = {i + 1} if i < len(s) and s[i] in node[1] else set()
    elif k == "dot":
        r = {i + 1} if i < len(s) and s[i] != "\n" else set()
    elif k == "cat":
        r = set()
        for j in ends(node[1], s, i, memo):
            r |= ends(node[2], s, j, memo)
    elif k == "alt":
        r = ends(node[1], s, i, memo) | ends(node[2], s, i, memo)
    elif k == "opt":
        r = {i} | ends(node[1], s, i, memo)
    else:  # star, plus
        first = ends(node[1], s, i, memo)
        r = set(first)
        todo = list(first)
        while todo:
            j = todo.pop()
            for e in ends(node[1], s, j, memo):
                if e not in r:
                    r.add(e)
                    todo.append(e)
        if k == "star":
            r.add(i)
    memo[key] = r
    return r


def ref_match(ast, s):
    return len(s) in ends(ast, s, 0, {})


def loop_depth(ast):
    if ast[0] in ("set", "dot"):
        return 0
    d = max(loop_depth(x) for x in ast[1:])
    return d + 1 if ast[0] in ("star", "plus") else d


def simple_loops(ast, inside=False):
    """No star/plus operand contains an alternation or a quantifier."""
    if ast[0] in ("set", "dot"):
        return True
    if inside and ast[0] != "cat":
        return False
    inside = inside or ast[0] in ("star", "plus")
    return all(simple_loops(x, inside) for x in ast[1:])


def operators(ast, acc=None):
    acc = set() if acc is None else acc
    if ast[0] in ("cat", "alt", "star", "plus", "opt"):
        acc.add(ast[0])
        for x in ast[1:]:
            operators(x, acc)
    return acc


# ---------------------------------------------------------------------------
# model of the parser defect C31-KF1 (no concatenation level below '|' / inside groups)


class ModelError(Exception):
    pass


class Kf1Model(RefParser):
    """The grammar ppci's parser implements on the unpatched tree:
    top := or+ ; or := element ('|' element)* ; element := ( '(' or ')' | atom ) postfix?"""

    def parse(self):
        e = self.alt()
        while self.peek() is not None:
            e = ("cat", e, self.alt())
        return e

    def alt(self):
        e = self.post()
        while self.peek() == "|":
            self.take()
            e = ("alt", e, self.post())
        return e

    def base(self):
        if self.peek() == "(":
            self.take()
            e = self.alt()
            c = self.peek()
            if c is None:
                raise ModelError("At end of string!")
            if c != ")":
                raise ModelError("Expected ) but got %s" % c)
            self.take()
            return e
        if self.peek() == ")":
            self.take()
            return ("set", frozenset(")"))
        return RefParser.base(self)


# ---------------------------------------------------------------------------
# ppci side


def all_strings(alphabet, maxlen):
    out = [""]
    layer = [""]
    for _ in range(maxlen):
        layer = [w + c for w in layer for c in alphabet]
        out.extend(layer)
    return out


def dfa_step(transitions, state, code):
    hits = [t for t in transitions[state] if t[0] <= code <= t[1]]
    if len(hits) != 1:
        return None
    return hits[0][2]


def dfa_accepts(prog, s):
    """Run the table.  Returns True/False, or a string describing a malformed table."""
    transitions, accepts, _error = prog
    state = 0
    for ch in s:
        nxt = dfa_step(transitions, state, ord(ch))
        if nxt is None or not (0 <= nxt < len(transitions)):
            return "state %d has %s transition for %r" % (state, "no unique" if nxt is None else "an out-of-range", ch)
        state = nxt
    return bool(accepts[state])


def ppci_frame(tb):
    """innermost ppci frame 'file.py:function' of a traceback"""
    last = None
    for fs in traceback.extract_tb(tb):
        if "/ppci/" in fs.filename.replace("\\", "/"):
            last = "%s:%s" % (fs.filename.rsplit("/", 1)[-1], fs.name)
    return last


def ref_munch(member, s):
    """Reference maximal munch: (tokens, failed)."""
    toks = []
    pos = 0
    n = len(s)
    while pos < n:
        best = None
        for j in range(n, pos, -1):
            if member(s[pos:j]):
                best = j
                break
        if best is None:
            return toks, True
        toks.append(s[pos:best])
        pos = best
    return toks, False


def ppci_scan(prog, s, limit):
    from ppci.lang.tools.regex import scan

    toks = []
    try:
        for t in scan(prog, s):
            toks.append(t)
            if len(toks) > limit:
                return toks, "runaway"
    except ValueError:
        return toks, True
    return toks, False


class Failure:
    def __init__(self, kind, msg, **info):
        self.kind = kind
        self.msg = msg
        self.info = info


class ReOracle:
    """Membership by re.fullmatch, cross-checked by the position-set matcher on the reference AST."""

    name = "re.fullmatch"

    def __init__(self, pattern):
        try:
            self.ast = ref_parse(pattern)
        except Unsupported as e:
            raise Discard("outside supported syntax: %s" % e)
        try:
            with warnings.catch_warnings():
                warnings.simplefilter("ignore", FutureWarning)
                self.rx = re.compile(pattern)
        except re.error as e:
            raise Discard("re rejects pattern: %s" % e)
        self.expect_error = None
        self.cache = {}
        # re backtracks exponentially: '(((a*)+)+)*' on 'aaaac' takes 1 s, '(a|a)*b' doubles with every
        # 'a'.  re is asked for strings up to length 6 when loops nest at most two deep, and for longer
        # strings only when no loop contains an alternation or another quantifier; elsewhere the
        # position-set matcher decides alone.
        self.re_short = loop_depth(self.ast) <= 2
        self.re_long = simple_loops(self.ast)

    def member(self, s):
        r = self.cache.get(s)
        if r is None:
            r = ref_match(self.ast, s)
            use_re = self.re_long or (self.re_short and len(s) <= 6)
            if use_re and (self.rx.fullmatch(s) is not None) != r:
                raise Discard("oracle_disagreement")
            self.cache[s] = r
        return r


class Kf1Oracle:
    """Membership in the language of the expression as the defective grammar of C31-KF1 reads it."""

    name = "KF1 model"

    def __init__(self, pattern):
        self.expect_error = None
        self.ast = None
        self.cache = {}
        try:
            self.ast = Kf1Model(pattern).parse()
        except ModelError as e:
            self.expect_error = str(e)
        except Unsupported as e:
            raise Discard("outside supported syntax: %s" % e)

    def member(self, s):
        r = self.cache.get(s)
        if r is None:
            r = self.cache[s] = ref_match(self.ast, s)
        return r


def check_strings(strings):
    for s in strings:
        if "\n" in s or any(ord(c) > 127 for c in s):
            raise Discard("string outside domain")


STATE_CAP = 48
SIZE_CAP = 600


def flat_alternatives(expr, out):
    if type(expr).__name__ == "LogicalOr":
        flat_alternatives(expr.lhs, out)
        flat_alternatives(expr.rhs, out)
    else:
        out.append(expr)
    return out


def node_count(expr):
    n = 1
    for attr in ("lhs", "rhs", "expr"):
        sub = getattr(expr, attr, None)
        if sub is not None:
            n += node_count(sub)
    return n


def explosion(pattern, measure=None):
    """compile() explores the derivatives of the expression with a work list and has no bound of its
    own.  Walk the same derivatives first: more than STATE_CAP distinct ones, or one with more than
    SIZE_CAP nodes (legitimate automata for the expressions generated here have at most a few dozen
    states of a few dozen nodes, see the class histogram in the evidence) means compile() would not
    terminate in any useful time; that is reported without calling it."""
    from ppci.lang.tools.regex import parse

    expr = parse(pattern)
    seen = {expr}
    todo = [expr]
    biggest = 0
    while todo:
        state = todo.pop()
        for dc in state.derivative_classes():
            if not dc:
                continue
            nxt = state.derivative(dc.ranges[0][0])
            size = node_count(nxt)
            biggest = max(biggest, size)
            if size <= SIZE_CAP and nxt in seen:
                continue
            seen.add(nxt)
            todo.append(nxt)
            if len(seen) > STATE_CAP or size > SIZE_CAP:
                alts = flat_alternatives(nxt, [])
                dup = len(alts) - len(set(alts))
                return Failure(
                    "explosion",
                    "compile(%r) does not terminate: the derivative states keep growing (%d states so far, newest one "
                    "has %d nodes and is an alternation of %d operands, %d of them repeated)"
                    % (pattern, len(seen), size, len(alts), dup),
                    duplicates=dup,
                )
    if measure is not None:
        measure["derivative_states<=%d" % next(b for b in (2, 4, 8, 16, 32, STATE_CAP) if len(seen) <= b)] += 1
        measure["largest_derivative_nodes<=%d" % next(b for b in (8, 32, 128, SIZE_CAP) if biggest <= b)] += 1
    return None


def compile_failure(what, e, tb):
    frame = ppci_frame(tb)
    text = re.sub(r" at 0x[0-9a-f]+", "", str(e))
    return Failure(
        "compile",
        "%s raised %s: %s at %s" % (what, type(e).__name__, text, frame),
        exc=type(e).__name__,
        text=text,
        frame=frame,
    )


def evaluate(case, stats=None, oracle_cls=ReOracle, measure=None):
    """Evaluate one case {pattern, alphabet, maxlen, strings?} or {tokens, ...}.
    Returns None or a Failure.  Counts evaluated (pattern, string) pairs into stats."""
    import sys

    if "tokens" in case:
        return evaluate_tokens(case, stats, oracle_cls)
    pattern = case["pattern"]
    alphabet = case.get("alphabet", "abc")
    maxlen = int(case.get("maxlen", 4))
    extra = list(case.get("strings", ()))
    check_strings(extra)
    oracle = oracle_cls(pattern)
    strings = all_strings(alphabet, maxlen) + extra

    from ppci.lang.tools import regex as pregex

    try:
        boom = explosion(pattern, measure if measure is not None else (None if stats is None else stats.hist))
        if boom is not None:
            if stats is not None:
                stats.evaluations += 1
            return boom
        prog = pregex.compile(pattern)
    except Exception as e:
        if stats is not None:
            stats.evaluations += 1
        f = compile_failure("compile(%r)" % pattern, e, sys.exc_info()[2])
        if oracle.expect_error is not None and f.info["exc"] == "ValueError" and f.info["frame"] == "parser.py:eat" and f.info["text"] == oracle.expect_error:
            return None
        return f
    if oracle.expect_error is not None:
        return Failure("compile", "compile(%r) succeeded, %s predicts ValueError(%r)" % (pattern, oracle.name, oracle.expect_error), exc=None, text="", frame=None)
    transitions, accepts, error = prog
    nontrivial = len(operators(oracle.ast)) >= 2
    n_nt = 0
    n_ev = 0
    seen = set()
    fail = None
    for s in strings:
        if s in seen:
            continue
        seen.add(s)
        exp = oracle.member(s)
        got = dfa_accepts(prog, s)
        n_ev += 1
        if nontrivial and s:
            n_nt += 1
        if got != exp:
            fail = Failure(
                "language",
                "pattern %r, string %r: automaton %s, %s %s"
                % (pattern, s, "accepts" if got is True else ("rejects" if got is False else got), oracle.name, "matches" if exp else "does not match"),
            )
            break
    if stats is not None:
        stats.evaluations += n_ev
        stats.nontrivial_counted += n_nt
    if fail is not None:
        return fail
    # error state: must be a rejecting sink (scan() relies on it)
    if not (0 <= error < len(transitions)) or accepts[error]:
        return Failure("error_state", "pattern %r: error state %r is not a rejecting state" % (pattern, error))
    for t in transitions[error]:
        if t[2] != error:
            return Failure("error_state", "pattern %r: error state %r has a transition leaving it" % (pattern, error))
    # scanner, only for non-nullable expressions
    if not oracle.member(""):
        slen = int(case.get("scanlen", maxlen))
        for s in strings:
            if len(s) > slen and s not in extra:
                continue
            ref = ref_munch(oracle.member, s)
            got = ppci_scan(prog, s, len(s) + 2)
            if stats is not None:
                stats.hist["scan_checked"] += 1
            if got != ref:
                return Failure(
                    "scan",
                    "pattern %r, scan(%r): ppci %s, maximal munch by %s %s" % (pattern, s, fmt_scan(got), oracle.name, fmt_scan(ref)),
                )
    return None


def fmt_scan(r):
    toks, failed = r
    return "%r%s" % (toks, "" if failed is False else (" then ValueError" if failed is True else " then " + str(failed)))


def evaluate_tokens(case, stats=None, oracle_cls=ReOracle):
    """make_scanner over several non-nullable token expressions."""
    import sys

    tokens = [tuple(t) for t in case["tokens"]]  # (name, pattern)
    strings = list(case.get("strings", ()))
    check_strings(strings)
    strings = strings + all_strings(case.get("alphabet", "ab"), int(case.get("maxlen", 3)))
    oracles = [(name, oracle_cls(pat)) for name, pat in tokens]
    expect_error = [o.expect_error for _n, o in oracles if o.expect_error is not None]
    for _n, o in oracles:
        if o.expect_error is None and o.member(""):
            raise Discard("nullable token expression")
    from ppci.lang.tools import regex as pregex

    try:
        with contextlib.redirect_stdout(io.StringIO()):
            scanner = pregex.make_scanner(dict(tokens))
    except Exception as e:
        if stats is not None:
            stats.evaluations += 1
        f = compile_failure("make_scanner(%r)" % (tokens,), e, sys.exc_info()[2])
        if expect_error and f.info["exc"] == "ValueError" and f.info["frame"] == "parser.py:eat" and f.info["text"] == expect_error[0]:
            return None
        return f
    if expect_error:
        return Failure("compile", "make_scanner(%r) succeeded, model predicts ValueError" % (tokens,), exc=None, text="", frame=None)

    def member(w):
        return any(o.member(w) for _n, o in oracles)

    for s in strings:
        ref = ref_munch(member, s)
        toks = []
        failed = False
        try:
            for t in scanner.scan(s):
                toks.append(t)
                if len(toks) > len(s) + 2:
                    failed = "runaway"
                    break
        except ValueError:
            failed = True
        if stats is not None:
            stats.evaluations += 1
        bad = None
        if not all(isinstance(t, tuple) and len(t) == 2 for t in toks):
            bad = "malformed token"
        elif ([t[1] for t in toks], failed) != ref:
            bad = "split differs"
        else:
            for name, txt in toks:
                if name not in [n for n, o in oracles if o.member(txt)]:
                    bad = "token %r reported as %r whose expression does not match it" % (txt, name)
                    break
        if bad:
            return Failure(
                "tokens",
                "make_scanner(%r).scan(%r): %s: ppci %s, maximal munch by %s %s"
                % (tokens, s, bad, fmt_scan((toks, failed)), oracles[0][1].name, fmt_scan(ref)),
            )
    return None


# ---------------------------------------------------------------------------
# known findings

KF1 = "C31-KF1"  # parser has no concatenation level: 'ab|c' is a(b|c), '(ab)' is rejected
KF2 = "C31-KF2"  # compile(): KeyError when the NULL (error) state is unreachable, e.g. '.*'
KF3 = "C31-KF3"  # '|' of derivatives is not normalised (ACI): compile('(aa+)*') never terminates


def has_loop(ast):
    ops = operators(ast)
    return "star" in ops or "plus" in ops


def no_dead_state(ast, alphabet):
    """True when every short string (also with a foreign character) extends to a member: the
    automaton has no dead state, the situation in which C31-KF2 fires."""
    ext = all_strings(alphabet, 4)
    for w in all_strings(alphabet + FOREIGN, 2):
        if not any(ref_match(ast, w + x) for x in ext):
            return False
    return True


def classify_failure(case, f):
    """Narrow attribution of a failure to an open finding.
    KF1: the whole case evaluates without any failure when the oracle is the language of the
         expression as the defective grammar reads it (or that grammar's 'Expected ) but got x').
    KF2: KeyError at compiler.py:compile for an expression with '.' whose language (as read by
         either grammar) has no dead state.
    KF3: derivative-state explosion for an expression with a loop, where the
         runaway derivative is an alternation with repeated operands."""
    if f is None:
        return None
    pats = [case["pattern"]] if "pattern" in case else [p for _n, p in case["tokens"]]
    if f.kind == "explosion":
        # KF3: a loop, and the runaway derivative repeats operands of '|'
        try:
            if f.info["duplicates"] > 0 and any(has_loop(ref_parse(p)) for p in pats):
                return KF3
        except Unsupported:
            pass
        return None
    alphabet = case.get("alphabet", "abc")
    if f.kind == "compile" and f.info["exc"] == "KeyError" and f.info["frame"] == "compiler.py:compile":
        for p in pats:
            if "." not in p.replace("\\.", ""):
                return None
        readings = []
        for p in pats:
            rs = []
            for parser in (RefParser, Kf1Model):
                try:
                    rs.append(parser(p).parse())
                except (ModelError, Unsupported):
                    pass
            readings.append(rs)
        if all(any(no_dead_state(r, alphabet) for r in rs) for rs in readings):
            return KF2
        return None
    if f.kind in ("compile", "language", "scan", "tokens"):
        if f.kind == "compile" and not (f.info["exc"] == "ValueError" and f.info["frame"] == "parser.py:eat"):
            return None
        try:
            if evaluate(case, None, Kf1Oracle) is None:
                return KF1
        except Discard:
            return None
    return None


def classify(case, msg):
    try:
        f = evaluate(case)
    except Discard:
        return None
    if f is None or f.msg != msg:
        return None
    return classify_failure(case, f)


def replay(case):
    f = evaluate(case)
    return None if f is None else f.msg


# ---------------------------------------------------------------------------
# enumeration

ENUM_ATOMS = ["a", "b", "\\*", ".", "[ab]", "[a-b]"]


def asts_of_size(n, memo):
    if n in memo:
        return memo[n]
    if n == 1:
        out = [("atom", a) for a in ENUM_ATOMS]
    else:
        out = []
        for x in asts_of_size(n - 1, memo):
            for k in UNARY:
                out.append((k, x))
        for ln in range(1, n - 1):
            rn = n - 1 - ln
            for x in asts_of_size(ln, memo):
                for y in asts_of_size(rn, memo):
                    out.append(("cat", x, y))
                    out.append(("alt", x, y))
    memo[n] = out
    return out


def render(node, full=False):
    k = node[0]
    if k == "atom":
        return node[1]
    if k in UNARY:
        x = node[1]
        s = render(x, full)
        if x[0] != "atom" or full:
            s = "(" + s + ")"
        return s + UNARY[k]
    parts = []
    for x in node[1:]:
        s = render(x, full)
        if full:
            if x[0] != "atom":
                s = "(" + s + ")"
        elif k == "cat" and x[0] == "alt":
            s = "(" + s + ")"
        parts.append(s)
    return ("" if k == "cat" else "|").join(parts)


def enum_patterns(maxsize):
    memo = {}
    seen = set()
    out = []
    for n in range(1, maxsize + 1):
        for a in asts_of_size(n, memo):
            for full in (False, True):
                p = render(a, full)
                if p not in seen:
                    seen.add(p)
                    out.append(p)
    return out


def _enum_worker(arg):
    w, nw, maxsize, maxlen, scanlen = arg
    stats = Stats()
    fails = []
    pats = enum_patterns(maxsize)
    for idx in range(w, len(pats), nw):
        p = pats[idx]
        case = {"pattern": p, "alphabet": "abc*" if "\\*" in p else "abc", "maxlen": maxlen, "scanlen": scanlen}
        try:
            f = evaluate(case, stats)
        except Discard as d:
            stats.discard(d.reason)
            continue
        stats.hist["enumerated_patterns"] += 1
        if f is None:
            if len(stats.samples) < 2 and len(p) >= 6:
                stats.sample({"pattern": p, "alphabet": case["alphabet"], "maxlen": maxlen, "members": sorted(s for s in all_strings(case["alphabet"], 3) if re.fullmatch(p, s))[:6]})
            continue
        kid = classify_failure(case, f)
        if kid and kid in core.open_finding_ids(PID):
            stats.known[kid] += 1
        elif len(fails) < 3:
            fails.append((case, f.msg))
    return stats, fails


# ---------------------------------------------------------------------------
# Hypothesis part

LITS = list("abcde019 _-=:")
ESCAPED = ["\\" + c for c in META]
CLASS_PLAIN = list("abcdexyz0123456789 _=:.*+?|()")
CLASS_ESC = ["\\]", "\\\\", "\\-", "\\^", "\\["]


@st.composite
def class_atom(draw):
    n = draw(st.integers(1, 3))
    items = []
    for _ in range(n):
        # (a doubled punctuation character such as '||' makes re warn about future set operations)
        if draw(st.integers(0, 2)) == 0:
            grp = draw(st.sampled_from(["abcde", "xyz", "0123456789"]))
            i = draw(st.integers(0, len(grp) - 2))
            j = draw(st.integers(i + 1, len(grp) - 1))
            items.append("%s-%s" % (grp[i], grp[j]))
        else:
            c = draw(st.sampled_from(CLASS_PLAIN + CLASS_ESC))
            if c not in items:
                items.append(c)
    return "[" + "".join(items or ["a"]) + "]"


def atom_strategy(allow_dot):
    opts = [st.sampled_from(LITS), st.sampled_from(LITS[:3]), st.sampled_from(ESCAPED), class_atom()]
    if allow_dot:
        opts.append(st.just("."))
    return st.one_of(*opts).map(lambda t: ("atom", t))


@st.composite
def gen_ast(draw, size, flags, in_loop=False, level="top", ban=()):
    """level (only with avoid_kf1): 'top' may be a concatenation, 'elem' may not."""
    avoid_kf1, avoid_kf2, avoid_kf3 = flags
    if size <= 1:
        return draw(atom_strategy(not (avoid_kf2 and in_loop)))
    kinds = ["star", "plus", "opt", "alt", "alt"]
    if not (avoid_kf1 and level != "top"):
        kinds += ["cat", "cat", "cat"]
    # KF3 exclusion (ban is drawn per case): the expression has either no loop at all, or no
    # concatenation and no loop inside a loop -- then every derivative is a sub-term and the missing
    # normalisation of '|' cannot make the state set grow
    kinds = [k for k in kinds if k not in ban and not ("nested" in ban and in_loop and k in ("star", "plus"))]
    k = draw(st.sampled_from(kinds))
    if k in UNARY:
        x = draw(gen_ast(size - 1, flags, in_loop or k != "opt", "elem", ban))
        return (k, x)
    ls = draw(st.integers(1, size - 2)) if size > 2 else 1
    rs = max(1, size - 1 - ls)
    if k == "cat":
        x = draw(gen_ast(ls, flags, in_loop, "top", ban))
        y = draw(gen_ast(rs, flags, in_loop, "elem" if avoid_kf1 else "top", ban))
        return ("cat", x, y)
    sub = "elem" if avoid_kf1 else "top"
    x = draw(gen_ast(ls, flags, in_loop, sub, ban))
    y = draw(gen_ast(rs, flags, in_loop, sub, ban))
    return ("alt", x, y)


def kf3_ban(flags):
    if flags[2]:
        return st.sampled_from([("cat", "nested"), ("star", "plus")])
    return st.just(())


@st.composite
def gen_member(draw, ast, depth=0):
    """A string of (or near) the language, by a random walk over the reference AST."""
    k = ast[0]
    if k == "set":
        return draw(st.sampled_from(sorted(ast[1])))
    if k == "dot":
        return draw(st.sampled_from("abz0 "))
    if k == "cat":
        return draw(gen_member(ast[1], depth)) + draw(gen_member(ast[2], depth))
    if k == "alt":
        return draw(gen_member(ast[1 + draw(st.integers(0, 1))], depth))
    if k == "opt":
        return draw(gen_member(ast[1], depth)) if draw(st.booleans()) else ""
    lo = 1 if k == "plus" else 0
    n = draw(st.integers(lo, 3 if depth < 2 else 1))
    return "".join(draw(gen_member(ast[1], depth + 1)) for _ in range(n))


@st.composite
def gen_case(draw, maxsize, flags):
    size = draw(st.integers(3, maxsize))
    ast = draw(gen_ast(size, flags, ban=draw(kf3_ban(flags))))
    avoid_kf1 = flags[0]
    full = draw(st.integers(0, 3)) == 0
    # under the KF1 exclusion the AST has concatenations only on the top-level spine, so the
    # minimal rendering (alternations under a concatenation are grouped) is read alike by both grammars
    pattern = render(ast, full and not avoid_kf1)
    ref = ref_parse(pattern)
    chars = sorted(set(c for c in pattern if c.isalnum() or c in " _-=:") | set("a"))
    alpha = draw(st.lists(st.sampled_from(chars + list(".*(|")), min_size=2, max_size=3, unique=True))
    strings = []
    for _ in range(draw(st.integers(2, 6))):
        s = draw(gen_member(ref))
        if draw(st.integers(0, 2)) == 0 and s:
            # near member: drop, double or replace one character
            i = draw(st.integers(0, len(s) - 1))
            how = draw(st.integers(0, 2))
            s = s[:i] + ("" if how == 0 else s[i] * 2 if how == 1 else draw(st.sampled_from(alpha))) + s[i + 1 :]
        if len(s) <= 24:
            strings.append(s)
    # concatenations of members exercise the scanner
    if len(strings) >= 2:
        strings.append((strings[0] + strings[1] + strings[0])[:30])
    return {"pattern": pattern, "alphabet": "".join(alpha), "maxlen": 3, "strings": strings}


@st.composite
def gen_token_case(draw, flags):
    n = draw(st.integers(2, 3))
    toks = []
    for i in range(n):
        ast = draw(gen_ast(draw(st.integers(1, 5)), flags, ban=draw(kf3_ban(flags))))
        p = render(ast)
        if ref_match(ref_parse(p), ""):
            # token expressions must not be nullable: append a literal
            p = render(("cat", ast, ("atom", draw(st.sampled_from("ab")))))
        toks.append(["t%d" % i, p])
    members = []
    for _n, p in toks:
        members.append(draw(gen_member(ref_parse(p))))
    order = draw(st.permutations(list(range(len(members)))))
    text = "".join(members[i] for i in order)[:30]
    return {"tokens": toks, "alphabet": "ab", "maxlen": 3, "strings": [text] + members}


def _hyp_worker(arg):
    seed, n, maxsize, flags = arg
    stats = Stats()

    def prop(case):
        f = evaluate(case, None, measure=stats.hist)
        if "tokens" in case:
            nontriv = True
            key = ("t", tuple(map(tuple, case["tokens"])), tuple(case["strings"]))
            cls = ("random_token_vector",)
        else:
            ast = ref_parse(case["pattern"])
            ops = operators(ast)
            nontriv = len(ops) >= 2
            key = ("p", case["pattern"], case["alphabet"], tuple(case["strings"]))
            cls = ["random_pattern"] + ["op_" + o for o in sorted(ops)]
            if "[" in case["pattern"]:
                cls.append("has_class")
            if "\\" in case["pattern"]:
                cls.append("has_escape")
            if "." in case["pattern"].replace("\\.", ""):
                cls.append("has_dot")
            if not re.fullmatch(case["pattern"], ""):
                cls.append("scanner_checked")
        stats.case(key, nontriv, case if nontriv else None, classes=cls)
        for kid, on in zip((KF1, KF2, KF3), flags):
            if on:
                stats.excluded[kid] += 1
        return None if f is None else f.msg

    strat = st.one_of(gen_case(maxsize, flags), gen_case(maxsize, flags), gen_case(maxsize, flags), gen_token_case(flags))
    fails = hyp_search(strat, prop, n, seed, stats, classify=classify, budget_s=600)
    return stats, fails


def active_exclusions():
    """An exclusion is active while its finding is open and its witness still reproduces
    (KF3 hides behind KF1: while KF1 is present its exclusion subsumes KF3's)."""
    flags = []
    findings = {e["id"]: e for e in core.load_findings(PID) if e.get("status") == "open"}
    for kid in (KF1, KF2, KF3):
        on = False
        e = findings.get(kid)
        if e is not None:
            try:
                f = evaluate(e["witness"])
                on = f is not None and classify_failure(e["witness"], f) == kid
            except Discard:
                on = False
        flags.append(on)
    return tuple(flags)


def run(ctx):
    maxsize = ctx.scale(5, 6)
    maxlen = 5
    scanlen = ctx.scale(4, 5)
    nw = ctx.scale(16, 64)
    ctx.pmap(_enum_worker, [(w, nw, maxsize, maxlen, scanlen) for w in range(nw)])
    ctx.exhaustive = True
    ctx.extra["exhaustive_domain"] = (
        "all ASTs of size <= %d over atoms %s, two renderings, x all strings of length <= %d over {a,b,c}(+'*')"
        % (maxsize, " ".join(ENUM_ATOMS), maxlen)
    )
    flags = active_exclusions()
    ctx.extra["exclusions_active"] = dict(zip((KF1, KF2, KF3), flags))
    n = ctx.scale(4000, 200000)
    ctx.pmap(_hyp_worker, [(subseed(ctx.seed, PID, w), n // 16, ctx.scale(10, 14), flags) for w in range(16)])
