"""C15 - IR text format round-trips (ppci.irutils.print_module / read_module)."""

import io
import re

from .. import fuzz, irround, irsem, irwf
from ..core import Discard, Stats, hyp_search, load_findings, subseed

PID = "C15"
RULE = (
    "cases = Hypothesis-generated IR modules (vf/genir.py, full menu: every instruction kind and operator incl. rol/ror, "
    "~, undef, literals, memcpy, volatile accesses, boundary/negative/huge constants, exponent-form and non-finite floats, "
    "initialised globals incl. symbol references, blocks emitted in non-dominance order; in 40% of the functions up to three "
    "parameters / local values are renamed to the name of a global, external or function the function does not refer to, as C "
    "shadowing produces) and C front-end modules "
    "(c_to_ir on translation units assembled from 28 fragments: structs, loops, switch, ternary, function pointers, floats, "
    "bit-fields, statics, strings; optionally optimised at level 2), each with 1-2 generated argument vectors per function. "
    "Oracle: read_module(print_module(m)) succeeds, prints identically, has the same initial memory image, the same "
    "volatile flags, and gives the same observation under vf/irsem.observe_call on every defined call. "
    "Shapes that hit an open known finding are removed from the generated module by construction (counted in excluded_known). "
    "non-trivial = the module contains a construct outside {+ - *, i32 constants, jumps, return}; distinct = (module text | C source, opt level). "
    "Thorough tier additionally: coverage-guided fuzzing of read_module (atheris/libFuzzer, vf/fuzz.py; two campaigns of VERIF_FUZZ_RUNS "
    "(default 100000) executions, one from an empty corpus, one from ~60 printed modules; libFuzzer byte mutations plus line/token "
    "mutations with the productions of the text format as dictionary): every text the reader accepts as a module that passes ppci's "
    "verifier and vf/irwf must satisfy print(read(print(m))) == print(m) with equal globals and volatile flags; texts the reader rejects "
    "are only counted (coverage[\"fuzz\"] holds executions, corpus growth and the outcome histogram)"
)
ASSUMPTIONS = [
    "IR semantics as written down in DESIGN.md 3.1 (vf/irsem.py)",
    "volatile loads/stores are observable behaviour: the reference interpreter does not trace them, so the volatile flag of "
    "every load/store of the re-read module is compared with the original's directly",
    "modules are printed with verify=False (the verifier is C03's subject)",
]
TRUSTED = ["CPython", "Hypothesis", "vf/irsem.py (reference interpreter)", "vf/genir.py", "vf/irround.py", "ppci C front end and optimiser (case producers only)",
           "thorough tier: atheris 3.1 / libFuzzer (input producer only), ppci verifier + vf/irwf.py (decide which fuzzed texts are well-formed modules)"]
REGISTER = True
TECHNIQUE = "round-trip: print -> read -> print equality, initial-image and volatile-flag equality, reference-interpreter equivalence on Hypothesis-generated and C front-end modules"
LEVEL_TEXT = (
    "Exploration: several hundred (quick) to tens of thousands (thorough) generated and front-end produced modules per run go through print_module and "
    "read_module; the re-read module must print the same text and be indistinguishable from the original under an "
    "independent reference interpreter (return values, final global and buffer bytes, external call trace, initial memory "
    "image, volatile flags). The printer and reader are deterministic functions of the module, so generated-input search "
    "with a strong oracle is the fitting level; no bound is closed."
)

FUEL = 4000

# feature (vf/irround.FEATURES) -> finding id.  A finding's shape is excluded from generation while the finding is open
# in known_findings.json AND its witness still fails on the tree under test (so a tree with the fix gets the full menu).
SHRINK_CASES = 250  # cases a worker may spend on shrinking one failure

FINDING_OF = {
    "init": "C15-KF1",
    "volatile": "C15-KF2",
    "inv": "C15-KF3",
    "rot": "C15-KF4",
    "copy": "C15-KF5",
    "undef": "C15-KF6",
    "fexp": "C15-KF7",
    "fwd": "C15-KF8",
    "uscore": "C15-KF9",
    "asm": "C15-KF10",
    "nameclash": "C15-KF11",
}

TRIVIAL = {"Binop:+", "Binop:-", "Binop:*", "Const:i32", "Jump", "CJump", "Return", "Exit"}


def print_text(m):
    from ppci import irutils

    f = io.StringIO()
    irutils.print_module(m, file=f, verify=False)
    return f.getvalue()


def _line_at(txt, e):
    mo = re.search(r"row (\d+), column (\d+)", str(e))
    if not mo:
        return ""
    lines = txt.split("\n")
    row, col = int(mo.group(1)), int(mo.group(2))
    if 1 <= row <= len(lines):
        return "; line %d from the reported column: %r (whole line %r)" % (row, lines[row - 1].rstrip()[col:][:60], lines[row - 1].strip()[:120])
    return ""


def _initial_image(m, ptr_bits):
    mach = irsem.Machine(m, ptr_bits, True, 0, FUEL)
    return {name: bytes(obj.data).hex() for name, obj in mach.globals.items()}


def _flat_value(value):
    """Initial contents of a Variable independent of how the data bytes are split into parts."""
    if value is None:
        return None
    out = []
    for part in value:
        if isinstance(part, (bytes, bytearray)):
            if out and isinstance(out[-1], bytes):
                out[-1] += bytes(part)
            elif part:
                out.append(bytes(part))
        else:
            out.append((str(part[0]), part[1]) if isinstance(part, tuple) and len(part) == 2 else repr(part))
    return out


def check_module(m, ptr_bits, calls, stats=None, image=True):
    """The round trip of one module.  Returns (failure message | None, number of defined calls compared)."""
    from ppci import ir, irutils

    try:
        txt1 = print_text(m)
    except Exception as e:
        return "print_module raised " + irround.describe_exception(e), 0
    try:
        m2 = irutils.read_module(io.StringIO(txt1))
    except Exception as e:
        return "read_module raised %s%s" % (irround.describe_exception(e), _line_at(txt1, e)), 0
    try:
        txt2 = print_text(m2)
    except Exception as e:
        return "print_module of the re-read module raised " + irround.describe_exception(e), 0
    if txt1 != txt2:
        l1, l2 = txt1.split("\n"), txt2.split("\n")
        for i, (a, b) in enumerate(zip(l1, l2)):
            if a != b:
                return "re-read module prints differently at line %d: original %r, re-read %r" % (i + 1, a, b), 0
        return "re-read module prints differently: %d lines vs %d lines" % (len(l1), len(l2)), 0
    # initial memory image (behaviour before any call)
    if not image:
        # fuzzed texts (thorough tier) may declare globals of any size: compare the declarations, build no memory
        for v1, v2 in zip(m.variables, m2.variables):
            d1, d2 = (v1.amount, v1.alignment, _flat_value(v1.value)), (v2.amount, v2.alignment, _flat_value(v2.value))
            if d1 != d2:
                return "global %s differs after the round trip: (amount, alignment, contents) original %r, re-read %r" % (v1.name, d1, d2), 0
    try:
        if not image:
            raise irsem.Unsupported("initial image not built for fuzzed text")
        img1 = _initial_image(m, ptr_bits)
        try:
            img2 = _initial_image(m2, ptr_bits)
        except irsem.Unsupported as e:
            return "initial memory image of the re-read module cannot be built: %s" % e.reason, 0
        for v1, v2 in zip(m.variables, m2.variables):
            if img1.get(v1.name) != img2.get(v2.name):
                return (
                    "initial contents of global %s differ: original %s, re-read %s (original Variable.value %r, re-read Variable.value %r)"
                    % (v1.name, img1.get(v1.name), img2.get(v2.name), v1.value, v2.value),
                    0,
                )
    except irsem.Unsupported as e:
        if stats is not None:
            stats.discard("initial image unsupported: " + e.reason)
    # volatile flags of corresponding memory accesses
    for f1, f2 in zip(m.functions, m2.functions):
        for b1, b2 in zip(f1.blocks, f2.blocks):
            for i1, i2 in zip(b1, b2):
                if isinstance(i1, (ir.Load, ir.Store)):
                    v2 = getattr(i2, "volatile", None)
                    if bool(i1.volatile) != bool(v2):
                        return "volatile flag lost: %s.%s '%s' volatile=%r, re-read volatile=%r" % (f1.name, b1.name, i1, i1.volatile, v2), 0
    defined = 0
    for fname, args, bufs in calls:
        try:
            ref = irsem.observe_call(m, fname, args, ptr_bits=ptr_bits, fuel=FUEL, buffers=bufs)
        except irsem.Undef as e:
            if stats is not None:
                stats.discard("original undefined: " + e.reason)
            continue
        except irsem.Unsupported as e:
            if stats is not None:
                stats.discard("unsupported: " + e.reason)
            continue
        defined += 1
        try:
            got = irsem.observe_call(m2, fname, args, ptr_bits=ptr_bits, fuel=FUEL, buffers=bufs)
        except irsem.Undef as e:
            return "%s%r: defined on the original, undefined on the re-read module: %s" % (fname, args, e.reason), defined
        except irsem.Unsupported as e:
            return "%s%r: runs on the original, unsupported on the re-read module: %s" % (fname, args, e.reason), defined
        diff = irsem.obs_equal(ref, got)
        if diff is None:
            diff = irsem.obs_equal(got, ref)
        if diff:
            return "%s%r behaves differently after the round trip: %s" % (fname, args, diff), defined
    return None, defined


def run_case(case, stats=None):
    m, ptr_bits, calls = irround.build_case(case)
    msg, defined = check_module(m, ptr_bits, calls, stats)
    return msg, m, defined


def replay(case):
    if fuzz.is_case(case):
        return fuzz.replay_case(case, lambda d: fuzz_reader(d, known_as_label=False))
    return run_case(case)[0]


# ---------------------------------------------------------------------------
# known findings: narrow signatures


def _signature(fid, msg, txt, feats):
    """Does `msg` look exactly like finding `fid` would on a module with printed text `txt` and features `feats`?"""
    lines = txt.split("\n")

    def reported_rest():
        mo = re.search(r"row (\d+), column (\d+)", msg)
        if not mo:
            return None, None
        row, col = int(mo.group(1)), int(mo.group(2))
        if not (1 <= row <= len(lines)):
            return None, None
        return lines[row - 1].rstrip()[col:], lines[row - 1].strip()

    if fid == "C15-KF1":
        # model: the re-read global is zero filled because no initial value was printed
        mo = re.search(r"initial contents of global (\w+) differ: original (\w+), re-read (\w+) .*re-read Variable.value None\)$", msg, re.S)
        return bool(mo) and "init" in feats and set(mo.group(3)) <= {"0"}
    if fid == "C15-KF2":
        return "volatile" in feats and msg.startswith("volatile flag lost:") and msg.endswith("volatile=True, re-read volatile=False")
    if fid == "C15-KF3":
        rest, _ = reported_rest()
        return "inv" in feats and "IrParseException(Lex fault" in msg and rest is not None and rest.startswith("~")
    if fid == "C15-KF9":
        rest, _ = reported_rest()
        return "uscore" in feats and "IrParseException(Lex fault" in msg and rest is not None and rest.startswith("_")
    if fid == "C15-KF4":
        mo = re.search(r"NotImplementedError\((\w+)\) in irutils/reader.py:parse_assignment", msg)
        return "rot" in feats and bool(mo) and re.search(r"= %s (rol|ror) \w+;" % re.escape(mo.group(1)), txt) is not None
    if fid == "C15-KF5":
        return "copy" in feats and "KeyError('memcpy') in irutils/reader.py:parse_type" in msg
    if fid == "C15-KF6":
        mo = re.search(r"KeyError\('(\w+)'\) in irutils/reader.py:parse_type", msg)
        return "undef" in feats and bool(mo) and re.search(r"^\s*%s = undefined;" % re.escape(mo.group(1)), txt, re.M) is not None
    if fid == "C15-KF7":
        if "fexp" not in feats:
            return False
        if 'IrParseException(Expected ";" got "ID"' in msg:
            _, whole = reported_rest()
            return whole is not None and re.fullmatch(r"f(32|64) \w+ = -?\d+(\.\d+)?e[-+]\d+;", whole) is not None
        mo = re.search(r"NotImplementedError\((inf|nan)\) in irutils/reader.py:parse_assignment", msg)
        if mo:
            return re.search(r"= %s;" % mo.group(1), txt) is not None
        if re.search(r"TypeError\(Unop type mismatch ptr != f(32|64)\) in ir.py:__init__", msg):
            return "= -inf;" in txt and "fwd" not in feats
        return False
    if fid == "C15-KF8":
        # an operand defined in a block printed later got the default type i32 (binop) / ptr (unop, other users)
        return "fwd" in feats and re.search(r"read_module raised TypeError\((Binop|Unop) type mismatch (i32|ptr|blob<1:1>) != \w+\) in ir.py:__init__", msg) is not None
    if fid == "C15-KF10":
        return "asm" in feats and "KeyError('asm') in irutils/reader.py:parse_type" in msg
    return False


def _case_module(case):
    """-> (module, ptr_bits, calls, image?) for both case formats"""
    if fuzz.is_case(case):
        from ppci import irutils

        return irutils.read_module(io.StringIO(fuzz.case_bytes(case).decode("utf-8", "ignore"))), 64, [], False
    return irround.build_case(case) + (True,)


def classify(case, msg):
    try:
        m = _case_module(case)[0]
        feats = irround.module_features(m)
        txt = print_text(m)
    except Exception:
        return None
    for fid in sorted(set(FINDING_OF.values())):
        if _signature(fid, msg, txt, feats):
            return fid
    if "nameclash" in feats and _passes_with_unique_local_names(case):
        return "C15-KF11"
    return None


def _passes_with_unique_local_names(case):
    """Model of C15-KF11: the failure is caused by a function-local name that is ambiguous with a module-level name,
    i.e. the very same module round-trips once those local values carry fresh names."""
    try:
        m, ptr_bits, calls, image = _case_module(case)
        if not irround.uniquify_locals(m):
            return False
        return check_module(m, ptr_bits, calls, image=image)[0] is None
    except Exception:
        return False


def active_exclusions():
    """{feature: finding id} for open findings whose witness still fails on the tree under test."""
    res = {}
    by_id = {e["id"]: e for e in load_findings(PID) if e.get("status") == "open"}
    for feat, fid in FINDING_OF.items():
        e = by_id.get(fid)
        if e is None:
            continue
        try:
            msg = replay(e["witness"])
        except Discard:
            continue
        if msg is not None and classify(e["witness"], msg) == fid:
            res[feat] = fid
    return res


# ---------------------------------------------------------------------------


def _worker(arg):
    seed, n, exclude, big = arg
    stats = Stats()

    cap = irround.ShrinkCap(SHRINK_CASES)

    def prop(case):
        if cap.exhausted():
            return None
        msg, m, defined = run_case(case, stats)
        if msg is not None and classify(case, msg) is None:
            cap.failure_seen()
        classes = irround.instruction_classes(m)
        nt = bool(set(classes) - TRIVIAL) or bool(m.variables)
        hist = ["kind:" + case["kind"] + (":O" + case["opt"] if case["kind"] == "c" else ""), "defined_calls:%d" % min(defined, 3)]
        hist += ["has:" + f for f in sorted(irround.module_features(m))]
        stats.case(
            irround.case_key(case) if nt else None,
            nt,
            {"kind": case["kind"], "calls": case["calls"][:2], "text_head": print_text(m)[:600]} if nt and len(stats.samples) < stats.MAX_SAMPLES else None,
            classes=hist,
        )
        for k, c in classes.items():
            stats.hist["ins:" + k] += c
        return msg

    fails = hyp_search(irround.case_strategy(exclude, stats.excluded, big=big), prop, n, seed, stats, classify=classify)
    return stats, fails


def run(ctx):
    exclude = active_exclusions()
    ctx.extra["excluded_features"] = dict(exclude)
    irround.warm_fragments()
    n = ctx.scale(640, 40000)
    if not fuzz.only(ctx):
        ctx.pmap(_worker, [(subseed(ctx.seed, PID, w), n // 16, exclude, not ctx.quick) for w in range(16)])
    if not ctx.quick:
        fuzz_layer(ctx, exclude)


# ---------------------------------------------------------------------------
# coverage-guided fuzzing of the reader (thorough tier only; driver: vf/fuzz.py)

FUZZ_TARGET = "C15.reader"
FUZZ_RUNS = 100000
# tokens and whole productions of the text format (ppci/irutils/reader.py, the __str__ methods of ppci/ir.py); <= 60 bytes each
FUZZ_DICT = [b"module", b"external", b"function", b"procedure", b"variable", b"global", b"local", b"bytes", b"aligned", b"at", b"blob<", b"phi",
             b"alloc", b"load", b"store", b"volatile", b"cast", b"undefined", b"call", b"literal", b"jmp", b"cjmp", b"return", b"exit", b"memcpy",
             b"i8", b"u8", b"i16", b"u16", b"i32", b"u32", b"i64", b"u64", b"f32", b"f64", b"ptr", b"rol", b"ror", b"inf", b"nan", b"-inf",
             b" = ", b";\n", b": {\n", b"}\n", b" ? ", b"<<", b">>", b"==", b"!=", b"<=", b">=", b"1e+20", b"'00'", b"&",
             b"module m;\n", b"external variable ev;\n", b"external function i32 ef(i32, ptr);\n", b"external procedure ep();\n",
             b"global variable gv (4 bytes aligned at 4)\n", b"local variable lv (2 bytes aligned at 2) = '0011'\n", b" = '00', &gv, '11'\n",
             b"global function i32 f(i32 a, ptr p) {\n", b"local procedure q() {\n", b"global procedure g(f64 x) {\n", b"  b0: {\n", b"  }\n", b"}\n",
             b"    i32 c = 5;\n", b"    i32 s = a + c;\n", b"    i32 n = - a;\n", b"    i32 iv = ~ a;\n", b"    i8 t = cast a;\n",
             b"    ptr m = alloc 4 bytes aligned at 4;\n", b"    ptr ad = &m;\n", b"    i32 l = load ad;\n", b"    i32 vl = volatile load p;\n",
             b"    store a, p;\n", b"    volatile store a, p;\n", b"    i32 r = call f(a, p);\n", b"    call q();\n", b"    call ep();\n",
             b"    blob<4:4> bl = literal '00112233';\n", b"    i32 u = undefined;\n", b"    i32 ph = phi b0: a, b1: c;\n", b"    memcpy(ad, p, 4);\n",
             b"    jmp b1;\n", b"    cjmp a < c ? b1 : b2;\n", b"    return a;\n", b"    exit;\n", b"    f64 fl = 1.5;\n", b"    f64 fi = inf;\n",
             b"    f32 fq = nan;\n", b"    f64 fe = 1e+20;\n", b"    i32 ro = a rol c;\n", b"    i32 le = load ev;\n", b"    ptr ga = &gv;\n"]  # fmt: skip


def _open_ids():
    from ..core import open_finding_ids

    return open_finding_ids(PID)


def fuzz_reader(data, known_as_label=True):
    """One fuzz input = bytes of an IR text.  Returns an outcome label; raises fuzz.Failure on a C15 violation.

    C15 speaks about well-formed modules: whatever read_module does with a text it does not accept is only counted
    (diagnostic = IrParseException / CompilerError; anything else = 'rejected:internal', the domain of C28).
    A text the reader ACCEPTS, whose module passes ppci's verifier and the independent checker vf/irwf, is a
    well-formed module: print -> read -> print must be the identity on it, globals and volatile flags included."""
    from ppci import irutils
    from ppci.common import CompilerError
    from ppci.irutils.reader import IrParseException

    text = data.decode("utf-8", "ignore")
    try:
        m = irutils.read_module(io.StringIO(text))
    except (IrParseException, CompilerError) as e:
        return "rejected:diagnostic:" + type(e).__name__
    except (RecursionError, MemoryError) as e:
        return "rejected:resource:" + type(e).__name__
    except Exception as e:
        return "rejected:internal:" + fuzz.exc_bucket(e)
    try:
        irutils.verify_module(m)
    except CompilerError as e:
        return "accepted:not-well-formed(verifier diagnostic)"
    except (RecursionError, MemoryError) as e:
        return "accepted:resource:" + type(e).__name__
    except Exception as e:
        return "accepted:verifier-internal:" + fuzz.exc_bucket(e)
    try:
        if irwf.check_module(m):
            return "accepted:not-well-formed(vf/irwf)"
        msg = check_module(m, 64, [], image=False)[0]
    except (RecursionError, MemoryError) as e:
        return "accepted:resource:" + type(e).__name__
    if msg is None:
        return "accepted:round-trip-ok" + (":functions" if m.functions else "")
    kid = classify(fuzz.case(FUZZ_TARGET, data), msg) if known_as_label else None  # (replay reports; the runner classifies)
    if kid and kid in _open_ids():
        return "known:" + kid
    mo = re.search(r"raised (\w+)\(.*\) in (\S+)", msg, re.S)
    bucket = "%s@%s" % (mo.group(1), mo.group(2)) if mo else re.split(r"[:;]| at line", msg)[0][:60]
    raise fuzz.Failure("fuzzed IR text accepted by read_module as a well-formed module: " + msg + "\n" + text[:1500], bucket)


def fuzz_reader_keep(label):
    """corpus distillation between the rounds of a campaign: go on from texts that ARE well-formed modules"""
    return label.startswith(("accepted:round-trip-ok", "known:"))


def fuzz_reader_mutator(data, max_size, seed, byte_mutate):
    """Mutator for the line-structured IR text (the printer puts one declaration / instruction on a line): 40% libFuzzer's
    byte mutations, 60% line operations (insert a production of FUZZ_DICT, delete / duplicate / swap lines, replace one
    token by a dictionary token or by another token of the text).  Deterministic in `seed` (given by libFuzzer)."""
    import random

    rnd = random.Random(seed)
    if rnd.randrange(10) < 4:
        return byte_mutate(data, max_size)
    lines = data.split(b"\n")
    if not data.strip():
        lines = [b"module m;", b""]
    prods = [d.rstrip(b"\n") for d in FUZZ_DICT if d.endswith(b"\n") and len(d) > 4]
    words = [d for d in FUZZ_DICT if not d.endswith(b"\n") and d.strip() == d]
    for _ in range(rnd.choice([1, 1, 1, 2, 3])):
        op = rnd.randrange(6)
        at = rnd.randrange(len(lines)) if lines else 0
        if op <= 1 or not lines:
            lines.insert(rnd.randrange(len(lines) + 1), rnd.choice(prods))
        elif op == 2 and len(lines) > 1:
            del lines[at]
        elif op == 3:
            lines.insert(rnd.randrange(len(lines) + 1), lines[at])
        elif op == 4 and len(lines) > 1:
            j = rnd.randrange(len(lines))
            lines[at], lines[j] = lines[j], lines[at]
        else:
            toks = re.split(rb"(\w+)", lines[at])
            idx = [i for i in range(1, len(toks), 2)]
            if idx:
                i = rnd.choice(idx)
                pool = words if rnd.randrange(2) else [t for l in lines[:60] for t in re.findall(rb"\w+", l)] or words
                toks[i] = rnd.choice(pool)
                lines[at] = b"".join(toks)
    out = b"\n".join(lines)
    return out[:max_size]


def fuzz_seeds(seed, exclude):
    """print_module texts of ~30 generated modules (known-finding shapes excluded) + the irround C fragments."""
    prof = genir_small_profile()
    seeds = []
    for c in fuzz.collect(irround.gen_case_strategy(exclude, None, prof), 60, subseed(seed, PID, "fuzz-seeds")):
        try:
            txt = print_text(irround.build_case(c)[0]).encode()
        except Exception:
            continue
        if len(txt) <= fuzz.MAX_LEN and txt not in seeds:
            seeds.append(txt)
        if len(seeds) >= 30:
            break
    for frag in irround.C_FRAGMENTS:
        try:
            txt = print_text(irround.compile_c(irround.render_fragment(frag, 7, 3, "1.5"), "0")).encode()
        except Discard:
            continue
        if len(txt) <= fuzz.MAX_LEN:
            seeds.append(txt)
    return seeds


def genir_small_profile():
    from .. import genir

    return genir.Profile(name="roundtrip-small", undef=True, nonfinite=True, permute_blocks=True, max_blocks=4, max_ins=6, max_funcs=2, split_init=35, dup_args_pct=60)


def fuzz_layer(ctx, exclude):
    try:
        info = {}
        fails = fuzz.campaign(FUZZ_TARGET, fuzz_reader, fuzz_seeds(ctx.seed, exclude), fuzz.runs(FUZZ_RUNS), subseed(ctx.seed, PID, "fuzz"),
                              ctx.tmpdir(), dictionary=FUZZ_DICT, info=info)  # fmt: skip
    except ImportError:
        ctx.stats.notes.append("atheris unavailable")
        return
    ctx.extra["fuzz"] = info
    for data, msg in fails:
        ctx.fail(fuzz.case(FUZZ_TARGET, data), msg)
