"""C40 - x86-64 code interoperates with the System V ABI.

A *signature case* is JSON:

    {"idx": 3, "dir": "A"|"B", "ret": "int"|...|"void", "params": ["char", "float", ...],
     "args": [bit patterns, one per parameter, as unsigned integers of the parameter's width],
     "retsel": index of the parameter that is returned, or -1 (then "retval" = bit pattern returned),
     "retval": bits, "poison": 0|1|2}

and a *case* is {"sigs": [signature case, ...]}: every signature becomes one ppci translation unit, all of
them are linked with one gcc-compiled driver (driver.c) and one assembly file (shim.S) and run.

Direction A: the ppci-compiled function f<idx> stores every parameter into a global and returns the selected
parameter (or the global rc<idx>); the gcc-compiled driver calls it through shim_f<idx> and compares.
Direction B: the ppci-compiled function caller<idx> calls cal<idx>(a<idx>_0, ...) (globals set by the driver)
and stores the result into r<idx>; cal<idx> is an assembly stub (alignment check, return-register poisoning,
caller-saved registers trashed) around the gcc-compiled cal<idx>_c that records what it received.

poison: 0 = registers exactly as gcc leaves them; 1 = bits 32..63 of registers / stack slots that carry a
narrower value are filled with 0xA5 (gcc leaves garbage there in practice); 2 = every bit beyond the declared
width is filled with 0xA5 (the psABI leaves them unspecified).  Poisoning is done by the shim (arguments into
ppci code) and by the stub (return values into ppci code).
"""

import os
import re
import shutil
import tempfile
import traceback

from hypothesis import strategies as st

from .. import x86link
from ..core import Discard, HarnessError, Stats, hyp_search, jhash, open_finding_ids, subseed

PID = "C40"
RULE = (
    "Hypothesis-generated function signatures: 0-12 parameters over char/signed char/unsigned char/short/"
    "unsigned short/int/unsigned/long/unsigned long/4 pointer types/float/double (type pools: mixed, integer "
    "only, floating only, narrow only), return type void or any of these, argument values as bit patterns "
    "(boundary values of every width, float specials incl. NaN/inf/-0/denormals, random patterns), the value "
    "returned = one of the parameters or a separate global, direction A (gcc driver -> ppci callee) or B (ppci "
    "caller -> gcc callee), register poisoning level 0/1/2.  Each signature is one ppci translation unit "
    "(ppci.api.cc, x86_64) written as relocatable ELF; ~14-20 per link with a generated gcc driver and assembly "
    "shim; the driver compares every received parameter and the returned value bit for bit at the declared width; "
    "the shim checks rbx, rbp, r12-r15 and rsp around every call into ppci code; the stub in front of every gcc "
    "callee checks rsp+8 = 0 mod 16 on entry and trashes all caller-saved registers.  A failing signature is "
    "rebuilt and re-run alone before it counts, then greedily minimised.  "
    "non-trivial = > 6 integer-class or > 8 floating parameters (stack passing), or both classes present, or a "
    "sub-int parameter or return type; distinct = (direction, return type, parameter types)"
)
ASSUMPTIONS = [
    "gcc 12 -O0 implements the System V x86-64 psABI (it is the 'conforming compiler' of the statement)",
    "bits of a register or stack slot beyond the declared width of a scalar are unspecified (psABI 3.2.3); the "
    "check fills them with 0xA5 patterns at poison levels 1 and 2",
    "argument values reach the ppci caller (direction B) through global variables written by the driver, not as literals",
    "struct, long double, _Bool, __int128 and variadic signatures are outside the domain",
    "a signature that ppci rejects with a CompilerError diagnostic is outside the domain (counted per reason); any "
    "other exception while compiling an in-domain signature is a failure",
]
TRUSTED = ["CPython", "Hypothesis", "gcc 12 + GNU as/ld (driver, shim, link)", "register/stack location model in vf/props/c40.py (shim poisoning only)"]
REGISTER = True
TECHNIQUE = "differential execution: generated signatures, ppci object linked with gcc-compiled driver and assembly shim, values and callee-saved registers compared at run time"
LEVEL_TEXT = (
    "Exploration: generated signatures are compiled by ppci, linked with gcc-compiled code in both call directions and "
    "executed natively; the oracle is the conforming compiler itself plus an assembly shim that observes callee-saved "
    "registers, rsp and stack alignment, and that fills every unspecified bit with a pattern.  The ABI is a contract "
    "about machine state at a call boundary, so observing real calls over many signatures is the fitting level."
)

# ---------------------------------------------------------------------------
# Types and the psABI location model (used for poisoning and for feature predicates only)

TYPES = {
    # name: (class, width in bits)
    "char": ("int", 8),
    "signed char": ("int", 8),
    "unsigned char": ("int", 8),
    "short": ("int", 16),
    "unsigned short": ("int", 16),
    "int": ("int", 32),
    "unsigned int": ("int", 32),
    "long": ("int", 64),
    "unsigned long": ("int", 64),
    "char *": ("int", 64),
    "int *": ("int", 64),
    "void *": ("int", 64),
    "double *": ("int", 64),
    "float": ("sse", 32),
    "double": ("sse", 64),
}
ALL_TYPES = list(TYPES)
INT_TYPES = [t for t in ALL_TYPES if TYPES[t][0] == "int"]
FP_TYPES = ["float", "double"]
NARROW_TYPES = [t for t in ALL_TYPES if TYPES[t][0] == "int" and TYPES[t][1] < 32]
POOLS = {
    "mixed": ALL_TYPES,
    "int": INT_TYPES,
    "fp": FP_TYPES,
    "narrow": NARROW_TYPES + ["float"],
    "wide": ["long", "unsigned long", "char *", "double", "int"],
}

INT_REGS = ["rdi", "rsi", "rdx", "rcx", "r8", "r9"]
SUBREG = {
    "rdi": ("dil", "di", "edi"),
    "rsi": ("sil", "si", "esi"),
    "rdx": ("dl", "dx", "edx"),
    "rcx": ("cl", "cx", "ecx"),
    "r8": ("r8b", "r8w", "r8d"),
    "r9": ("r9b", "r9w", "r9d"),
    "rax": ("al", "ax", "eax"),
    "r10": ("r10b", "r10w", "r10d"),
}
P64 = 0xA5A5A5A5A5A5A5A5


def locate(params):
    """psABI 3.2.3 for scalar INTEGER/SSE parameters: ('reg', name) | ('xmm', n) | ('stack', byte offset)."""
    ni = nf = off = 0
    locs = []
    for t in params:
        cls = TYPES[t][0]
        if cls == "int" and ni < 6:
            locs.append(("reg", INT_REGS[ni]))
            ni += 1
        elif cls == "sse" and nf < 8:
            locs.append(("xmm", nf))
            nf += 1
        else:
            locs.append(("stack", off))
            off += 8
    return locs


def features(sig):
    params = sig["params"]
    locs = locate(params)
    f = set()
    n_int = sum(TYPES[t][0] == "int" for t in params)
    n_fp = len(params) - n_int
    if n_int > 6:
        f.add("stack_int")
    if n_fp > 8:
        f.add("stack_fp")
    if n_int and n_fp:
        f.add("mixed")
    if any(TYPES[t][0] == "int" and TYPES[t][1] < 32 for t in params):
        f.add("subint_param")
    if sig["ret"] != "void" and TYPES[sig["ret"]][0] == "int" and TYPES[sig["ret"]][1] < 32:
        f.add("subint_ret")
    for t, l in zip(params, locs):
        if l[0] == "stack":
            if TYPES[t][0] == "sse":
                f.add("stack_" + t)
            elif TYPES[t][1] < 32:
                f.add("stack_narrow")
    return f


def nontrivial(sig):
    return bool(features(sig) & {"stack_int", "stack_fp", "mixed", "subint_param", "subint_ret"})


def sig_key(sig):
    return (sig["dir"], sig["ret"], tuple(sig["params"]))


def sig_text(sig):
    name = ("f%d" if sig["dir"] == "A" else "cal%d") % sig["idx"]
    return "[%s] %s %s(%s) poison=%d" % (sig["dir"], sig["ret"], name, ", ".join(sig["params"]) or "void", sig["poison"])


# ---------------------------------------------------------------------------
# Source generation

def _decl(t, name):
    return "%s %s" % (t, name)


def _plist(sig, names=True):
    if not sig["params"]:
        return "void"
    return ", ".join(_decl(t, "p%d" % j) if names else t for j, t in enumerate(sig["params"]))


def ppci_source(sig):
    k = sig["idx"]
    ret = sig["ret"]
    out = []
    if sig["dir"] == "A":
        for j, t in enumerate(sig["params"]):
            out.append("%s;" % _decl(t, "g%d_%d" % (k, j)))
        if ret != "void" and sig["retsel"] < 0:
            out.append("%s;" % _decl(ret, "rc%d" % k))
        out.append("%s f%d(%s)" % (ret, k, _plist(sig)))
        out.append("{")
        for j in range(len(sig["params"])):
            out.append("  g%d_%d = p%d;" % (k, j, j))
        if ret != "void":
            out.append("  return %s;" % ("p%d" % sig["retsel"] if sig["retsel"] >= 0 else "rc%d" % k))
        out.append("}")
    else:
        out.append("extern %s cal%d(%s);" % (ret, k, _plist(sig)))
        for j, t in enumerate(sig["params"]):
            out.append("%s;" % _decl(t, "a%d_%d" % (k, j)))
        if ret != "void":
            out.append("%s;" % _decl(ret, "r%d" % k))
        out.append("void caller%d(void)" % k)
        out.append("{")
        call = "cal%d(%s)" % (k, ", ".join("a%d_%d" % (k, j) for j in range(len(sig["params"]))))
        out.append("  %s%s;" % ("r%d = " % k if ret != "void" else "", call))
        out.append("}")
    return "\n".join(out) + "\n"


def _cval(t, bits):
    """C expression (gcc side) of type t with the given bit pattern."""
    cls, w = TYPES[t]
    if cls == "sse":
        return ("mkf(0x%xu)" if w == 32 else "mkd(0x%xull)") % bits
    return "(%s)0x%xull" % (t, bits)


def _fill_byte(bits, w):
    """A fill byte such that the filled object differs from the expected bits."""
    pat = int.from_bytes(b"\x5a" * (w // 8), "little")
    return 0x5A if pat != bits else 0xA5


DRIVER_HEAD = r"""
#include <stdio.h>
#include <string.h>
#include <stdlib.h>
unsigned shim_flags, stub_flags;
static float mkf(unsigned b) { float f; memcpy(&f, &b, 4); return f; }
static double mkd(unsigned long long b) { double d; memcpy(&d, &b, 8); return d; }
static int bad;
static void ck(int k, const char *what, int j, const void *p, int n, unsigned long long exp)
{
  unsigned long long got = 0;
  memcpy(&got, p, n);
  if (got != exp) { printf("M %d %s %d 0x%llx 0x%llx\n", k, what, j, exp, got); bad = 1; }
}
static void flags(int k)
{
  if (shim_flags) printf("M %d regs 0 0x0 0x%x\n", k, shim_flags);
  if (stub_flags) printf("M %d align 0 0x0 0x%x\n", k, stub_flags);
  shim_flags = stub_flags = 0;
}
"""


def driver_source(sigs):
    out = [DRIVER_HEAD]
    for sig in sigs:
        k = sig["idx"]
        ret = sig["ret"]
        params = sig["params"]
        n = len(params)
        if sig["dir"] == "A":
            for j, t in enumerate(params):
                out.append("extern %s;" % _decl(t, "g%d_%d" % (k, j)))
            if ret != "void" and sig["retsel"] < 0:
                out.append("extern %s;" % _decl(ret, "rc%d" % k))
            out.append("extern %s shim_f%d(%s);" % (ret, k, _plist(sig, names=False)))
            out.append("static void test%d(void) {" % k)
            out.append('  printf("B %d\\n");' % k)
            for j, t in enumerate(params):
                out.append("  memset(&g%d_%d, 0x%x, sizeof g%d_%d);" % (k, j, _fill_byte(sig["args"][j], TYPES[t][1]), k, j))
            if ret != "void" and sig["retsel"] < 0:
                out.append("  rc%d = %s;" % (k, _cval(ret, sig["retval"])))
            call = "shim_f%d(%s)" % (k, ", ".join(_cval(t, sig["args"][j]) for j, t in enumerate(params)))
            if ret != "void":
                out.append("  %s = %s;" % (_decl(ret, "r"), call))
            else:
                out.append("  %s;" % call)
            out.append("  flags(%d);" % k)
            for j, t in enumerate(params):
                out.append("  ck(%d, \"param\", %d, &g%d_%d, sizeof g%d_%d, 0x%xull);" % (k, j, k, j, k, j, sig["args"][j]))
            if ret != "void":
                out.append("  ck(%d, \"ret\", 0, &r, sizeof r, 0x%xull);" % (k, expected_ret(sig)))
            out.append('  printf("E %d\\n");' % k)
            out.append("}")
        else:
            for j, t in enumerate(params):
                out.append("extern %s;" % _decl(t, "a%d_%d" % (k, j)))
                out.append("%s;" % _decl(t, "rv%d_%d" % (k, j)))
            if ret != "void":
                out.append("extern %s;" % _decl(ret, "r%d" % k))
                out.append("%s;" % _decl(ret, "rvret%d" % k))
            out.append("int n%d;" % k)
            out.append("extern void shim_caller%d(void);" % k)
            out.append("%s cal%d_c(%s) {" % (ret, k, _plist(sig)))
            for j in range(n):
                out.append("  rv%d_%d = p%d;" % (k, j, j))
            out.append("  n%d++;" % k)
            if ret != "void":
                out.append("  return %s;" % ("p%d" % sig["retsel"] if sig["retsel"] >= 0 else "rvret%d" % k))
            out.append("}")
            out.append("static void test%d(void) {" % k)
            out.append('  printf("B %d\\n");' % k)
            for j, t in enumerate(params):
                out.append("  a%d_%d = %s;" % (k, j, _cval(t, sig["args"][j])))
                out.append("  memset(&rv%d_%d, 0x%x, sizeof rv%d_%d);" % (k, j, _fill_byte(sig["args"][j], TYPES[t][1]), k, j))
            if ret != "void":
                out.append("  memset(&r%d, 0x%x, sizeof r%d);" % (k, _fill_byte(expected_ret(sig), TYPES[ret][1]), k))
                if sig["retsel"] < 0:
                    out.append("  rvret%d = %s;" % (k, _cval(ret, sig["retval"])))
            out.append("  shim_caller%d();" % k)
            out.append("  flags(%d);" % k)
            out.append("  if (n%d != 1) printf(\"M %d ncalls 0 0x1 0x%%x\\n\", n%d);" % (k, k, k))
            for j, t in enumerate(params):
                out.append("  ck(%d, \"param\", %d, &rv%d_%d, sizeof rv%d_%d, 0x%xull);" % (k, j, k, j, k, j, sig["args"][j]))
            if ret != "void":
                out.append("  ck(%d, \"ret\", 0, &r%d, sizeof r%d, 0x%xull);" % (k, k, k, expected_ret(sig)))
            out.append('  printf("E %d\\n");' % k)
            out.append("}")
    out.append("int main(int argc, char **argv) {")
    out.append("  int i; setvbuf(stdout, 0, _IONBF, 0);")
    out.append("  for (i = 1; i < argc; i++) switch (atoi(argv[i])) {")
    for sig in sigs:
        out.append("    case %d: test%d(); break;" % (sig["idx"], sig["idx"]))
    out.append("  }")
    out.append("  return 0;")
    out.append("}")
    return "\n".join(out) + "\n"


def expected_ret(sig):
    return sig["args"][sig["retsel"]] if sig["retsel"] >= 0 else sig["retval"]


SENTINELS = [
    ("rbx", 0x1B1B1B1B0000B0B1, 2),
    ("rbp", 0x2B2B2B2B0000B0B2, 4),
    ("r12", 0x1212121200001212, 8),
    ("r13", 0x1313131300001313, 16),
    ("r14", 0x1414141400001414, 32),
    ("r15", 0x1515151500001515, 64),
]
FLAG_NAMES = {1: "rsp"}
FLAG_NAMES.update({bit: name for name, _, bit in SENTINELS})


def _poison_int(reg, width, level):
    """Instructions that fill the unspecified bits of an integer value in the 64-bit register reg."""
    if level == 0 or width == 64:
        return []
    r8, r16, r32 = SUBREG[reg]
    if level == 1 or width == 32:
        keep = 32
        ops = ["movl %%%s, %%%s" % (r32, r32)]
    elif width == 8:
        keep = 8
        ops = ["movzbl %%%s, %%%s" % (r8, r32)]
    else:
        keep = 16
        ops = ["movzwl %%%s, %%%s" % (r16, r32)]
    mask = P64 & ~((1 << keep) - 1)
    ops += ["movabsq $0x%x, %%r11" % mask, "orq %%r11, %%%s" % reg]
    return ops


def _poison_xmm(n, width, level):
    if level == 0:
        return []
    ops = []
    if width == 32:
        ops += ["movd %%xmm%d, %%r10d" % n, "movabsq $0x%x, %%r11" % (P64 & ~0xFFFFFFFF), "orq %r11, %r10", "movq %%r10, %%xmm%d" % n]
    ops.append("movlhps %%xmm%d, %%xmm%d" % (n, n))
    return ops


def shim_source(sigs):
    out = ["    .text"]
    for name in ["ret", "rsp"] + [s[0] for s in SENTINELS]:
        out.append("    .lcomm sv_%s, 8" % name)
    out.append("    .lcomm st_ret, 8")
    for sig in sigs:
        k = sig["idx"]
        target = ("f%d" if sig["dir"] == "A" else "caller%d") % k
        out += ["    .globl shim_%s" % target, "    .type shim_%s, @function" % target, "shim_%s:" % target, "    popq sv_ret(%rip)"]
        for name, _, _ in SENTINELS:
            out.append("    movq %%%s, sv_%s(%%rip)" % (name, name))
        if sig["dir"] == "A":
            for t, loc in zip(sig["params"], locate(sig["params"])):
                cls, w = TYPES[t]
                if loc[0] == "reg":
                    ops = _poison_int(loc[1], w, sig["poison"])
                elif loc[0] == "xmm":
                    ops = _poison_xmm(loc[1], w, sig["poison"])
                elif cls == "int":
                    ops = _poison_int("r10", w, sig["poison"])
                    if ops:
                        ops = ["movq %d(%%rsp), %%r10" % loc[1]] + ops + ["movq %%r10, %d(%%rsp)" % loc[1]]
                else:
                    ops = ["movl $0xa5a5a5a5, %d(%%rsp)" % (loc[1] + 4)] if (w == 32 and sig["poison"]) else []
                out += ["    " + o for o in ops]
        for name, val, _ in SENTINELS:
            out.append("    movabsq $0x%x, %%%s" % (val, name))
        out += ["    movq %rsp, sv_rsp(%rip)", "    call %s" % target, "    cmpq sv_rsp(%rip), %rsp", "    je 1f",
                "    orl $1, shim_flags(%rip)", "    movq sv_rsp(%rip), %rsp", "1:"]
        for name, val, bit in SENTINELS:
            out += ["    movabsq $0x%x, %%r11" % val, "    cmpq %%r11, %%%s" % name, "    je 2f", "    orl $%d, shim_flags(%%rip)" % bit, "2:"]
        for name, _, _ in SENTINELS:
            out.append("    movq sv_%s(%%rip), %%%s" % (name, name))
        out.append("    jmpq *sv_ret(%rip)")
        if sig["dir"] == "B":
            ret = sig["ret"]
            out += ["    .globl cal%d" % k, "    .type cal%d, @function" % k, "cal%d:" % k, "    leaq 8(%rsp), %r11", "    testb $15, %r11b",
                    "    jz 3f", "    orl $1, stub_flags(%rip)", "3:", "    popq st_ret(%rip)", "    call cal%d_c" % k]
            keep_rax = keep_xmm0 = False
            if ret != "void":
                cls, w = TYPES[ret]
                if cls == "int":
                    keep_rax = True
                    out += ["    " + o for o in _poison_int("rax", w, sig["poison"])]
                else:
                    keep_xmm0 = True
                    out += ["    " + o for o in _poison_xmm(0, w, sig["poison"])]
            out.append("    movabsq $0x7a7a7a7a7a7a7a7a, %r11")
            for r in ["rcx", "rdx", "rsi", "rdi", "r8", "r9", "r10"] + ([] if keep_rax else ["rax"]):
                out.append("    movq %%r11, %%%s" % r)
            for n in range(0 if not keep_xmm0 else 1, 16):
                out += ["    movq %%r11, %%xmm%d" % n, "    movlhps %%xmm%d, %%xmm%d" % (n, n)]
            out.append("    jmpq *st_ret(%rip)")
    out.append('    .section .note.GNU-stack,"",@progbits')
    return "\n".join(out) + "\n"


# ---------------------------------------------------------------------------
# Evaluation

def _ppci_frame(tb):
    """innermost ppci frame 'file.py:function' of a traceback."""
    last = None
    for fs in traceback.extract_tb(tb):
        fn = fs.filename.replace("\\", "/")
        if "/ppci/" in fn:
            last = "%s:%s" % (fn.split("/ppci/", 1)[1], fs.name)
    return last or "?"


def compile_sig(sig):
    """-> ('ok', obj) | ('reject', reason) | ('fail', message)"""
    from ppci.common import CompilerError

    src = ppci_source(sig)
    try:
        return ("ok", x86link.ppci_cc(src))
    except CompilerError as e:
        return ("reject", "CompilerError: %s" % str(e.msg)[:60])
    except Exception as e:
        return ("fail", "compile: ppci raised %s(%s) in %s" % (type(e).__name__, str(e)[:80], _ppci_frame(e.__traceback__)))


def _describe(sig, what, j, exp, got):
    if what == "param":
        t = sig["params"][j]
        loc = locate(sig["params"])[j]
        where = {"reg": "%s", "xmm": "xmm%s", "stack": "stack+%s"}[loc[0]] % loc[1]
        return "param %d (%s @%s): passed 0x%x received 0x%x" % (j, t, where, exp, got)
    if what == "ret":
        return "ret (%s): expected 0x%x got 0x%x" % (sig["ret"], exp, got)
    if what == "regs":
        names = [FLAG_NAMES[b] for b in sorted(FLAG_NAMES) if got & b]
        return "regs: not preserved across the call: %s" % ",".join(names)
    if what == "align":
        return "align: rsp+8 not a multiple of 16 on entry to the callee"
    if what == "ncalls":
        return "ncalls: callee was entered %d times" % got
    return "%s %d 0x%x 0x%x" % (what, j, exp, got)


def evaluate(sigs, workdir):
    """Build and run all signatures.  -> {idx: ('ok', None) | ('reject', reason) | ('fail', message)}"""
    res = {}
    objs = {}
    good = []
    seen = set()
    for sig in sigs:
        if sig["idx"] in seen:
            raise HarnessError("duplicate idx in case")
        seen.add(sig["idx"])
        kind, val = compile_sig(sig)
        if kind == "ok":
            objs["p%d.o" % sig["idx"]] = val
            good.append(sig)
        else:
            res[sig["idx"]] = (kind, val)
    if not good:
        return res
    try:
        exe = x86link.build(workdir, objs, {"driver.c": driver_source(good), "shim.S": shim_source(good)}, cflags=["-O0"])
    except x86link.ToolError as e:
        raise HarnessError("gcc could not build the batch: %s" % e)
    pending = [s["idx"] for s in good]
    byidx = {s["idx"]: s for s in good}
    problems = {k: [] for k in pending}
    while pending:
        r = x86link.run_exe(exe, pending, timeout=60)
        begun, ended = [], set()
        for line in r.stdout.splitlines():
            f = line.split()
            if not f:
                continue
            if f[0] == "B":
                begun.append(int(f[1]))
            elif f[0] == "E":
                ended.add(int(f[1]))
            elif f[0] == "M":
                k = int(f[1])
                problems[k].append(_describe(byidx[k], f[2], int(f[3]), int(f[4], 16), int(f[5], 16)))
        for k in begun:
            if k in ended:
                res[k] = ("fail", "; ".join(problems[k])) if problems[k] else ("ok", None)
        crashed = [k for k in begun if k not in ended]
        if crashed:
            k = crashed[0]
            res[k] = ("fail", "; ".join(["crash: %s during the call" % x86link.signal_name(r.status)] + problems[k]))
        elif r.status not in ("ok", "timeout"):
            raise HarnessError("driver ended with %s outside a test: %s" % (r.status, r.stderr[-500:]))
        done = set(begun)
        new_pending = [k for k in pending if k not in done]
        if len(new_pending) == len(pending):
            raise HarnessError("driver made no progress: %s %s" % (r.status, r.stdout[-300:]))
        pending = new_pending
    return res


def eval_in_tmp(sigs):
    d = tempfile.mkdtemp(prefix="vf-C40-")
    try:
        return evaluate(sigs, d)
    finally:
        shutil.rmtree(d, ignore_errors=True)


def check_sig_case(case):
    if not isinstance(case, dict) or "sigs" not in case:
        raise Discard("malformed case")
    for sig in case["sigs"]:
        if any(t not in TYPES for t in sig["params"]) or (sig["ret"] != "void" and sig["ret"] not in TYPES):
            raise Discard("type outside the domain")
        if len(sig["params"]) > 12 or len(sig["args"]) != len(sig["params"]):
            raise Discard("malformed signature")
        if sig["retsel"] >= 0 and sig["params"][sig["retsel"]] != sig["ret"]:
            raise Discard("returned parameter has a different type")


def fail_message(sig, msg):
    return "%s: %s" % (sig_text(sig), msg)


def replay(case):
    check_sig_case(case)
    res = eval_in_tmp(case["sigs"])
    msgs = []
    rejected = 0
    for sig in case["sigs"]:
        kind, val = res[sig["idx"]]
        if kind == "fail":
            msgs.append(fail_message(sig, val))
        elif kind == "reject":
            rejected += 1
    if msgs:
        return "\n".join(msgs)
    if rejected == len(case["sigs"]):
        raise Discard("ppci rejects the signature with a diagnostic")
    return None


# ---------------------------------------------------------------------------
# Known findings: narrow signatures (feature predicate + model of the wrong observation)

_RE_PARAM = re.compile(r"^param (\d+) \(.*\): passed 0x([0-9a-f]+) received 0x([0-9a-f]+)$")
_RE_RET = re.compile(r"^ret \(.*\): expected 0x([0-9a-f]+) got 0x([0-9a-f]+)$")
_RE_NIE = re.compile(r"^compile: ppci raised NotImplementedError\((.*)\) in arch/x86_64/arch\.py:(\w+)$")


def _problems(sig, msg):
    head = sig_text(sig) + ": "
    if not msg.startswith(head):
        return None
    return msg[len(head):].split("; ")


def _stack_image(sig):
    """Bytes of the stack argument area as the gcc driver and the shim leave it (None = not known)."""
    img = []
    lvl = sig["poison"]
    for t, loc, a in zip(sig["params"], locate(sig["params"]), sig["args"]):
        if loc[0] != "stack":
            continue
        cls, w = TYPES[t]
        nb = w // 8
        slot = [(a >> (8 * i)) & 0xFF for i in range(nb)] + [None] * (8 - nb)
        if cls == "sse":
            if w == 32 and lvl:
                slot[4:8] = [0xA5] * 4
        elif w < 64 and lvl:
            keep = nb if (lvl == 2 or w == 32) else 4
            for i in range(keep, 8):
                slot[i] = 0xA5
        img += slot
    return img


def _kf1_model(sig):
    """C40-KF1: the callee computes the offset of a stack parameter with 4-byte slots for float.
    -> {param index: list of predicted received bytes (None = unknown)} for the parameters read from a wrong offset."""
    img = _stack_image(sig)
    pred = {}
    off = 0
    for j, (t, loc) in enumerate(zip(sig["params"], locate(sig["params"]))):
        if loc[0] != "stack":
            continue
        nb = TYPES[t][1] // 8
        if off != loc[1]:
            pred[j] = img[off:off + nb]
        off += 4 if t == "float" else 8
    return pred


def _bytes_match(pred, got):
    return all(p is None or p == (got >> (8 * i)) & 0xFF for i, p in enumerate(pred))


def classify(case, msg):
    """One failing signature: the id of the finding whose narrow signature matches.  A multi-signature case (replay
    corpus) is attributed only if every failing line matches a finding; then an id that is not open is preferred, so
    that a fixed finding that reappears among open ones still alarms."""
    sigs = case.get("sigs", ())
    lines = msg.split("\n")
    if len(sigs) == 1 and len(lines) == 1:
        return _classify_one(sigs[0], msg)
    ids = []
    for line in lines:
        match = [s for s in sigs if line.startswith(sig_text(s) + ": ")]
        kid = _classify_one(match[0], line) if len(match) == 1 else None
        if kid is None:
            return None
        ids.append(kid)
    closed = [k for k in ids if k not in open_finding_ids(PID)]
    return (closed or ids or [None])[0]


def _classify_one(sig, msg):
    probs = _problems(sig, msg)
    if not probs:
        return None
    feats = features(sig)
    m = _RE_NIE.match(probs[0]) if len(probs) == 1 else None
    if m:
        what, fn = m.groups()
        if sig["dir"] == "A" and fn == "gen_function_enter" and "stack_narrow" in feats and re.search(r"registers\.Register(8|16)'>$", what):
            return "C40-KF2"
        if sig["dir"] == "B" and fn == "gen_call" and re.match(r"^vreg\d+$", what) and feats & {"stack_narrow", "stack_float", "stack_double"}:
            return "C40-KF3"
        return None
    if sig["dir"] == "A" and "stack_float" in feats:
        pred = _kf1_model(sig)
        received = {}
        for p in probs:
            m = _RE_PARAM.match(p)
            if m:
                j, got = int(m.group(1)), int(m.group(3), 16)
                if j not in pred or not _bytes_match(pred[j], got):
                    return None
                received[j] = got
                continue
            m = _RE_RET.match(p)
            if m and sig["retsel"] in pred and _bytes_match(pred[sig["retsel"]], int(m.group(2), 16)):
                continue
            return None
        return "C40-KF1"
    return None


def _retype(sig, j, t):
    sig = dict(sig, params=sig["params"][:j] + [t] + sig["params"][j + 1:])
    if sig["retsel"] == j:
        sig["ret"] = t
    return sig


def _widen(t):
    return "int" if t in ("char", "signed char", "short") else "unsigned int"


def _excl_kf1(sig):
    """no float on the stack in front of another stack parameter (direction A)"""
    if sig["dir"] != "A":
        return None
    locs = locate(sig["params"])
    stack = [j for j, l in enumerate(locs) if l[0] == "stack"]
    hit = [j for j in stack[:-1] if sig["params"][j] == "float"]
    for j in hit:
        sig = _retype(sig, j, "double")
    return sig if hit else None


def _excl_kf2(sig):
    """no 8/16-bit parameter on the stack (direction A)"""
    if sig["dir"] != "A":
        return None
    hit = [j for j, (t, l) in enumerate(zip(sig["params"], locate(sig["params"]))) if l[0] == "stack" and TYPES[t][0] == "int" and TYPES[t][1] < 32]
    for j in hit:
        sig = _retype(sig, j, _widen(sig["params"][j]))
    return sig if hit else None


def _excl_kf3(sig):
    """only 32/64-bit integer-class arguments on the stack (direction B)"""
    if sig["dir"] != "B":
        return None
    changed = False
    while True:
        for j, (t, l) in enumerate(zip(sig["params"], locate(sig["params"]))):
            cls, w = TYPES[t]
            if l[0] == "stack" and (cls == "sse" or w < 32):
                sig = _retype(sig, j, "long" if cls == "sse" else _widen(t))
                changed = True
                break
        else:
            return sig if changed else None


# generator exclusions: finding id -> function(sig) -> repaired sig | None (not affected)
EXCLUSIONS = {"C40-KF2": _excl_kf2, "C40-KF1": _excl_kf1, "C40-KF3": _excl_kf3}


def apply_exclusions(sig, stats):
    if os.environ.get("VERIF_C40_NO_EXCLUSIONS"):  # for validating fix patches: search the excluded shapes too
        return sig
    open_ids = open_finding_ids(PID)
    for kid, fn in EXCLUSIONS.items():
        if kid in open_ids:
            new = fn(sig)
            if new is not None:
                stats.excluded[kid] += 1
                sig = new
    return sig


# ---------------------------------------------------------------------------
# Strategies

def _int_boundaries(w):
    m = (1 << w) - 1
    vals = {0, 1, 2, m, m - 1, 1 << (w - 1), (1 << (w - 1)) - 1, (1 << (w - 1)) + 1}
    for b in (7, 8, 15, 16, 31, 32):
        if b < w:
            vals |= {(1 << b) - 1, 1 << b, m ^ ((1 << b) - 1)}
    return sorted(v & m for v in vals)


F32_SPECIAL = [0x00000000, 0x80000000, 0x3F800000, 0xBF800000, 0x7F800000, 0xFF800000, 0x7FC00000, 0x7FA00001, 0x00000001, 0x007FFFFF,
               0x00800000, 0x7F7FFFFF, 0x40490FDB, 0x3DCCCCCD]
F64_SPECIAL = [0x0000000000000000, 0x8000000000000000, 0x3FF0000000000000, 0xBFF0000000000000, 0x7FF0000000000000, 0xFFF0000000000000,
               0x7FF8000000000000, 0x7FF4000000000001, 0x0000000000000001, 0x000FFFFFFFFFFFFF, 0x0010000000000000, 0x7FEFFFFFFFFFFFFF,
               0x400921FB54442D18, 0x3FB999999999999A, 0x3FF0000000000001]


def value_strategy(t):
    cls, w = TYPES[t]
    rnd = st.integers(0, (1 << w) - 1)
    if cls == "sse":
        return st.one_of(st.sampled_from(F32_SPECIAL if w == 32 else F64_SPECIAL), rnd, rnd)
    return st.one_of(st.sampled_from(_int_boundaries(w)), rnd, rnd)


@st.composite
def sig_strategy(draw):
    pool = POOLS[draw(st.sampled_from(["mixed", "mixed", "mixed", "int", "fp", "narrow", "wide"]))]
    n = draw(st.sampled_from([0, 1, 2, 3, 4, 5, 6, 7, 8, 9, 10, 11, 12, 7, 8, 9, 10, 11, 12, 12]))
    params = [draw(st.sampled_from(pool)) for _ in range(n)]
    args = [draw(value_strategy(t)) for t in params]
    retval = 0
    if n and draw(st.integers(0, 9)) < 6:
        retsel = draw(st.integers(0, n - 1))
        ret = params[retsel]
    else:
        retsel = -1
        ret = draw(st.sampled_from(["void"] + ALL_TYPES))
        if ret != "void":
            retval = draw(value_strategy(ret))
    return {
        "idx": 0,
        "dir": draw(st.sampled_from(["A", "B"])),
        "ret": ret,
        "params": params,
        "args": args,
        "retsel": retsel,
        "retval": retval,
        "poison": draw(st.sampled_from([2, 0, 1, 2])),
    }


# ---------------------------------------------------------------------------
# Search

def _kind(msg):
    return msg.split(":", 1)[0].split(" ", 1)[0]


def minimise(sig, msg, budget=16):
    """Greedy reduction of a confirmed failing signature; keeps the kind of the first problem."""
    kind = _kind(msg)
    kid0 = classify({"sigs": [sig]}, fail_message(sig, msg))

    def still_fails(cand):
        nonlocal budget
        if budget <= 0:
            return None
        budget -= 1
        try:
            k, v = eval_in_tmp([cand])[cand["idx"]]
        except HarnessError:
            return None
        if k != "fail" or _kind(v) != kind or classify({"sigs": [cand]}, fail_message(cand, v)) != kid0:
            return None
        return v

    changed = True
    while changed and budget > 0:
        changed = False
        for j in reversed(range(len(sig["params"]))):
            if j == sig["retsel"]:
                continue
            cand = dict(sig, params=sig["params"][:j] + sig["params"][j + 1:], args=sig["args"][:j] + sig["args"][j + 1:],
                        retsel=sig["retsel"] - 1 if sig["retsel"] > j else sig["retsel"])
            v = still_fails(cand)
            if v:
                sig, msg, changed = cand, v, True
        if sig["poison"]:
            cand = dict(sig, poison=0)
            v = still_fails(cand)
            if v:
                sig, msg, changed = cand, v, True
        if sig["ret"] != "void" and sig["retsel"] < 0:
            cand = dict(sig, ret="void", retval=0)
            v = still_fails(cand)
            if v:
                sig, msg, changed = cand, v, True
    return sig, msg


def sig_classes(sig, outcome):
    n = len(sig["params"])
    cl = ["dir:" + sig["dir"], "nparams:%s" % ("0" if n == 0 else "1-6" if n <= 6 else "7-12"), "poison:%d" % sig["poison"],
          "ret:" + sig["ret"], "outcome:" + outcome]
    cl += ["feature:" + f for f in sorted(features(sig))]
    return cl


def _worker(arg):
    """Hypothesis draws the signatures; they are evaluated in link batches of bsize afterwards."""
    seed, nsigs, bsize, min_budget = arg
    stats = Stats()
    fails = []
    open_ids = open_finding_ids(PID)
    drawn = []
    seen = set()

    def prop(sigs):
        # (Hypothesis' first example is the minimal one: bsize identical 'void f(void)' - kept once)
        for sig in sigs:
            h = jhash(sig)
            if h not in seen:
                seen.add(h)
                drawn.append(apply_exclusions(sig, stats))
        return None

    nbatches = (nsigs + bsize - 1) // bsize
    hyp_search(st.lists(sig_strategy(), min_size=bsize, max_size=bsize), prop, nbatches + 1, seed, stats, shrink=False)
    confirmations = 0
    chunks = [drawn[i:i + bsize] for i in range(0, len(drawn), bsize)]
    if len(chunks) > 1 and len(chunks[-1]) <= 4:
        chunks[-2:] = [chunks[-2] + chunks[-1]]
    for chunk in chunks:
        sigs = [dict(s, idx=j) for j, s in enumerate(chunk)]
        res = eval_in_tmp(sigs)
        for sig in sigs:
            kind, val = res[sig["idx"]]
            if kind == "reject":
                stats.discard("ppci diagnostic: " + val)
                continue
            nt = nontrivial(sig)
            sample = {"sig": sig_text(sig), "args": ["0x%x" % a for a in sig["args"]]} if nt else None
            stats.case(sig_key(sig) if nt else None, nt, sample, classes=sig_classes(sig, kind))
            if kind != "fail":
                continue
            if confirmations >= 4:
                stats.hist["failures_not_rerun"] += 1
                continue
            confirmations += 1
            # second, fresh, isolated run before it counts
            single = dict(sig)
            k2, v2 = eval_in_tmp([single])[single["idx"]]
            if k2 != "fail":
                stats.unreproduced += 1
                stats.notes.append("unreproduced in isolation: %s" % fail_message(sig, val)[:300])
                continue
            kid = classify({"sigs": [single]}, fail_message(single, v2))
            if kid and kid in open_ids:
                stats.known[kid] += 1
                continue
            if not fails:
                single, v2 = minimise(single, v2, min_budget)
            fails.append(({"sigs": [single]}, fail_message(single, v2)))
    return stats, fails


def run(ctx):
    why = x86link.have_toolchain()
    if why:
        raise HarnessError(why)
    nsigs, bsize = ctx.scale((14, 14), (1260, 20))
    ctx.pmap(_worker, [(subseed(ctx.seed, PID, w), nsigs, bsize, ctx.scale(8, 30)) for w in range(16)])
    ctx.extra["targets_covered"] = ["x86_64 (System V, gcc 12 as the conforming compiler)"]
