"""C26 - C preprocessor agrees with a conforming preprocessor (gcc -E), compared as token sequences.

case = {"src": "<translation unit text>"}

Three preprocessors see the text: ppci's CPreProcessor (token stream of process_file), gcc -E -P -std=c99 (the
oracle; its text is re-lexed with the tokenizer of vf/cppref.py) and the reference model vf/cppref.RefPP.  A case is
judged only when gcc is silent (no diagnostic) and the reference model agrees with gcc - that keeps the check
out of the corners the standard leaves unspecified.  The reference model also provides the trigger features and the
quirk models of the known findings.
"""

import gc
import io
import itertools
import os
import signal
import subprocess
import traceback

from hypothesis import strategies as st

from .. import cppref
from ..core import Discard, HarnessError, Stats, hyp_search, jhash, open_finding_ids, subseed

PID = "C26"
RULE = (
    "Hypothesis-generated translation units: 1-6 object-like and function-like macros (0-4 parameters; variadic in "
    "thorough) whose bodies mix identifiers, numbers, punctuators, parameters, #param, a ## b (also chains), "
    "parenthesised groups and references to every macro of the unit including itself (self and mutual recursion), "
    "use lines with nested calls, empty arguments and parenthesised commas, #undef, and #if/#elif/#else/#endif "
    "chains (nested, also around definitions) over expression trees of decimal/hex/octal/character literals with "
    "u/l/ll suffixes, boundary values, numeric macros, undefined identifiers, defined X / defined(X) and the "
    "operators + - * / % << >> < > <= >= == != & ^ | && || ! ~ ?: (no undefined arithmetic by construction). "
    "ppci's token stream is compared with the re-lexed output of gcc -E -P -std=c99.  "
    "non-trivial = the unit uses ##, #, a self/mutually recursive reference that is suppressed, or a #if with a "
    "negative or unsigned operand (measured on the reference model's run); distinct = hash of the text"
)
ASSUMPTIONS = [
    "gcc 12 -E -std=c99 is a conforming preprocessor; cases with any gcc diagnostic are discarded",
    "cases on which the reference model vf/cppref.py and gcc disagree are discarded (unspecified corners, e.g. "
    "nested replacement completed by tokens of the outer context, spacing of stringified expansion results)",
    "the token sequence of ppci is the token stream of CPreProcessor.process_file (what the C parser consumes), "
    "not a re-lexing of the text written by CTokenPrinter",
    "intmax_t/uintmax_t are 64 bit; >> of negative values and shifts by >= 64 are not generated",
    "a unit on which ppci produces nothing within 10 s (normal: milliseconds) counts as non-termination, i.e. a failure",
]
TRUSTED = ["CPython", "Hypothesis", "gcc 12 (cpp)", "tokenizer and reference preprocessor in vf/cppref.py (must agree with gcc on every judged case)"]
TECHNIQUE = "differential testing against gcc -E on generated macro/conditional translation units, token-level comparison"
LEVEL_TEXT = (
    "Exploration: generated translation units are preprocessed by ppci, by gcc (oracle) and by an independent "
    "hide-set reference model; only units on which gcc is silent and the model agrees are judged, and ppci's token "
    "stream must equal gcc's.  The input space (programs) is unbounded, so sampling with a structured generator plus "
    "a second model as guard is the appropriate level."
)
REGISTER = True

GCC = ["gcc", "-E", "-P", "-std=c99", "-x", "c", "-"]

# id -> (trigger features measured on the reference model's run (over-approximate the defect's trigger),
#        quirk of the reference model that reproduces the wrong output | None,
#        exception signature (type name, innermost ppci frame | None, text fragment | None) | None)
FINDINGS = {
    "C26-KF1": (("if_negdiv",), "if_floordiv", None),
    "C26-KF2": (("if_unsigned",), "if_nounsigned", None),
    "C26-KF3": (("stringize_tight",), "stringize_all_spaces", None),
    "C26-KF4": (("painted_in_arg",), "arg_loses_paint", ("RecursionError", None, None)),
    "C26-KF5": (("funlike_then_macro",), "funlike_lookahead", None),
    "C26-KF6": (("hashhash_in_arg",), "ppci_paste", None),
    "C26-KF7": (("paste_empty_arg",), "ppci_paste", None),
    "C26-KF8": (("paste_ppnumber",), None, ("CompilerError", "preprocessor.py:error", "Invalidly glued")),
    "C26-KF9": (("empty_at_end_arg",), None, ("AttributeError", "preprocessor.py:expand", "'NoneType' object has no attribute 'val'")),
}

# generator switches that steer away from an open finding's shape (the exact exclusion is the feature test)
GEN_FLAGS = {
    "C26-KF1": ("no_divmod_neg",),
    "C26-KF2": ("no_unsigned",),
    "C26-KF8": ("no_num_paste",),
}


# ---------------------------------------------------------------------------
# running the three preprocessors


class _Timeout(Exception):
    pass


def _alarm(signum, frame):
    raise _Timeout()


PPCI_LIMIT = [10]  # seconds; a unit takes milliseconds


def run_ppci(src, limit=None):
    """-> ("ok", [spellings]) | ("exc", type name, innermost ppci frame 'file:function', text) | ("timeout",)"""
    from ppci.lang.c import COptions, CPreProcessor
    from ppci.lang.c.utils import LineInfo

    pp = CPreProcessor(COptions())
    limit = limit or PPCI_LIMIT[0]
    gc_was = gc.isenabled()
    gc.disable()  # gc callbacks (Hypothesis installs one) would swallow the timeout exception
    # CPU time of this process, not wall-clock: a loaded machine must not turn a slow unit into a failure
    old = signal.signal(signal.SIGPROF, _alarm)
    signal.setitimer(signal.ITIMER_PROF, limit, 1.0)  # repeats, in case one exception is swallowed
    try:
        toks = []
        for t in pp.process_file(io.StringIO(src), "t.c"):
            if isinstance(t, LineInfo) or t.typ in ("WS", "BOL"):
                continue
            toks.append(t.val)
        return ("ok", toks)
    except _Timeout:
        return ("timeout",)
    except Exception as e:  # noqa
        frame = "?"
        for fs in traceback.extract_tb(e.__traceback__):
            if "ppci" in fs.filename and "/verif/" not in fs.filename:
                frame = "%s:%s" % (os.path.basename(fs.filename), fs.name)
        text = getattr(e, "msg", None) or str(e)
        return ("exc", type(e).__name__, frame, str(text)[:200])
    finally:
        signal.setitimer(signal.ITIMER_PROF, 0)
        signal.signal(signal.SIGPROF, old)
        if gc_was:
            gc.enable()


_GCC_CACHE = {}


def _prefill():
    """One gcc run for all known-finding witnesses and regression replays (process start is the expensive part)."""
    _GCC_CACHE[None] = None
    try:
        import glob
        import json

        from ..core import VERIF, load_findings

        srcs = [e["witness"]["src"] for e in load_findings(PID) if isinstance(e.get("witness"), dict) and "src" in e["witness"]]
        for path in sorted(glob.glob(os.path.join(VERIF, "replays", PID, "*.json"))):
            d = json.load(open(path))
            d = d.get("case", d)
            if isinstance(d, dict) and isinstance(d.get("src"), str):
                srcs.append(d["src"])
        names = set()
        ok = []
        for src in srcs:
            try:
                pp = cppref.RefPP()
                pp.process(src)
            except Exception:
                continue
            names |= pp.ever_defined
            ok.append(src)
        if len(ok) > 1:
            for src, toks in zip(ok, gcc_batch(ok, names)):
                if toks is not None:
                    _GCC_CACHE[src] = (toks, "")
    except Exception:
        pass


def run_gcc(src):
    """-> (tokens | None, diagnostics)"""
    if None not in _GCC_CACHE:
        _prefill()
    if src not in _GCC_CACHE:
        if len(_GCC_CACHE) > 2000:
            _GCC_CACHE.clear()
            _GCC_CACHE[None] = None
        _GCC_CACHE[src] = _run_gcc(src)
    return _GCC_CACHE[src]


def _run_gcc(src):
    env = dict(os.environ, LC_ALL="C")
    try:
        r = subprocess.run(GCC, input=src.encode("ascii"), capture_output=True, env=env, timeout=30)
    except FileNotFoundError:
        raise HarnessError("gcc not found")
    except subprocess.TimeoutExpired:
        return None, "timeout"
    err = r.stderr.decode("latin1").strip()
    if r.returncode != 0 or err:
        return None, err or "exit %d" % r.returncode
    return cppref.spell(cppref.tokenize(r.stdout.decode("latin1"))), ""


def run_ref(src, quirks=()):
    """-> (tokens, features, RefPP)  raises cppref.RefError"""
    pp = cppref.RefPP(quirks)
    toks = pp.process(src)
    return toks, pp.features, pp


def trigger_ids(feats):
    return [k for k, (trig, _, _) in FINDINGS.items() if any(f in feats for f in trig)]


def evaluate(case):
    """-> (msg | None, info) ; raises Discard"""
    src = case.get("src") if isinstance(case, dict) else None
    if not isinstance(src, str):
        raise Discard("malformed")
    try:
        src.encode("ascii")
    except UnicodeError:
        raise Discard("non-ascii")
    try:
        ref, feats, _ = run_ref(src)
    except cppref.RefError as e:
        raise Discard("reference-diagnostic")
    except RecursionError:
        raise Discard("reference-recursion")
    gcc, diag = run_gcc(src)
    if gcc is None:
        raise Discard("gcc-diagnostic")
    if gcc != ref:
        raise Discard("reference-disagrees-with-gcc")
    res = run_ppci(src)
    info = {"feats": feats, "gcc": gcc, "ppci": res}
    return compare(src, gcc, res), info


def replay(case):
    return evaluate(case)[0]


def classify(case, msg):
    if str(msg).startswith("ppci did not finish"):
        return None  # no known finding is a non-termination
    try:
        m, info = evaluate(case)
    except Exception:
        return None
    if m is None:
        return None
    feats = info["feats"]
    cands = trigger_ids(feats)
    res = info["ppci"]
    if res[0] == "exc":
        for k in cands:
            sig = FINDINGS[k][2]
            if sig and sig[0] == res[1] and sig[1] in (None, res[2]) and (sig[2] is None or sig[2] in res[3]):
                return k
    quirked = [k for k in cands if FINDINGS[k][1]]
    for r in range(1, min(len(quirked), 3) + 1):
        for sub in itertools.combinations(quirked, r):
            try:
                toks, _, _ = run_ref(case["src"], [FINDINGS[k][1] for k in sub])
            except cppref.QuirkRaise as q:
                if res[0] == "exc" and res[1] == q.typ:
                    return sub[0]
                continue
            except (cppref.RefError, RecursionError):
                continue
            if res[0] == "ok" and toks == res[1]:
                return sub[0]
    return None


# ---------------------------------------------------------------------------
# generator

IDS = ["x", "y", "z", "w"]
NUMS = ["0", "1", "2", "7", "42", "0x1F", "10u", "3L", "1.5"]
PUNCTS = ["+", "-", "*", "/", "<", ">", "=", "!", "&", "|", "^", "~", "?", ":", ";", ".", "[", "]", "{", "}", "<<", ">=", "==", "->", "++", "&&"]
HARD = [";", "x", "+", "]"]
TIGHT = set("(),;[]{}")


def join(tokens, gen):
    out = []
    for i, t in enumerate(tokens):
        if i:
            prev = tokens[i - 1]
            tight = prev[-1] in TIGHT or t[0] in TIGHT
            k = gen.i(0, 7)
            if tight and k < 4:
                sep = ""
            elif k == 7:
                sep = "  "
            else:
                sep = " "
            out.append(sep)
        out.append(t)
    return "".join(out)


class Gen:
    def __init__(self, draw, cfg):
        self.draw = draw
        self.cfg = cfg
        self.buf = b""
        self.pos = 0
        self.macs = []  # (name, nparams | None, variadic)
        self.nums = []  # numeric object-like macros: (name, tree)

    def i(self, lo, hi):
        """A choice in [lo, hi] (hi - lo < 256), taken from Hypothesis-drawn bytes (one draw per 256 choices)."""
        if self.pos >= len(self.buf):
            self.buf = self.draw(st.binary(min_size=256, max_size=256))
            self.pos = 0
        b = self.buf[self.pos]
        self.pos += 1
        return lo + b % (hi - lo + 1)

    def pick(self, seq):
        return seq[self.i(0, len(seq) - 1)]

    # -- macro bodies and uses ----------------------------------------------
    def atoms(self, n, depth, params, fl):
        out = []
        for _ in range(n):
            out.extend(self.atom(depth, params, fl))
        return out

    def paste_operand(self, params):
        k = self.i(0, 9)
        if params and k < 6:
            return self.pick(params)
        if k < 8:
            return self.pick(IDS + [m[0] for m in self.macs])
        if k < 9 or "no_num_paste" in self.cfg:
            return self.pick(["1", "2", "0x"])
        return self.pick(["+", "<", "-", "=", "&"])

    def atom(self, depth, params, fl):
        k = self.i(0, 19)
        if k < 3:
            return [self.pick(IDS)]
        if k < 5:
            return [self.pick(NUMS)]
        if k < 7:
            return [self.pick(PUNCTS)]
        if k < 10 and params:
            return [self.pick(params)]
        if k == 10 and params and fl:
            return ["#", self.pick(params)] if self.i(0, 1) else ["#" + self.pick(params)]
        if k == 11 and (params or self.i(0, 2) == 0):
            out = [self.paste_operand(params), "##", self.paste_operand(params)]
            if self.i(0, 4) == 0:
                out += ["##", self.paste_operand(params)]
            return out
        if k < 14 and self.macs:
            m = self.pick(self.macs)
            if m[1] is None:
                return [m[0]]
            return self.call(m, depth, params, fl)
        if k == 14 and self.macs:
            m = self.pick(self.macs)
            if m[1] is not None:  # bare function-like name, then a token that cannot start an argument list
                return [m[0], self.pick(HARD)]
            return [m[0]]
        if k == 15 and depth < 2:
            return ["("] + self.atoms(self.i(0, 2), depth + 1, params, fl) + [")"]
        if k == 16 and self.nums:
            return [self.pick(self.nums)[0]]
        if k == 17:
            return [self.pick(['"s"', "'c'", '"a\\n"', "'\\''", '"q\\"r"'])]
        return [self.pick(IDS)]

    def call(self, m, depth, params, fl):
        name, n, variadic = m
        out = [name, "("]
        nargs = n
        if variadic:
            nargs = n + self.i(0, 2)
        if self.i(0, 39) == 0:
            nargs = max(0, nargs + self.pick([-1, 1]))  # wrong arity now and then (both must diagnose)
        for j in range(nargs):
            if j:
                out.append(",")
            k = self.i(0, 9)
            if k == 0:
                pass  # empty argument
            elif k == 1:
                out += ["("] + self.atoms(1, depth + 1, params, False) + [","] + self.atoms(1, depth + 1, params, False) + [")"]
            elif depth < 2:
                out += self.atoms(self.i(1, 2), depth + 1, params, False)
            else:
                out.append(self.pick(IDS + NUMS[:5]))
        out.append(")")
        return out

    def define(self, m):
        name, n, variadic = m
        if n is None:
            head = name
            params = []
        else:
            params = ["abcd"[j] for j in range(n)]
            plist = params + (["..."] if variadic else [])
            head = "%s(%s)" % (name, (", " if self.i(0, 1) else ",").join(plist))
            if variadic:
                params = params + ["__VA_ARGS__"]
        body = self.atoms(self.i(0, 5), 0, params, n is not None)
        # a bare function-like macro name must not end the body (its '(' would come from outside: unspecified corner)
        if body and any(body[-1] == mm[0] and mm[1] is not None for mm in self.macs):
            body.append(self.pick(HARD))
        return "#define %s %s" % (head, join(body, self)) if body else "#define %s" % head

    def use_line(self):
        toks = self.atoms(self.i(1, 4), 0, [], False)
        if toks and any(toks[-1] == mm[0] and mm[1] is not None for mm in self.macs):
            toks.append(self.pick(HARD))
        if toks[0] == "#" or toks[0].startswith("#"):
            toks.insert(0, "x")
        return join(toks, self)

    # -- #if expressions ---------------------------------------------------------
    LITS = [
        "0", "1", "2", "3", "5", "7", "10", "100", "255", "0x10", "017", "0x7fffffff", "0xffffffff", "2147483648",
        "4294967295", "9223372036854775807", "0x7fffffffffffffff", "0x8000000000000000", "0xffffffffffffffff",
        "'a'", "'\\n'", "'\\0'",
    ]
    SUFF = ["", "", "", "u", "U", "l", "L", "ul", "UL", "ll", "LL", "ull", "uLL", "LLU"]

    def literal(self):
        t = self.pick(self.LITS)
        if t[0] != "'":
            s = self.pick(self.SUFF)
            if "no_unsigned" in self.cfg:
                s = s.replace("u", "").replace("U", "")
                if t in ("0x8000000000000000", "0xffffffffffffffff"):
                    t = "0x7fffffffffffffff"
            t += s
        tok = cppref.tokenize(t)[0]
        v, u = cppref.parse_char_literal(t) if t[0] == "'" else cppref.parse_int_literal(t)
        return ("leaf", t, ("lit", v, u))

    def leaf(self):
        k = self.i(0, 9)
        if k < 6:
            return self.literal()
        if k == 6 and self.nums:
            name, tree = self.pick(self.nums)
            return ("leaf", name, tree)
        if k == 7:
            return ("leaf", "UNDEFINED_%d" % self.i(0, 1), ("lit", 0, False))
        names = [m[0] for m in self.macs] + [n[0] for n in self.nums] + ["UNDEFINED_0"]
        name = self.pick(names)
        return ("def", "defined(%s)" % name if self.i(0, 1) else "defined %s" % name, name)

    BINOPS = ["*", "/", "%", "+", "-", "<<", ">>", "<", ">", "<=", ">=", "==", "!=", "&", "^", "|", "&&", "||"]

    def expr(self, depth):
        if depth <= 0 or self.i(0, 3) == 0:
            return self.leaf()
        k = self.i(0, 9)
        if k < 2:
            op = self.pick(["-", "~", "!", "+", "-"])
            return self.mk(("un", op, self.expr(depth - 1)))
        if k == 2:
            return self.mk(("?:", self.expr(depth - 1), self.expr(depth - 1), self.expr(depth - 1)))
        op = self.pick(self.BINOPS)
        if "no_divmod_neg" in self.cfg and op in ("/", "%") and self.i(0, 1):
            op = "+"
        return self.mk(("bin", op, self.expr(depth - 1), self.expr(depth - 1)))

    def mk(self, node):
        """Keep the node only if its arithmetic is defined for every value of the defined() leaves."""
        defs = sorted({d for d in self._defs(node)})
        try:
            for bits in range(1 << min(len(defs), 4)):
                env = {d: (bits >> j) & 1 for j, d in enumerate(defs)}
                cppref.ceval(self.tree(node, env))
        except cppref.RefError:
            # drop the offending operator: keep an operand
            return node[2]
        return node

    def _defs(self, node):
        if node[0] == "def":
            yield node[2]
        elif node[0] == "un":
            yield from self._defs(node[2])
        elif node[0] == "bin":
            yield from self._defs(node[2])
            yield from self._defs(node[3])
        elif node[0] == "?:":
            for c in node[1:]:
                yield from self._defs(c)

    def tree(self, node, env):
        k = node[0]
        if k == "leaf":
            return node[2]
        if k == "def":
            return ("lit", env.get(node[2], 0), False)
        if k == "un":
            return ("u" + node[1], self.tree(node[2], env))
        if k == "bin":
            return (node[1], self.tree(node[2], env), self.tree(node[3], env))
        return ("?:", self.tree(node[1], env), self.tree(node[2], env), self.tree(node[3], env))

    def render(self, node, prec=0):
        k = node[0]
        if k in ("leaf", "def"):
            return node[1]
        if k == "un":
            s = node[1] + " " + self.render(node[2], 12)
            p = 12
        elif k == "bin":
            p = cppref.BINPREC[node[1]]
            s = "%s %s %s" % (self.render(node[2], p), node[1], self.render(node[3], p + 1))
        else:
            p = 1
            s = "%s ? %s : %s" % (self.render(node[1], 2), self.render(node[2], 0), self.render(node[3], 1))
        if p < prec or self.i(0, 7) == 0:
            return "( " + s + " )"
        return s

    # -- the unit ----------------------------------------------------------------------
    def block(self, depth, lines):
        for _ in range(self.i(1, 3)):
            k = self.i(0, 9)
            if k < 5 or not self.pending:
                lines.append(self.use_line())
            elif k < 8:
                m = self.pending.pop(0)
                self.macs_defined.append(m)
                lines.append(self.define(m))
            elif k == 8 and self.macs_defined and "no_undef" not in self.cfg:
                m = self.pick(self.macs_defined)
                lines.append("#undef %s" % m[0])
                lines.append(self.use_line())
            elif depth < 2:
                self.conditional(depth + 1, lines)

    def conditional(self, depth, lines):
        k = self.i(0, 9)
        names = [m[0] for m in self.macs] + ["UNDEFINED_0"]
        if k == 0:
            lines.append("#ifdef %s" % self.pick(names))
        elif k == 1:
            lines.append("#ifndef %s" % self.pick(names))
        else:
            lines.append("#if %s" % self.render(self.expr(self.i(1, 4))))
        self.block(depth, lines)
        for _ in range(self.i(0, 2)):
            lines.append("#elif %s" % self.render(self.expr(self.i(1, 3))))
            self.block(depth, lines)
        if self.i(0, 1):
            lines.append("#else")
            self.block(depth, lines)
        lines.append("#endif")

    def unit(self):
        nmac = self.i(1, 6)
        for j in range(nmac):
            k = self.i(0, 4)
            if k < 2:
                self.macs.append(("O%d" % j, None, False))
            else:
                variadic = "variadic" in self.cfg and self.i(0, 5) == 0
                self.macs.append(("F%d" % j, self.i(0, 4) if not variadic else self.i(0, 2), variadic))
        lines = []
        for j in range(self.i(0, 2)):
            e = self.expr(2) if self.i(0, 2) == 0 else self.literal()
            if self.i(0, 3) == 0:
                e = self.mk(("un", "-", e))
            text = self.render(e)
            if e[0] != "leaf":
                text = "(" + text + ")"
            name = "N%d" % j
            tree = self.tree(e, {})
            lines.append("#define %s %s" % (name, text))
            self.nums.append((name, tree))
        self.pending = list(self.macs)
        self.macs_defined = []
        # mostly: definitions first, then uses and conditionals
        if self.i(0, 3):
            while self.pending:
                m = self.pending.pop(0)
                self.macs_defined.append(m)
                lines.append(self.define(m))
        for _ in range(self.i(1, 3)):
            self.block(0, lines)
            if self.i(0, 2) == 0:
                self.conditional(1, lines)
        return "\n".join(lines) + "\n"


def units(cfg):
    @st.composite
    def gen(draw):
        return {"src": Gen(draw, cfg).unit()}

    return gen()


# ---------------------------------------------------------------------------
# workers


def generator_cfg(open_ids, thorough):
    cfg = set()
    if thorough:
        cfg.add("variadic")
    for k in open_ids:
        cfg |= set(GEN_FLAGS.get(k, ()))
    return cfg



def nontrivial_classes(feats):
    cl = set()
    if "paste" in feats:
        cl.add("paste")
    if "stringize" in feats:
        cl.add("stringize")
    if "painted" in feats:
        cl.add("recursive_reference")
    if "if_unsigned" in feats:
        cl.add("if_unsigned_operand")
    if "if_negative" in feats:
        cl.add("if_negative_operand")
    return cl


SEP = "@"


def gcc_batch(srcs, names):
    """One gcc run over many units.  -> list of (tokens | None) per unit (None: diagnostic / not separable)."""
    undefs = "".join("#undef %s\n" % n for n in sorted(names))
    parts = []
    ranges = []
    line = 1
    for i, src in enumerate(srcs):
        body = src if src.endswith("\n") else src + "\n"
        text = body + "%s %d %s\n" % (SEP, i, SEP) + undefs
        n = text.count("\n")
        ranges.append((line, line + n - 1))
        line += n
        parts.append(text)
    env = dict(os.environ, LC_ALL="C")
    try:
        r = subprocess.run(GCC, input="".join(parts).encode("ascii"), capture_output=True, env=env, timeout=300)
    except FileNotFoundError:
        raise HarnessError("gcc not found")
    except subprocess.TimeoutExpired:
        return [None] * len(srcs)
    bad = set()
    import bisect
    import re

    starts = [a for a, _ in ranges]
    for ln in r.stderr.decode("latin1").splitlines():
        m = re.match(r"<stdin>:(\d+):", ln)
        if m:
            k = bisect.bisect_right(starts, int(m.group(1))) - 1
            bad.add(max(k, 0))
        elif ln.strip() and not ln.startswith((" ", "In file", "cc1:")):
            # a diagnostic that cannot be attributed: be conservative
            if re.search(r"error|warning", ln):
                return [None] * len(srcs)
    toks = cppref.spell(cppref.tokenize(r.stdout.decode("latin1")))
    out = [None] * len(srcs)
    i = 0
    cur = []
    k = 0
    n = len(toks)
    while k < n:
        if toks[k] == SEP and k + 2 < n and toks[k + 2] == SEP and toks[k + 1] == str(i):
            if i not in bad:
                out[i] = cur
            cur = []
            i += 1
            k += 3
            if i >= len(srcs):
                break
        else:
            cur.append(toks[k])
            k += 1
    if i != len(srcs):
        # separators lost: the units after the break cannot be trusted
        for j in range(max(i - 1, 0), len(srcs)):
            out[j] = None
    return out


def compare(src, gcc, res):
    if res[0] == "timeout":
        return "ppci did not finish within %d s of CPU time (gcc and the reference model need milliseconds)   [gcc: %s]" % (PPCI_LIMIT[0], " ".join(gcc)[:300])
    if res[0] == "exc":
        return "ppci raised %s in %s: %s   [gcc: %s]" % (res[1], res[2], res[3], " ".join(gcc)[:300])
    if res[1] != gcc:
        i = 0
        while i < len(gcc) and i < len(res[1]) and gcc[i] == res[1][i]:
            i += 1
        return "token sequences differ at token %d: ppci ...%s | gcc ...%s" % (i, " ".join(res[1][max(0, i - 3) : i + 8]), " ".join(gcc[max(0, i - 3) : i + 8]))
    return None


def signature(msg):
    if msg.startswith("ppci did not finish"):
        return "timeout"
    if msg.startswith("ppci raised"):
        return msg.split(":")[0] + msg.split(":")[1].split(" ")[0]
    return "diff"


def shrink(case, msg, budget=60):
    """Greedy reduction of a failing unit (lines, conditional groups, then tokens), each candidate re-judged
    by the full evaluate() (own gcc run)."""
    import time

    want = signature(msg)
    best = case["src"]
    bestmsg = msg
    spent = [0]
    t_end = time.time() + 30

    def fails(src):
        if spent[0] >= budget or time.time() > t_end:
            spent[0] = budget
            return None
        spent[0] += 1
        saved = PPCI_LIMIT[0]
        PPCI_LIMIT[0] = 3
        try:
            m, _ = evaluate({"src": src})
        except Discard:
            return None
        finally:
            PPCI_LIMIT[0] = saved
        if m is not None and signature(m) == want:
            return m
        return None

    def groups(lines):
        """(start, end) of every #if..#endif group"""
        st_ = []
        out = []
        for i, l in enumerate(lines):
            t = l.strip()
            if t.startswith(("#if",)):
                st_.append(i)
            elif t.startswith("#endif") and st_:
                out.append((st_.pop(), i))
        return out

    changed = True
    while changed and spent[0] < budget:
        changed = False
        lines = best.rstrip("\n").split("\n")
        cands = []
        for a, b in sorted(groups(lines), key=lambda g: g[0] - g[1]):
            cands.append(lines[:a] + lines[b + 1 :])
            inner = [l for l in lines[a + 1 : b] if not l.strip().startswith(("#elif", "#else"))]
            cands.append(lines[:a] + inner + lines[b + 1 :])
        for i, l in enumerate(lines):
            if not l.strip().startswith(("#if", "#el", "#endif")):
                cands.append(lines[:i] + lines[i + 1 :])
        for c in cands:
            src = "\n".join(c) + "\n"
            m = fails(src)
            if m:
                best, bestmsg, changed = src, m, True
                break
    # token level
    changed = True
    while changed and spent[0] < budget:
        changed = False
        lines = best.rstrip("\n").split("\n")
        for i, l in enumerate(lines):
            parts = l.split(" ")
            if l.startswith("#") and len(parts) <= 2:
                continue
            for j in range(2 if l.startswith("#") else 0, len(parts)):
                c = lines[:i] + [" ".join(parts[:j] + parts[j + 1 :])] + lines[i + 1 :]
                src = "\n".join(c) + "\n"
                m = fails(src)
                if m:
                    best, bestmsg, changed = src, m, True
                    break
            if changed:
                break
    return {"src": best}, bestmsg


def _worker(arg):
    seed, n, thorough = arg
    stats = Stats()
    open_ids = open_finding_ids(PID)
    cfg = generator_cfg(open_ids, thorough)
    pool = {}
    try:  # a runaway expansion must not exhaust the machine
        import resource

        resource.setrlimit(resource.RLIMIT_AS, (4 << 30, resource.getrlimit(resource.RLIMIT_AS)[1]))
    except (ImportError, ValueError, OSError):
        pass

    def collect(case):
        src = case["src"]
        try:
            pp = cppref.RefPP()
            ref = pp.process(src)
        except cppref.RefError:
            raise Discard("reference-diagnostic")
        except RecursionError:
            raise Discard("reference-recursion")
        hit = [k for k in trigger_ids(pp.features) if k in open_ids]
        if hit:
            for k in hit:
                stats.excluded[k] += 1
            return None
        pool.setdefault(src, (ref, set(pp.features), set(pp.ever_defined)))
        return None

    hyp_search(units(cfg), collect, n, seed, stats)
    srcs = list(pool)
    names = set()
    for s in srcs:
        names |= pool[s][2]
    fails = []
    CH = 400
    for c0 in range(0, len(srcs), CH):
        chunk = srcs[c0 : c0 + CH]
        gout = gcc_batch(chunk, names)
        for src, gcc in zip(chunk, gout):
            ref, feats, _ = pool[src]
            if gcc is None:
                stats.discard("gcc-diagnostic")
                continue
            if gcc != ref:
                stats.discard("reference-disagrees-with-gcc")
                if len(stats.notes) < 3:
                    stats.notes.append("reference model and gcc disagree on: %r" % src[:300])
                continue
            if len(fails) >= 2:
                stats.budget_skipped += 1
                continue
            res = run_ppci(src, 10)
            cl = nontrivial_classes(feats)
            nt = bool(cl)
            for f in ("empty_arg", "if_defined", "if_shift", "paste_empty_arg", "stringize_literal", "funlike_at_end", "paste_multi_token_arg"):
                if f in feats:
                    cl.add(f)
            if "#if" in src or "#elif" in src:
                cl.add("conditional")
            case = {"src": src}
            stats.case(jhash(src), nt, case if nt else None, classes=sorted(cl))
            msg = compare(src, gcc, res)
            if msg is None:
                continue
            kid = classify(case, msg)
            if kid and kid in open_ids:
                stats.known[kid] += 1
                continue
            fails.append(shrink(case, msg) if not fails else (case, msg))
    return stats, fails


def run(ctx):
    n = ctx.scale(4000, 400000)
    # 16 shards on 8 processes: on a loaded machine 16 processes plus their gcc children only add contention
    ctx.pmap(_worker, [(subseed(ctx.seed, PID, w), n // 16, not ctx.quick) for w in range(16)], workers=ctx.scale(8, 16))
