"""C05 helper for riscv / riscv:rvc (NOT a registered property module; vf/props/c05.py calls it).

    obs = run_ir_on_riscv(ir_module, fname, args, rvc, level, buffers=(), calls=None, ext=None)

compiles `ir_module` (a ppci.ir.Module; it is optimised IN PLACE with ppci.api.optimize(level) - pass a fresh build)
with ppci.api.ir_to_object for 'riscv' / 'riscv:rvc', links it with the architecture's runtime (arch.get_runtime():
__sdiv) at fixed addresses (code 0x10000, data 0x400000), loads the images into vf/rv32.py and calls `fname` through
*ppci's* riscv calling convention (RiscvArch.determine_arg_locations: integer/pointer arguments in x12..x17, further
ones in 4-byte stack slots at sp+offset, result in x10 - this is not the standard ILP32 assignment a0..a7).
External functions of the module are bound to hook addresses; a hook reads its arguments by the same convention,
appends (name, args) to the trace and returns irsem.ext_default(...) (or `ext`), exactly like the reference interpreter.

The result is comparable with vf/irsem.observe_call through irsem.obs_equal(ref, obs):
    {"ret": int | None, "globals": {name: hex}, "buffers": [hex...], "trace": [[name, [args...]]...], "more": [...]}
args: python ints, or ("buf", i) for the address of buffers[i].  `calls`: further [(fname, args)] in the same machine.

Raises  Unsupported   - the glue cannot express the call (i64 / float arguments or results, blob arguments)
        CompileError  - ppci raised while optimising / compiling / linking (C29's subject: discard)
        ExecError     - the emulator stopped: step limit, illegal instruction, unmapped access (message says which);
                        .kind is 'steps' | 'illegal' | 'memory' | 'fetch' | 'trap'
compile_ir(ir_module, rvc, level) -> Program can be used to run many calls on one compilation (Program.run(...)).
"""

import io

from .. import irsem, rv32

CODE_BASE = 0x10000
DATA_BASE = 0x400000
BUF_BASE = 0x30000000
HOOK_BASE = 0x8000  # within jal range of the code (externals are called with a direct jal)
LAYOUT = "MEMORY flash LOCATION=0x%x SIZE=0x300000 { SECTION(code) }\nMEMORY ram LOCATION=0x%x SIZE=0x300000 { SECTION(data) }\n" % (CODE_BASE, DATA_BASE)


class Unsupported(Exception):
    pass


class CompileError(Exception):
    pass


class ExecError(Exception):
    def __init__(self, kind, msg):
        super().__init__(msg)
        self.kind = kind


_ARCH = {}
_RUNTIME = {}


def get_arch(rvc):
    from ppci.api import get_arch as ga

    if rvc not in _ARCH:
        _ARCH[rvc] = ga("riscv:rvc" if rvc else "riscv")
    return _ARCH[rvc]


def _runtime(rvc):
    if rvc not in _RUNTIME:
        _RUNTIME[rvc] = get_arch(rvc).get_runtime()
    return _RUNTIME[rvc]


def _int_like(ty, ir):
    return ty is ir.ptr or (isinstance(ty, ir.IntegerTyp) and ty.bits <= 32)


class Program:
    def __init__(self, ir_module, rvc, level):
        from ppci import ir
        from ppci.api import ir_to_object, optimize
        from ppci.binutils.layout import Layout
        from ppci.binutils.linker import Linker

        self.ir = ir
        self.rvc = rvc
        self.module = ir_module
        self.arch = get_arch(rvc)
        self.externals = [e for e in ir_module.externals if isinstance(e, ir.ExternalSubRoutine)]
        self.hook_addr = {e.name: HOOK_BASE + 16 * i for i, e in enumerate(self.externals)}
        ext_vars = [e for e in ir_module.externals if not isinstance(e, ir.ExternalSubRoutine)]
        if ext_vars:
            raise Unsupported("external variables")
        try:
            if level is not None and str(level) != "0":
                optimize(ir_module, level=str(level))
            obj = ir_to_object([ir_module], self.arch)
            self.obj = Linker(self.arch).link([obj, _runtime(rvc)], layout=Layout.load(io.StringIO(LAYOUT)), extra_symbols=dict(self.hook_addr))
        except Unsupported:
            raise
        except Exception as e:
            raise CompileError("%s: %s" % (type(e).__name__, str(e)[:300])) from e
        self.functions = {f.name: f for f in ir_module.functions}
        self.variables = [(v.name, v.amount) for v in ir_module.variables]

    def symbol(self, name):
        return self.obj.get_symbol_id_value(self.obj.get_symbol(name).id)

    # -- calling convention -------------------------------------------------
    def _locations(self, types):
        from ppci.arch.stack import StackLocation

        for t in types:
            if not _int_like(t, self.ir):
                raise Unsupported("argument of type %s" % t)
        res = []
        for loc in self.arch.determine_arg_locations(types):
            if isinstance(loc, StackLocation):
                res.append(("stack", loc.offset))
            else:
                res.append(("reg", loc.num))
        return res

    def _norm(self, v, ty):
        if ty is self.ir.ptr:
            return v & 0xFFFFFFFF
        return irsem.norm_int(v, ty.bits, ty.is_signed)

    def run(self, fname, args, buffers=(), calls=None, ext=None, fuel=3_000_000):
        ir = self.ir
        ext = ext or irsem.ext_default
        m = rv32.Machine(rvc=self.rvc, step_limit=fuel)
        m.load_object(self.obj)
        m.map_stack()
        baddr = []
        a = BUF_BASE
        for b in buffers:
            m.map(a, max(len(b), 1), bytes(b), name="buf%d" % len(baddr))
            baddr.append(a)
            a += (len(b) + 0x1000 + 15) & ~15
        trace = []

        def make_hook(e):
            types = list(e.argument_types)
            locs = self._locations(types)

            def hook(mach):
                vals = []
                for (kind, x), ty in zip(locs, types):
                    raw = mach.regs[x] if kind == "reg" else mach.read_u32(mach.regs[2] + x)
                    vals.append(self._norm(raw, ty))
                idx = len(trace)
                if isinstance(e, ir.ExternalFunction):
                    rty = e.return_ty
                    if not _int_like(rty, ir):
                        raise Unsupported("external returning %s" % rty)
                    r = ext(e.name, vals, idx, rty)
                    mach.regs[10] = r & 0xFFFFFFFF
                trace.append([e.name, vals])

            return hook

        for e in self.externals:
            m.hooks[self.hook_addr[e.name]] = make_hook(e)

        def one(fn, fargs):
            f = self.functions.get(fn)
            if f is None:
                raise Unsupported("no function %s" % fn)
            types = [p.ty for p in f.arguments]
            if len(types) != len(fargs):
                raise Unsupported("argument count")
            locs = self._locations(types)
            is_fn = isinstance(f, ir.Function)
            if is_fn and not _int_like(f.return_ty, ir):
                raise Unsupported("result of type %s" % f.return_ty)
            vals = []
            for v in fargs:
                if isinstance(v, (tuple, list)) and len(v) == 2 and v[0] == "buf":
                    v = baddr[v[1]]
                if not isinstance(v, int):
                    raise Unsupported("argument value %r" % (v,))
                vals.append(v & 0xFFFFFFFF)
            nstack = max([x + 4 for k, x in locs if k == "stack"] + [0])
            sp = (m.stack_top - nstack) & ~15
            for (k, x), v in zip(locs, vals):
                if k == "reg":
                    m.regs[x] = v
                else:
                    m.write_u32(sp + x, v)
            try:
                m.call(self.symbol(fn), [], sp=sp)
            except rv32.StepLimit as e:
                raise ExecError("steps", str(e))
            except rv32.IllegalInstruction as e:
                raise ExecError("illegal", str(e))
            except rv32.MemoryFault as e:
                raise ExecError("memory", str(e))
            except rv32.MisalignedFetch as e:
                raise ExecError("fetch", str(e))
            except rv32.Trap as e:
                raise ExecError("trap", str(e))
            if m.regs[2] != sp:
                raise ExecError("stack", "sp = %#x after return, %#x at the call" % (m.regs[2], sp))
            if not is_fn:
                return None
            return self._norm(m.regs[10], f.return_ty)

        ret = one(fname, args)
        more = [one(fn2, a2) for fn2, a2 in calls or ()]
        obs = {"ret": ret, "globals": {}, "buffers": [], "trace": trace}
        for name, size in self.variables:
            obs["globals"][name] = m.read(self.symbol(name), size).hex()
        for adr, b in zip(baddr, buffers):
            obs["buffers"].append(m.read(adr, len(b)).hex())
        if calls:
            obs["more"] = more
        obs["steps"] = m.steps
        self.last_machine = m
        return obs


def compile_ir(ir_module, rvc, level):
    return Program(ir_module, rvc, level)


def run_ir_on_riscv(ir_module, fname, args, rvc, level, buffers=(), calls=None, ext=None, fuel=3_000_000):
    return Program(ir_module, rvc, level).run(fname, args, buffers=buffers, calls=calls, ext=ext, fuel=fuel)
