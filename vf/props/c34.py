"""C34 - the build runner executes dependencies once, in order, and detects loops exactly.

Code under test: ppci/build/tasks.py (Project, Target, TaskRunner).  The real TaskRunner is
driven with a Project whose targets each carry one recording task (registered in
tasks.task_map the way custom tasks are); the observation is the order in which the
tasks ran, or the TaskError.

Reference model (no depth-first search, unlike the code under test): targets are bit
positions, reach[i] is the bit mask of targets reachable from i over one or more
dependency edges, computed as a fixpoint; the requested closure is the union of the
request and its reach masks; it contains a cycle iff some member reaches itself.

A case is {"n": targets, "edges": [[i, j], ...] meaning i depends on j, "request": [i, ...]}.
"""

import itertools

from hypothesis import strategies as st

from .. import core
from ..core import Discard, Stats, hyp_search, subseed

PID = "C34"
RULE = (
    "exhaustive: every dependency graph on 1..4 targets incl. self-dependencies (2^(n*n) edge sets) x every "
    "non-empty requested subset, plus all acyclic graphs on 5 targets compatible with three fixed topological orders (thorough adds all 2^20 graphs on 5 targets without self-dependencies x 31 requests "
    "and 5-target graphs with self-dependencies sampled by a fixed stride over the edge-set index); requests are passed in ascending and, "
    "for every 7th pair, descending and duplicated order; target names are chosen so that alphabetical order disagrees with "
    "dependency order. Hypothesis: graphs on 6..9 targets (DAGs with reconvergent paths, forests, graphs with one back "
    "edge). Oracle: TaskError iff the reachable part has a cycle; else the history holds each reachable target exactly "
    "once and every target after all of its dependencies. non-trivial = the requested closure has >= 3 targets and is "
    "not a simple chain (fork, diamond or cycle); distinct = (edge set, request set)"
)
ASSUMPTIONS = [
    "every dependency names an existing target (a missing target is a different, documented TaskError)",
    "one recording task per target stands for the target's task list; tasks themselves do not fail",
    "the check script fixes PYTHONHASHSEED=0, so the iteration order of ppci's name sets is the same in run and replay",
]
TRUSTED = ["CPython", "Hypothesis", "reachability reference model in vf/props/c34.py"]
REGISTER = True
TECHNIQUE = "exhaustive enumeration of dependency graphs x requests driving the real TaskRunner with recording tasks, against a reachability model"
LEVEL_TEXT = (
    "Exploration, exhaustive on the small domain: every dependency graph on up to 4 targets (with self-dependencies; "
    "thorough: 5 targets) with every requested subset is executed by the real runner and the recorded history is compared "
    "with a reachability model. Diamonds, forks, partial orders and all cycle shapes up to that size occur; larger graphs "
    "are sampled with Hypothesis. The runner is a small pure graph algorithm whose defects show on tiny graphs, so "
    "bounded-exhaustive enumeration is the right level."
)

KF_LOOP = "C34-KF1"
KF_ORDER = "C34-KF2"

# alphabetical order of the names is unrelated to the index order the generators use
NAMES = ["d", "b", "e", "a", "c", "h", "f", "i", "g"]

_HIST = []
_TASKS = {}


def _tasks():
    """ppci.build.tasks with the recording task registered (once per process)."""
    if "mod" not in _TASKS:
        from ppci.build import tasks

        class VfRecordTask(tasks.Task):
            """Appends its target's name to the history."""

            def run(self):
                _HIST.append(self.arguments["id"])

        tasks.register_task(VfRecordTask)
        _TASKS["mod"] = tasks
    return _TASKS["mod"]


def run_real(n, edges, request):
    """Drive the real runner.  -> ('ok', history) | ('taskerror', msg, history) | ('exception', text, history)"""
    tasks = _tasks()
    del _HIST[:]
    project = tasks.Project("vf")
    for i in range(n):
        target = tasks.Target(NAMES[i], project)
        target.add_task(("vfrecord", {"id": NAMES[i]}))
        project.add_target(target)
    for i, j in edges:
        project.get_target(NAMES[i]).add_dependency(NAMES[j])
    try:
        tasks.TaskRunner().run(project, [NAMES[i] for i in request])
    except tasks.TaskError as e:
        return ("taskerror", str(getattr(e, "msg", e)), list(_HIST))
    except RecursionError:
        return ("exception", "RecursionError", list(_HIST))
    except Exception as e:  # noqa: BLE001
        return ("exception", "%s: %s" % (type(e).__name__, e), list(_HIST))
    return ("ok", list(_HIST))


# ---------------------------------------------------------------------------
# reference model


def reach_masks(n, edges):
    """reach[i] = bit mask of the targets reachable from i over >= 1 edges (fixpoint iteration)."""
    reach = [0] * n
    for i, j in edges:
        reach[i] |= 1 << j
    changed = True
    while changed:
        changed = False
        for i in range(n):
            r = reach[i]
            m = r
            j = 0
            while m:
                if m & 1:
                    r |= reach[j]
                m >>= 1
                j += 1
            if r != reach[i]:
                reach[i] = r
                changed = True
    return reach


def closure_mask(reach, request):
    clo = 0
    for i in request:
        clo |= 1 << i | reach[i]
    return clo


def has_cycle(reach, clo, n):
    return any(clo >> x & 1 and reach[x] >> x & 1 for x in range(n))


def judge(n, edges, reach, request, res):
    """None or a failure message for one observation."""
    clo = closure_mask(reach, request)
    cyc = has_cycle(reach, clo, n)
    names = [NAMES[i] for i in range(n) if clo >> i & 1]
    if res[0] == "exception":
        return "runner raised %s (reachable part %s)" % (res[1], "has a cycle" if cyc else "is acyclic")
    if cyc:
        if res[0] != "taskerror":
            return "the reachable part %s contains a cycle but no TaskError was raised; history %s" % (names, res[1])
        return None
    if res[0] == "taskerror":
        return "TaskError %r although the reachable part %s is acyclic" % (res[1], names)
    hist = res[1]
    if sorted(hist) != sorted(names):
        return "history %s: expected each of %s exactly once" % (hist, sorted(names))
    pos = {name: k for k, name in enumerate(hist)}
    for i, j in edges:
        if clo >> i & 1 and pos[NAMES[j]] > pos[NAMES[i]]:
            return "history %s: %s ran before its dependency %s" % (hist, NAMES[i], NAMES[j])
    return None


def path_counts(n, edges):
    """cnt[i][x] = number of distinct dependency paths i -> x of length >= 1, capped (only for acyclic parts)."""
    adj = [[0] * n for _ in range(n)]
    for i, j in edges:
        adj[i][j] = 1
    total = [row[:] for row in adj]
    power = [row[:] for row in adj]
    for _ in range(n - 1):
        power = [[min(9, sum(power[i][k] * adj[k][j] for k in range(n))) for j in range(n)] for i in range(n)]
        total = [[min(9, total[i][j] + power[i][j]) for j in range(n)] for i in range(n)]
    return total


def shape(n, edges, reach, request, cnt=None):
    """Class of the requested closure, for the histogram and the non-trivial rule.

    cycle / cycle_self: the closure contains a cycle (through a self-dependency);
    diamond: acyclic, some target is reachable from a requested target along two different paths;
    chain: acyclic, no such target, and any two members are ordered by dependency (a simple path);
    fork: the rest (acyclic, at least two members that do not depend on each other).
    """
    clo = closure_mask(reach, request)
    size = bin(clo).count("1")
    if has_cycle(reach, clo, n):
        selfdep = any(i == j and clo >> i & 1 for i, j in edges)
        return "cycle_self" if selfdep else "cycle", size
    members = [i for i in range(n) if clo >> i & 1]
    if cnt is None:
        cnt = path_counts(n, edges)
    if any(cnt[t][x] >= 2 for t in request for x in members):
        return "diamond", size
    if all(reach[a] >> b & 1 or reach[b] >> a & 1 for a, b in itertools.combinations(members, 2)):
        return "chain", size
    return "fork", size


def normalise(case):
    n = int(case["n"])
    if not 1 <= n <= len(NAMES):
        raise Discard("number of targets outside 1..%d" % len(NAMES))
    edges = sorted({(int(i), int(j)) for i, j in case["edges"]})
    request = [int(i) for i in case["request"]]
    if not request:
        raise Discard("empty request (the runner then uses project.default)")
    if any(not 0 <= x < n for e in edges for x in e) or any(not 0 <= x < n for x in request):
        raise Discard("dependency or request names a target that does not exist")
    return n, edges, request


def replay(case):
    n, edges, request = normalise(case)
    reach = reach_masks(n, edges)
    return judge(n, edges, reach, request, run_real(n, edges, request))


def classify(case, msg):
    """Attribute a failure to one of the two known defects of the runner, narrowly.

    KF1: the dfs never removes a target from its visited set, so a target that is reachable from
    one requested target along two different paths is reported as a loop.  Signature: the
    reachable part is acyclic AND such a target exists AND the failure is the false TaskError.
    KF2: the execution order comes from list.sort() with a comparison that is only a partial
    order.  Signature: the reachable part is acyclic and not totally ordered by dependency AND
    the history is a permutation of the right targets AND the failure is an ordering one.
    """
    try:
        n, edges, request = normalise(case)
    except Exception:  # noqa: BLE001
        return None
    reach = reach_masks(n, edges)
    kind, _ = shape(n, edges, reach, request)
    if kind == "diamond" and msg.startswith("TaskError 'Dependency loop detected") and "is acyclic" in msg:
        return KF_LOOP
    if kind == "fork" and " ran before its dependency " in msg and msg.startswith("history "):
        return KF_ORDER
    return None


# ---------------------------------------------------------------------------
# exhaustive part


def _graph_worker(arg):
    """All subsets (by index `mask`, sharded) of the candidate edge list `cand` on n targets, all requests."""
    shard, nshards, n, cand, stride, label = arg
    stats = Stats()
    fails = []
    open_ids = core.open_finding_ids(PID)
    ne = len(cand)
    hist = {}
    evals = nt = 0
    requests = [[i for i in range(n) if rq >> i & 1] for rq in range(1, 1 << n)]
    count = 0
    want_sample = {8: "cycle", 2: "fork", 4: "diamond"}.get(shard) if n == 4 else None
    for mask in range(shard * stride, 1 << ne, nshards * stride):
        if len(fails) >= 3:
            # the run is going to report violations anyway; do not spend minutes on e.g. RecursionErrors
            stats.notes.append("%s shard %d stopped at edge set %d after 3 unexplained failures" % (label, shard, mask))
            break
        edges = [cand[k] for k in range(ne) if mask >> k & 1]
        reach = reach_masks(n, edges)
        cnt = path_counts(n, edges)
        for request in requests:
            count += 1
            variants = [request]
            if count % 7 == 0 and len(request) > 1:
                variants.append(request[::-1] + request[:1])  # other order, one duplicate
            kind, size = shape(n, edges, reach, request, cnt)
            for req in variants:
                msg = judge(n, edges, reach, req, run_real(n, edges, req))
                if msg:
                    case = {"n": n, "edges": [list(e) for e in edges], "request": req}
                    kid = classify(case, msg)
                    if kid and kid in open_ids:
                        stats.known[kid] += 1
                    elif len(fails) < 3:
                        fails.append((case, msg))
            evals += len(variants)
            if size >= 3 and kind != "chain":
                nt += 1
            k = "%s_%s_closure%d" % (label, kind, size)
            hist[k] = hist.get(k, 0) + 1
            if kind == want_sample and size == 4 and len(request) <= 2 and len(edges) <= 5:
                want_sample = None
                stats.sample(
                    {"n": n, "edges": [list(e) for e in edges], "request": request, "names": NAMES[:n], "class": kind, "observed": list(run_real(n, edges, request))}
                )
    stats.bulk(evals, nt, hist)
    return stats, fails


def all_edges(n, selfdeps):
    return [(i, j) for i in range(n) for j in range(n) if selfdeps or i != j]


def dag_edges(order):
    """Candidate edges of the DAGs in which order[k] may only depend on earlier members of order."""
    return [(order[a], order[b]) for a in range(len(order)) for b in range(a)]


# ---------------------------------------------------------------------------
# Hypothesis part: larger graphs


@st.composite
def big_graph(draw):
    n = draw(st.integers(6, len(NAMES)))
    perm = draw(st.permutations(list(range(n))))  # perm[k] = k-th target in a topological order
    edges = set()
    style = draw(st.sampled_from(["dag", "dag", "forest", "backedge", "selfdep"]))
    for k in range(1, n):
        if style == "forest":
            if draw(st.integers(0, 4)):
                edges.add((perm[k], perm[draw(st.integers(0, k - 1))]))
        else:
            for d in draw(st.lists(st.integers(0, k - 1), max_size=3, unique=True)):
                edges.add((perm[k], perm[d]))
    if style == "backedge":
        a = draw(st.integers(0, n - 2))
        b = draw(st.integers(a + 1, n - 1))
        edges.add((perm[a], perm[b]))  # may or may not close a cycle, and it may be unreachable
    if style == "selfdep":
        x = draw(st.integers(0, n - 1))
        edges.add((x, x))
    late = st.one_of(st.integers(max(0, n - 3), n - 1), st.integers(0, n - 1)).map(lambda k: perm[k])
    request = draw(st.lists(late, min_size=1, max_size=3))
    return {"n": n, "edges": sorted(list(e) for e in edges), "request": request}


def _hyp_worker(arg):
    seed, n, sampling = arg
    stats = Stats()
    open_ids = core.open_finding_ids(PID)

    def prop(case):
        nn, edges, request = normalise(case)
        reach = reach_masks(nn, edges)
        kind, size = shape(nn, edges, reach, request)
        msg = judge(nn, edges, reach, request, run_real(nn, edges, request))
        nt = size >= 3 and kind != "chain"
        sample = None
        if sampling and nt and not stats.samples and kind in ("diamond", "fork", "cycle") and size >= 6:
            sample = dict(case, names=NAMES[:nn], observed=list(run_real(nn, edges, request)))
        stats.case((nn, case["edges"], sorted(set(request))), nt, sample, classes=("big_%s" % kind, "big_closure_%d" % size))
        return msg

    def classify_open(case, msg):
        kid = classify(case, msg)
        return kid if kid in open_ids else None

    fails = hyp_search(big_graph(), prop, n, seed, stats, classify=classify_open)
    return stats, fails


def _all_worker(arg):
    shard, plan, seed, nhyp = arg
    stats = Stats()
    fails = []
    for n, cand, stride, label in plan:
        part = _graph_worker((shard, 16, n, cand, stride, label))
        stats.merge(part[0])
        fails.extend(part[1])
    part = _hyp_worker((seed, nhyp, shard >= 9))
    stats.merge(part[0])
    fails.extend(part[1])
    return stats, fails


def run(ctx):
    # (targets, candidate edges, stride over the edge-set index, histogram label)
    plan = [(n, all_edges(n, True), 1, "n%d" % n) for n in (1, 2, 3, 4)]
    domain = "all graphs on 1..4 targets with self-dependencies (2^(n*n) edge sets) x all non-empty requests"
    # acyclic graphs on 5 targets: all sub-graphs of three fixed topological orders
    for k, order in enumerate(([0, 1, 2, 3, 4], [4, 3, 2, 1, 0], [2, 4, 0, 3, 1])):
        plan.append((5, dag_edges(order), 1, "dag5"))
    domain += "; all 3 x 1024 acyclic graphs on 5 targets compatible with three fixed topological orders x 31 requests"
    if not ctx.quick:
        plan += [(5, all_edges(5, False), 1, "n5"), (5, all_edges(5, True), 1021, "n5self")]
        domain += "; all 2^20 graphs on 5 targets without self-dependencies x 31 requests"
    n = ctx.scale(3200, 160000)
    ctx.pmap(_all_worker, [(w, plan, subseed(ctx.seed, PID, w), n // 16) for w in range(16)])
    ctx.exhaustive = True
    ctx.extra["exhaustive_domain"] = domain
