"""C16 - IR JSON serialisation round-trips (ppci.irutils.to_json / from_json)."""

import re

from .. import irround
from ..core import Discard, Stats, hyp_search, load_findings, subseed

PID = "C16"
RULE = (
    "cases = Hypothesis-generated IR modules (vf/genir.py, full menu: every instruction kind and operator, undef, literals, "
    "memcpy, volatile accesses, boundary/huge constants, non-finite floats, initialised globals incl. symbol references, "
    "blocks emitted in non-dominance order; in 40% of the functions up to three parameters / local values are renamed to the "
    "name of a global, external or function the function does not refer to, as C shadowing produces) and C front-end modules (c_to_ir on translation units assembled from 28 "
    "fragments, optionally optimised at level 2). Oracle: from_json(to_json(m)) succeeds and the result is structurally "
    "equal to m under vf/irround.dump_module: module name; externals (kind, name, types); variables (name, binding, amount, "
    "alignment, value parts); functions (kind, name, binding, return type, parameters, entry); blocks in order; instructions "
    "in order with kind, name, type, operands by referent (name, owner: this function / module / dangling, kind of object, type), constants by Python type and "
    "float bit pattern, volatile flags, phi inputs as a block->value mapping. "
    "Shapes that hit an open known finding are removed from the generated module by construction (counted in excluded_known). "
    "non-trivial = the module has an initialised global, a volatile access, a phi, a value used before its defining block in "
    "block order, or a local value named like a module-level value; distinct = (module description | C source, opt level)"
)
ASSUMPTIONS = [
    "structural equality as defined by vf/irround.dump_module is what 'identical module' means (debug information is not compared)",
]
TRUSTED = ["CPython", "Hypothesis", "vf/genir.py", "vf/irround.py (structural comparison)", "ppci C front end and optimiser (case producers only)"]
REGISTER = True
TECHNIQUE = "round-trip: to_json -> from_json, field-by-field structural comparison on Hypothesis-generated and C front-end modules"
LEVEL_TEXT = (
    "Exploration: about a thousand (quick) to tens of thousands (thorough) generated and front-end produced modules per run are serialised with to_json and "
    "rebuilt with from_json; an independent structural dump of both modules (every field the statement names, operands resolved "
    "to their defining objects) must be equal. Serialiser and deserialiser are deterministic functions of the module, so "
    "generated-input search with an exact oracle is the fitting level; no bound is closed."
)

SHRINK_CASES = 250  # cases a worker may spend on shrinking one failure

FINDING_OF = {
    "init": "C16-KF1",
    "volatile": "C16-KF2",
    "copy": "C16-KF3",
    "undef": "C16-KF4",
    "fwd": "C16-KF5",
    "asm": "C16-KF6",
    "nameclash": "C16-KF7",
}


def check_module(m):
    from ppci import irutils

    try:
        txt = irutils.to_json(m)
    except Exception as e:
        return "to_json raised " + irround.describe_exception(e)
    try:
        m2 = irutils.from_json(txt)
    except Exception as e:
        return "from_json raised " + irround.describe_exception(e)
    d = irround.first_diff(irround.dump_module(m), irround.dump_module(m2))
    if d:
        return "reconstructed module differs at %s: original %r, reconstructed %r" % (d[0], d[1], d[2])
    return None


def run_case(case):
    m, _, _ = irround.build_case(case)
    return check_module(m), m


def replay(case):
    return run_case(case)[0]


def _signature(fid, msg, feats):
    if fid == "C16-KF1":
        # model: the value of an initialised variable comes back as None
        return "init" in feats and re.search(r"differs at \.variables\[\d+\]\.value: original \[.*\], reconstructed None$", msg, re.S) is not None
    if fid == "C16-KF2":
        return "volatile" in feats and re.search(r"differs at \.functions\[\d+\]\.blocks\[\d+\]\.ins\[\d+\]\.volatile: original True, reconstructed False$", msg) is not None
    if fid == "C16-KF3":
        return "copy" in feats and msg.startswith("to_json raised NotImplementedError(memcpy(") and msg.endswith("in irutils/io.py:write_instruction")
    if fid == "C16-KF4":
        return "undef" in feats and re.match(r"to_json raised NotImplementedError\((\S+ )?\w+ = undefined\) in irutils/io.py:write_instruction$", msg) is not None
    if fid == "C16-KF5":
        return "fwd" in feats and re.match(r"from_json raised TypeError\((Binop|Unop) type mismatch ptr != \w+\) in ir.py:__init__$", msg) is not None
    if fid == "C16-KF6":
        return "asm" in feats and msg.startswith("to_json raised NotImplementedError(asm (") and msg.endswith("in irutils/io.py:write_instruction")
    return False


def classify(case, msg):
    try:
        m, _, _ = irround.build_case(case)
        feats = irround.module_features(m)
    except Exception:
        return None
    for fid in sorted(set(FINDING_OF.values())):
        if _signature(fid, msg, feats):
            return fid
    if "nameclash" in feats and _passes_with_unique_local_names(case):
        return "C16-KF7"
    return None


def _passes_with_unique_local_names(case):
    """Model of C16-KF7: the failure is caused by a function-local name that is ambiguous with a module-level name,
    i.e. the very same module round-trips once those local values carry fresh names."""
    try:
        m, _, _ = irround.build_case(case)
        if not irround.uniquify_locals(m):
            return False
        return check_module(m) is None
    except Exception:
        return False


def active_exclusions():
    """{feature: finding id} for open findings whose witness still fails on the tree under test."""
    res = {}
    by_id = {e["id"]: e for e in load_findings(PID) if e.get("status") == "open"}
    for feat, fid in FINDING_OF.items():
        e = by_id.get(fid)
        if e is None:
            continue
        try:
            msg = replay(e["witness"])
        except Discard:
            continue
        if msg is not None and classify(e["witness"], msg) == fid:
            res[feat] = fid
    return res


def _worker(arg):
    seed, n, exclude, big = arg
    stats = Stats()

    cap = irround.ShrinkCap(SHRINK_CASES)

    def prop(case):
        if cap.exhausted():
            return None
        msg, m = run_case(case)
        if msg is not None and classify(case, msg) is None:
            cap.failure_seen()
        feats = irround.module_features(m)
        classes = irround.instruction_classes(m)
        nt = bool(feats & {"init", "volatile", "fwd", "shadow"}) or "Phi" in classes
        hist = ["kind:" + case["kind"] + (":O" + case["opt"] if case["kind"] == "c" else "")]
        hist += ["has:" + f for f in sorted(feats)] + (["has:phi"] if "Phi" in classes else [])
        stats.case(
            irround.case_key(case) if nt else None,
            nt,
            {"kind": case["kind"], "features": sorted(feats), "functions": irround.dump_module(m)["functions"][:1]} if nt and len(stats.samples) < 2 else None,
            classes=hist,
        )
        for k, c in classes.items():
            stats.hist["ins:" + k] += c
        return msg

    fails = hyp_search(irround.case_strategy(exclude, stats.excluded, big=big), prop, n, seed, stats, classify=classify)
    return stats, fails


def run(ctx):
    exclude = active_exclusions()
    ctx.extra["excluded_features"] = dict(exclude)
    irround.warm_fragments()
    n = ctx.scale(1120, 60000)
    ctx.pmap(_worker, [(subseed(ctx.seed, PID, w), n // 16, exclude, not ctx.quick) for w in range(16)])
