"""C29 - code generation succeeds for supported IR on mature targets.

case = {"kind": "ir", "module": genir description (already restricted), "target", "level", "opt"}
     | {"kind": "c",  "src": C text (already adapted to the target's data model), "target", "level", "opt"}
"""

import collections
import re

from hypothesis import strategies as st

from .. import cgstage, gencc, genir
import os

from ..core import Discard, HarnessError, Stats, hyp_search, subseed
from ..core import open_finding_ids as _core_open_ids


def open_finding_ids(pid):
    """open findings minus VERIF_ASSUME_FIXED=<id,id,...> (used to validate a fix in a patched scratch copy:
    exclusion and classification of those findings are lifted)"""
    assumed = {x.strip() for x in os.environ.get("VERIF_ASSUME_FIXED", "").split(",") if x.strip()}
    return set(_core_open_ids(pid)) - assumed

PID = "C29"
RULE = (
    "Hypothesis draws (target in x86_64, arm, arm:thumb, riscv, riscv:rvc) x (level in 0,1,2,s) x (opt in speed,size) x a module: "
    "65% vf/genir modules built with the target's value types and pointer size (ArchInfo) whose every instruction is "
    "rewritten into the set of (instruction kind, operator, type, constant-operand?) classes that ppci's C front end was "
    "measured to emit for that target (vf/c29_classes.json, tools/c29_measure.py: gencc corpus + every .c file of the repo + "
    "an enumeration of one-function units per operator x type x operand form), 35% front-end modules (c_to_ir of vf/gencc "
    "units, rewritten to ILP32 for the 32-bit targets). optimize(level) then ir_to_object(opt); ANY exception is a failure, "
    "bucketed by (exception type, innermost ppci frame, uncovered tree operators / normalised message). "
    "non-trivial = some function has >= 10 instructions and >= 3 distinct (operator, type) classes and code generation "
    "was attempted; distinct = (module, target, level, opt)"
)
ASSUMPTIONS = [
    "a value type is supported by a target when get_arch(T).info.type_infos lists it",
    "'supported IR' = instruction classes some ppci front end emits for the target, as measured in vf/c29_classes.json",
    "C units the front end rejects or crashes on are discarded (C28 judges the front ends)",
]
TRUSTED = ["CPython", "Hypothesis", "vf/genir.py", "vf/gencc.py", "vf/cgstage.py (class measurement and restriction)"]
REGISTER = True
TECHNIQUE = "crash oracle on optimize + ir_to_object over generated IR restricted to front-end-emittable instruction classes and over front-end modules, five targets x four levels"
LEVEL_TEXT = (
    "Exploration with a crash oracle: generated modules that stay inside the operator/type/operand classes ppci's own "
    "front end emits for the target, and front-end modules themselves, are compiled for five target configurations at "
    "every optimisation level; any exception is a failure, bucketed by root cause.  The instruction selector is a "
    "pattern table, so per-class coverage (reported per target) is the fitting measure; no bound is closed."
)

TARGETS = tuple(cgstage.TARGETS)

# ---------------------------------------------------------------------------
# open findings: signature = targets + exception type + innermost frame + regex every offending detail must match;
# exclusion = instruction classes removed from the generator's menu for those targets

SEL = ("RuntimeError", "codegen/instructionselector.py:gen")
N8 = "(?:I8|U8|I16|U16)"
n8 = "(?:i8|u8|i16|u16)"
ARM = ("arm", "arm:thumb")
RV = ("riscv", "riscv:rvc")
FINDINGS = [
    # x86_64
    {"id": "C29-KF1", "targets": ("x86_64",), "sig": SEL, "detail": r"F32TOF32\(regfp32\)|F64TOF64\(regfp64\)",
     "classes": r"cast (f32>f32|f64>f64) "},
    {"id": "C29-KF2", "targets": ("x86_64",), "sig": SEL,
     "detail": r"%sTOF(32|64)\(reg(8|16)\)|F(32|64)TO%s\(regfp(32|64)\)" % (N8, N8),
     "classes": r"cast (%s>f(32|64)|f(32|64)>%s) " % (n8, n8)},
    # riscv
    {"id": "C29-KF3", "targets": RV, "sig": SEL, "detail": r"F32TOF32\(reg\)|F64TOF64\(reg\)", "classes": r"cast (f32>f32|f64>f64) "},
    {"id": "C29-KF4", "targets": RV, "sig": SEL,
     "detail": r"(%s|U32)TOF(32|64)\(reg\)|F(32|64)TO(%s|U32)\(reg\)" % (N8, N8),
     "classes": r"cast ((%s|u32)>f(32|64)|f(32|64)>(%s|u32)) " % (n8, n8)},
    # arm / thumb
    {"id": "C29-KF5", "targets": ARM, "sig": SEL, "detail": r"REMU32\(reg,reg\)|DIVU32\(reg,reg\)",
     "classes": {"arm": r"binop % u32 ", "arm:thumb": r"binop [/%] u32 "}},
    {"id": "C29-KF6", "targets": ARM, "sig": SEL, "detail": r"(I8|U8)TO(I16|U16)\(reg\)|(I16|U16)TO(I8|U8)\(reg\)",
     "classes": r"cast ((i8|u8)>(i16|u16)|(i16|u16)>(i8|u8)) "},
    {"id": "C29-KF7", "targets": ARM, "sig": SEL, "detail": r"(ADD|SUB)%s\(reg,reg\)" % N8, "classes": r"binop [-+] %s " % n8},
    {"id": "C29-KF8", "targets": ("arm:thumb",), "sig": SEL, "detail": r"INV(I|U)(8|16|32)\(reg\)", "classes": r"unop ~ "},
    {"id": "C29-KF9", "targets": ("arm:thumb",), "sig": SEL, "detail": r"MOVB\(reg,reg\)", "classes": r"store blob |arg blob |param blob |copy "},
    {"id": "C29-KF10", "targets": ("arm:thumb",), "sig": ("KeyError", "arch/arm/thumb_instructions.py:pattern_cjmp_signed"), "detail": r"'<='",
     "classes": r"cjmp <= (i8|i16|i32) "},
    {"id": "C29-KF12", "targets": ("arm",), "sig": SEL, "detail": r"CONST(I8|U8)",
     "ins": lambda ins: ins[0] == "const" and ins[2] in ("i8", "u8") and not 0 <= ins[3] < 256, "repl": lambda ins: ins[:3] + [ins[3] & 0x7F]},
    {"id": "C29-KF13", "targets": TARGETS, "sig": ("AssertionError", "binutils/outstream.py:do_emit"), "detail": r"",
     "pred": lambda case: case["level"] != "0" and _module_facts(case)["self_tail_call_functions"] >= 2},
    {"id": "C29-KF14", "targets": ("arm:thumb",), "sig": ("TypeError", "arch/encoding.py:__init__"),
     "detail": r"N arguments given, but <class 'ppci\.arch\.arm\.thumb_instructions\.StrN'> expects N",
     "pred": lambda case: _module_facts(case)["max_call_args"] > 4},
    {"id": "C29-KF14", "targets": ("arm:thumb",), "sig": ("NotImplementedError", "arch/arm/arch.py:gen_prologue"), "detail": r"",
     "pred": lambda case: _module_facts(case)["max_call_args"] > 4},
    {"id": "C29-KF15", "targets": RV, "sig": ("AssertionError", "arch/token.py:__setitem__"),
     "detail": r"encoding (Slli|Srai)\w*: field value negative", "desc_fix": "_mask_negative_shift_counts"},
    {"id": "C29-KF11", "targets": ARM, "floats": True,
     "sigs": [("KeyError", "arch/arch.py:get_reg_class", r"ir-typ fN"), ("KeyError", "codegen/irdag.py:new_vreg", r"ir-typ fN"), ("NotImplementedError", "codegen/irdag.py:do_return", r"Pass pointer as first arg instead"),
              SEL + (r"\w*F(32|64)\w*(\([\w,]*\))?",)]},
]


def _module_facts(case):
    """input features used by signatures: number of functions ending in 'r = call self(..); return r', widest call"""
    from ppci import ir

    m = build(case)
    n, width = 0, 0
    for f in m.functions:
        for b in f:
            for ins in b:
                if isinstance(ins, (ir.FunctionCall, ir.ProcedureCall)):
                    width = max(width, len(ins.arguments))
        if any(len(b) >= 2 and isinstance(b[-1], ir.Return) and isinstance(b[-2], ir.FunctionCall) and b[-2] is b[-1].result
               and b[-2].callee is f for b in f):
            n += 1
    return {"self_tail_call_functions": n, "max_call_args": width}


def _uses_floats(case):
    if case["kind"] == "c":
        return bool(re.search(r"\b(float|double)\b", case["src"]))
    return bool(re.search(r"'f(32|64)'", str(case["module"])))


def _finding_for(case, exc, frame, item):
    target = case["target"]
    for f in FINDINGS:
        if target not in f["targets"]:
            continue
        if f.get("floats"):
            if _uses_floats(case) and any(exc == e and frame == fr and re.fullmatch(rx, item) for e, fr, rx in f["sigs"]):
                return f["id"]
            continue
        if (exc, frame) == f["sig"] and re.fullmatch(f["detail"], item) and ("pred" not in f or f["pred"](case)):
            return f["id"]
    return None


_MSG = re.compile(r"^C29 (\S+) -O(\S+) opt=(\S+): (\w+) \[([^\]]*)\] (.*)$", re.M)


def classify(case, msg):
    m = _MSG.search(msg.split("\n", 1)[0])
    if not m:
        return None
    target, exc, frame, detail = m.group(1), m.group(4), m.group(5), m.group(6)
    if target != case.get("target"):
        return None
    items = detail[len("uncovered "):].split(" ") if detail.startswith("uncovered ") else [detail]
    ids = [_finding_for(case, exc, frame, it) for it in items]
    if ids and all(ids) and all(i in open_finding_ids(PID) for i in ids):
        return sorted(ids)[0]
    return None


def excluded_classes(target):
    """[(class regex, finding id)] for the open findings that apply to target"""
    open_ids = open_finding_ids(PID)
    out = []
    for f in FINDINGS:
        if target in f["targets"] and f.get("classes") and f["id"] in open_ids:
            rx = f["classes"][target] if isinstance(f["classes"], dict) else f["classes"]
            out.append((re.compile(rx), f["id"]))
    return out


def _mask_negative_shift_counts(desc):
    """C29-KF15: i32 '<<' / '>>' by a negative constant -> the count operand becomes a fresh constant in 0..31"""
    n = 0
    for fd in desc["functions"]:
        val = {i[1]: i[3] for b in fd["blocks"] for i in b["ins"] if i[0] == "const" and isinstance(i[3], int)}
        for b in fd["blocks"]:
            out = []
            for ins in b["ins"]:
                if ins[0] == "binop" and ins[4] in ("<<", ">>") and ins[2] == "i32" and val.get(ins[5], 0) < 0:
                    nn = "%s_k%d" % (ins[1], n)
                    out.append(["const", nn, "i32", val[ins[5]] & 31])
                    ins = ins[:5] + [nn]
                    n += 1
                out.append(ins)
            b["ins"] = out
    return n


def excluded_instructions(target):
    open_ids = open_finding_ids(PID)
    return [f for f in FINDINGS if target in f["targets"] and f.get("ins") and f["id"] in open_ids]


# ---------------------------------------------------------------------------
# evaluation


def build(case):
    if case["kind"] == "ir":
        try:
            return genir.build(case["module"])
        except Exception as e:
            raise HarnessError("unbuildable module: %r" % e)
    try:
        return cgstage.c_frontend(case["src"], case["target"])
    except Exception as e:
        raise Discard("front end: %s" % type(e).__name__)


def run_case(case):
    """-> (message | None, module facts)"""
    from ppci.api import ir_to_object, optimize

    target = case["target"]
    info = cgstage.target_info(target)
    m = build(case)
    try:
        from ppci.irutils import verify_module

        verify_module(m)
    except Exception as e:
        if case["kind"] == "ir":
            raise HarnessError("generated module is not well formed: %s" % e)
        raise Discard("front end produced ill-formed IR (%s): C28/C03" % type(e).__name__)
    ok = set(info["int_types"]) | set(info["float_types"]) | set(info["advertised_only"]) | {"ptr", "blob"}
    bad = cgstage.module_types(m) - ok
    if bad:
        raise Discard("uses a value type the target does not list: %s" % ",".join(sorted(bad)))
    facts = {"nontrivial": False, "classes": set()}
    for f in m.functions:
        cs = cgstage.function_classes(f)
        ops = {c.rsplit(" ", 1)[0] for c in cs if c.split(" ")[0] in ("binop", "unop", "cast", "cjmp")}
        n = sum(len(b) for b in f)
        if n >= 10 and len(ops) >= 3:
            facts["nontrivial"] = True
        facts["classes"].update(cs)
    try:
        optimize(m, level=case["level"])
        ir_to_object([m], target, opt=case["opt"])
    except Exception as e:
        b = cgstage.bucket(e)
        return "C29 %s -O%s opt=%s: %s\n%s" % (target, case["level"], case["opt"], cgstage.bucket_text(b), str(e)[:400]), facts
    return None, facts


def replay(case):
    return run_case(case)[0]


# ---------------------------------------------------------------------------
# generation

_PROFILES = {}


def profile(target):
    if target not in _PROFILES:
        info = cgstage.target_info(target)
        allowed = cgstage.allowed_classes(target)
        _PROFILES[target] = genir.Profile(
            name="c29-" + target,
            int_types=[t for t in genir.INT_TYPES if t in info["int_types"]],
            float_types=[t for t in genir.FLOAT_TYPES if t in info["float_types"] or (t in info["advertised_only"] and "C29-KF11" not in open_finding_ids(PID))],
            ptr_bits=info["ptr_bits"],
            rotates=any(c.startswith("binop rol") or c.startswith("binop ror") for c in allowed),
            undef=any(c.startswith("undef") for c in allowed),
            max_funcs=2,
            max_blocks=6,
            observe=False,
            # thumb cannot pass arguments on the stack (C29-KF14): the tail-recursive shape has a 5th parameter
            tailrec=not (target == "arm:thumb" and "C29-KF14" in open_finding_ids(PID)),
        )
    return _PROFILES[target]


def ir_case(draw, target, level, opt, counts):
    desc = draw(genir.modules(profile(target)))
    if level != "0" and sum(1 for f in desc["functions"] if f.get("tailrec")) >= 2 and "C29-KF13" in open_finding_ids(PID):
        level = "0"  # two self-tail-recursive functions get the same block label from TailCallOptimization (C29-KF13)
        counts["excluded:C29-KF13"] += 1
    allowed = set(cgstage.allowed_classes(target))
    excl = excluded_classes(target)
    if excl:
        for c in list(allowed):
            for rx, fid in excl:
                if rx.match(c + " "):
                    allowed.discard(c)
        for c in cgstage.desc_classes(desc):
            for rx, fid in excl:
                if rx.match(c + " "):
                    counts["excluded:" + fid] += 1
    for f in excluded_instructions(target):
        for fd in desc["functions"]:
            for b in fd["blocks"]:
                for i, ins in enumerate(b["ins"]):
                    if f["ins"](ins):
                        b["ins"][i] = f["repl"](ins)
                        counts["excluded:" + f["id"]] += 1
    for f in FINDINGS:
        if target in f["targets"] and f.get("desc_fix") and f["id"] in open_finding_ids(PID):
            counts["excluded:" + f["id"]] += globals()[f["desc_fix"]](desc)
    bad = cgstage.restrict(desc, allowed, counts)
    case = {"kind": "ir", "module": desc, "target": target, "level": level, "opt": opt}
    if bad:
        case["unrepairable"] = bad
    return case


FLOAT_PCT = {"x86_64": 75, "riscv": 35, "riscv:rvc": 35, "arm": 35, "arm:thumb": 35}


def c_case(draw, target, level, opt, counts=None):
    floats = draw(st.integers(0, 99)) < FLOAT_PCT[target]
    if floats and target in ARM and "C29-KF11" in open_finding_ids(PID):
        floats = False  # the arm back end has no float support at all (C29-KF11): excluded by construction
        if counts is not None:
            counts["excluded:C29-KF11"] += 1
    p = draw(gencc.programs(gencc.Options(floats=floats, max_funcs=2, max_stmts=6)))
    return {"kind": "c", "src": cgstage.adapt_c(p["src"], target), "target": target, "level": level, "opt": opt}


def case_strategy(counts, targets=TARGETS):
    @st.composite
    def _case(draw):
        target = draw(st.sampled_from(targets))
        level = draw(st.sampled_from(cgstage.LEVELS))
        opt = draw(st.sampled_from(cgstage.OPTS))
        if draw(st.integers(0, 99)) < 65:
            return ir_case(draw, target, level, opt, counts)
        return c_case(draw, target, level, opt, counts)

    return _case()


def _worker(arg):
    seed, n = arg
    stats = Stats()
    counts = collections.Counter()

    def prop(case):
        if case.get("unrepairable"):
            raise Discard("generated module needs a class no front end emits: %s" % case["unrepairable"][0])
        msg, facts = run_case(case)
        key = (case["target"], case["level"], case["opt"], str(case.get("module") or case.get("src"))[:4000])
        tag = "%s %s" % (case["target"], case["kind"])
        stats.case(key if facts["nontrivial"] else None, facts["nontrivial"],
                   {"target": case["target"], "level": case["level"], "opt": case["opt"], "kind": case["kind"],
                    "input": (case.get("src") or case["module"]["functions"][-1])} if facts["nontrivial"] else None,
                   classes=[tag, tag + (" failed" if msg else " compiled"), "level " + case["level"], "opt " + case["opt"]])
        for c in facts["classes"]:
            stats.hist["class|%s|%s" % (case["target"], c)] += 1
        return msg

    fails = hyp_search(case_strategy(counts), prop, n, seed, stats, classify=classify)
    for k, v in counts.items():
        if k.startswith("excluded:"):
            stats.excluded[k[len("excluded:"):]] += v
        else:
            stats.hist["restrict " + k] += v
    return stats, fails


def run(ctx):
    import ppci.api  # noqa: F401  (import once in the parent, workers are forked)

    n = ctx.scale(640, 32000)
    ctx.pmap(_worker, [(subseed(ctx.seed, PID, w), n // 16) for w in range(16)])
    reached = {t: set() for t in TARGETS}
    for k in list(ctx.stats.hist):
        if isinstance(k, str) and k.startswith("class|"):
            _, t, c = k.split("|", 2)
            reached[t].add(c)
            del ctx.stats.hist[k]
    ctx.extra["targets_covered"] = [t for t in TARGETS if reached[t]]
    ctx.extra["classes_reached"] = {}
    for t in TARGETS:
        allowed = cgstage.allowed_classes(t)
        ctx.extra["classes_reached"][t] = {
            "reached": len(reached[t] & allowed), "of_measured_front_end_classes": len(allowed),
            "not_reached": sorted(allowed - reached[t])[: ctx.scale(40, 400)],
        }
