"""C02 - optimizer preserves IR behaviour at every level and for every pass."""

import traceback

from hypothesis import strategies as st

from .. import genir, irsem, irsem_selfcheck, irwf
from ..core import Discard, HarnessError, Stats, hyp_search, subseed
from ..irpasses import PASS_NAMES, make_pass

PID = "C02"
RULE = (
    "Hypothesis-generated IR modules (vf/genir.py) x configuration (one single pass | random pass sequence | "
    "optimize(level) for 0,1,2,s) x argument vectors for every function, and (a quarter of the cases) front-end produced "
    "modules: vf/gencc.py C units through c_to_ir; the reference interpreter vf/irsem.py "
    "observes (return value, final bytes of globals and caller buffers, external call trace) before and after; "
    "executions whose ORIGINAL run is undefined (uninitialised read, division by zero, out-of-range shift, fuel, "
    "address dependent) are discarded; undefined behaviour only in the optimised run is a failure. "
    "non-trivial = the configuration changed the module and at least one original execution was defined; "
    "distinct = (module, configuration)"
)
ASSUMPTIONS = [
    "IR semantics as written down in DESIGN.md 3.1 (vf/irsem.py)",
    "external routines have no memory effects and return a value that depends only on (name, arguments, call index)",
]
TRUSTED = ["CPython", "Hypothesis", "vf/irsem.py (reference interpreter)", "vf/genir.py"]
REGISTER = True
TECHNIQUE = "metamorphic: reference IR interpreter before vs after each pass / pass sequence / optimize(level) on Hypothesis-generated modules"
LEVEL_TEXT = (
    "Exploration with a metamorphic oracle: for thousands of generated modules the observable behaviour of every function "
    "under an independent reference interpreter is compared before and after each single pass, random pass sequences and "
    "every optimisation level, on boundary-biased argument vectors. Passes are deterministic functions of the module, so "
    "generated-input search is the fitting level; no bound is closed."
)

PROFILE = genir.Profile(name="c02", constexpr_pct=4, spin_cycle_pct=5, loop_local_pct=6, dup_args_pct=20)
FUEL = 6000


def apply_config(m, config):
    if "level" in config:
        from ppci.api import optimize

        optimize(m, level=config["level"])
    else:
        for pn in config["passes"]:
            make_pass(pn).run(m)


def run_c_case(case, stats=None):
    """Front-end produced module: generated C unit -> c_to_ir -> configuration; reference interpreter before/after."""
    import io

    from ppci.api import c_to_ir

    from .. import cc_oracle

    program, tests, config = case["program"], case["tests"], case["config"]

    def compile_it():
        try:
            return c_to_ir(io.StringIO(program["src"]), "x86_64")
        except Exception as e:
            raise Discard("front-end rejects or crashes: %s" % type(e).__name__)

    m0, m1 = compile_it(), compile_it()
    before = irwf.dump(m1)
    try:
        apply_config(m1, config)
    except Exception as e:
        raise Discard("pass raised %s (C03's domain)" % type(e).__name__)
    changed = irwf.dump(m1) != before
    defined = 0
    for tst in tests:
        fname = program["funcs"][tst[0]]["name"]
        try:
            ref = cc_oracle.run_irsem(m0, program, tst, irsem)
        except irsem.Undef as e:
            if stats is not None:
                stats.discard("original undefined: " + e.reason)
            continue
        except irsem.Unsupported as e:
            if stats is not None:
                stats.discard("unsupported: " + e.reason)
            continue
        defined += 1
        try:
            got = cc_oracle.run_irsem(m1, program, tst, irsem)
        except irsem.Undef as e:
            return ("%s%r: defined before, undefined after %s: %s" % (fname, tst[1], config, e.reason), changed, defined)
        except irsem.Unsupported:
            continue
        for key in ("ret", "ext", "obs", "buf"):
            a, b = ref[key], got[key]
            if a != b and "ADDR" not in str(a):
                return ("%s%r differs after %s: %s: expected %r, got %r" % (fname, tst[1], config, key, a, b), changed, defined)
    return (None, changed, defined)


def run_case(case, stats=None):
    if "program" in case:
        return run_c_case(case, stats)
    desc, config, calls = case["module"], case["config"], case["calls"]
    try:
        m0 = genir.build(desc)
        m1 = genir.build(desc)
    except Exception:
        raise HarnessError("generator produced an unbuildable module:\n" + traceback.format_exc())
    before = irwf.dump(m1)
    try:
        apply_config(m1, config)
    except Exception as e:
        raise Discard("pass raised %s (C03's domain)" % type(e).__name__)
    changed = irwf.dump(m1) != before
    defined = 0
    byname = {f["name"]: f for f in desc["functions"]}
    for fname, args in calls:
        f = byname[fname]
        bufs = [bytes(range(16, 32))] * genir.nbufs(f)
        a = genir.decode_args(args)
        try:
            ref = irsem.observe_call(m0, fname, a, ptr_bits=desc["ptr_bits"], fuel=FUEL, buffers=bufs)
        except irsem.Undef as e:
            if stats is not None:
                stats.discard("original undefined: " + e.reason)
            continue
        except irsem.Unsupported as e:
            if stats is not None:
                stats.discard("unsupported: " + e.reason)
            continue
        defined += 1
        try:
            got = irsem.observe_call(m1, fname, a, ptr_bits=desc["ptr_bits"], fuel=FUEL * 8, buffers=bufs)
        except irsem.Undef as e:
            return ("%s%r: defined before, undefined after %s: %s" % (fname, args, config, e.reason), changed, defined)
        except irsem.Unsupported as e:
            if stats is not None:
                stats.discard("unsupported after: " + e.reason)
            continue
        diff = irsem.obs_equal(ref, got)
        if diff:
            return ("%s%r differs after %s: %s" % (fname, args, config, diff), changed, defined)
    return (None, changed, defined)


def replay(case):
    return run_case(case)[0]


def classify(case, msg):
    return None


def config_strategy():
    return st.one_of(
        st.sampled_from(PASS_NAMES).map(lambda p: {"passes": [p]}),
        st.lists(st.sampled_from(PASS_NAMES[:8]), min_size=2, max_size=10).map(lambda ps: {"passes": ps}),
        st.sampled_from(["1", "2", "s", "0"]).map(lambda l: {"level": l}),
    )


@st.composite
def case_strategy(draw):
    desc = draw(genir.modules(PROFILE))
    config = draw(config_strategy())
    calls = []
    for f in desc["functions"]:
        for _ in range(draw(st.integers(1, 3))):
            calls.append([f["name"], draw(genir.arg_strategy(f, PROFILE))])
    return {"module": desc, "config": config, "calls": calls}


@st.composite
def c_case_strategy(draw):
    from .. import gencc

    p = draw(gencc.programs(gencc.Options(max_funcs=3, max_stmts=6)))
    tests = []
    for fi, f in enumerate(p["funcs"]):
        for v in gencc.arg_vectors(draw, f, 2):
            tests.append([fi, v])
    return {"program": p, "tests": tests, "config": draw(config_strategy())}


def _cfgname(config):
    if "level" in config:
        return "level:" + config["level"]
    if len(config["passes"]) == 1:
        return "single:" + config["passes"][0]
    return "sequence"


def _worker(arg):
    seed, n = arg
    stats = Stats()

    def prop(case):
        msg, changed, defined = run_case(case, stats)
        nt = changed and defined > 0
        if "program" in case:
            stats.case((str(case["config"]), case["program"]["src"]) if nt else None, nt,
                       {"config": case["config"], "source": "c_to_ir", "src": case["program"]["src"][:800]} if nt else None,
                       classes=["frontend:" + _cfgname(case["config"]) + (":changed" if changed else ":unchanged"), "defined_calls:%d" % min(defined, 3)])
            return msg
        stats.case((str(case["config"]), str(case["module"])[:3000]) if nt else None, nt,
                   {"config": case["config"], "calls": case["calls"][:2], "instructions": genir.count_instructions(case["module"]),
                    "last_function": case["module"]["functions"][-1]} if nt else None,
                   classes=[_cfgname(case["config"]) + (":changed" if changed else ":unchanged"), "defined_calls:%d" % min(defined, 3)])
        return msg

    fails = hyp_search(case_strategy(), prop, n - n // 4, seed, stats, classify=classify)
    if not fails:
        fails = hyp_search(c_case_strategy(), prop, n // 4, seed + 1, stats, classify=classify)
    return stats, fails


def run(ctx):
    ctx.extra["irsem_selfcheck"] = irsem_selfcheck.selfcheck("quick")  # the oracle validates itself first (cached)
    n = ctx.scale(1200, 80000)
    ctx.pmap(_worker, [(subseed(ctx.seed, PID, w), n // 16) for w in range(16)])
