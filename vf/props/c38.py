"""C38 - constant folding agrees with run-time arithmetic."""

import itertools

from hypothesis import strategies as st

from .. import irsem, irsem_selfcheck
from ..core import Stats, hyp_search, subseed

PID = "C38"
RULE = (
    "for every integer IR type and every operator ConstantFolder folds (+ - * % << >>): ALL operand pairs of i8 and u8 "
    "(exhaustive), the cross product of ~40 boundary values plus Hypothesis-drawn pairs for 16/32/64 bits; every cast of "
    "boundary constants between all integer types and between integers and floats; chains (y+c1)+c2 and (y-c1)-c2 and "
    "mixed chains with a run-time y. Each case builds 'r = const a <op> const b' in a real ir.Block, runs "
    "ppci.opt.ConstantFolder and compares the resulting Const with vf/irsem's run-time arithmetic on the defined domain; "
    "every Const left in the block must lie in its type's range; chains are interpreted before and after. "
    "non-trivial = an operand is negative or the exact result needs wrap-around; distinct = (type, operator, a, b)"
)
ASSUMPTIONS = ["run-time IR arithmetic is the one of DESIGN.md 3.1 (vf/irsem.py): wrap-around, remainder truncating toward zero"]
TRUSTED = ["CPython", "Hypothesis", "vf/irsem.py scalar arithmetic (itself checked against gcc and hand-computed tables by vf/irsem_selfcheck.py at the start of every run)"]
REGISTER = True
TECHNIQUE = "exhaustive enumeration (8-bit operand pairs) + boundary cross products + Hypothesis pairs against the reference IR arithmetic"
LEVEL_TEXT = (
    "Exploration, exhaustive for the 8-bit types: every operand pair of every foldable operator is folded by the real pass "
    "and compared with reference run-time arithmetic; wider types get boundary cross products and random pairs; casts and "
    "chained folds are covered separately. The folder is a pure function of two constants, so enumeration is the right level."
)

OPS = ["+", "-", "*", "%", "<<", ">>"]
INT_TYPES = ["i8", "u8", "i16", "u16", "i32", "u32", "i64", "u64"]
BITS = {"i8": 8, "u8": 8, "i16": 16, "u16": 16, "i32": 32, "u32": 32, "i64": 64, "u64": 64, "f32": 32, "f64": 64}


def _ty(name):
    from ppci import ir

    return {t.name: t for t in ir.value_types}[name]


def rng(ty):
    b = BITS[ty]
    return (-(1 << (b - 1)), (1 << (b - 1)) - 1) if ty[0] == "i" else (0, (1 << b) - 1)


def expected(ty, op, a, b):
    """Reference result or None when the operation is undefined at run time."""
    try:
        return irsem.int_binop(op, a, b, BITS[ty], ty[0] == "i")
    except irsem.Undef:
        return None


def fold_batch(ty, items):
    """items: [(op, a, b)] -> list of folded values (None when the folder left the instruction alone).
    Also returns a list of range problems."""
    from ppci import ir
    from ppci.opt import ConstantFolder

    t = _ty(ty)
    m = ir.Module("c38")
    g = ir.Variable("g", ir.Binding.GLOBAL, 8, 8)
    m.add_variable(g)
    f = ir.Procedure("f", ir.Binding.GLOBAL)
    m.add_function(f)
    blk = ir.Block("entry")
    f.add_block(blk)
    f.entry = blk
    stores = []
    for k, (op, a, b) in enumerate(items):
        ca = ir.Const(a, "a%d" % k, t)
        cb = ir.Const(b, "b%d" % k, t)
        r = ir.Binop(ca, op, cb, "r%d" % k, t)
        s = ir.Store(r, g)
        for x in (ca, cb, r, s):
            blk.add_instruction(x)
        stores.append(s)
    blk.add_instruction(ir.Exit())
    ConstantFolder().run(m)
    out = []
    for s in stores:
        v = s.value
        out.append(v.value if isinstance(v, ir.Const) else None)
    problems = []
    lo, hi = rng(ty)
    for i in blk:
        if isinstance(i, ir.Const) and i.ty is t and not (lo <= i.value <= hi):
            problems.append("constant %s = %r outside %s" % (i.name, i.value, ty))
    return out, problems


def check_items(ty, items, stats, fails, classes, sample_every=0):
    res, problems = fold_batch(ty, items)
    for pr in problems[:1]:
        fails.append(({"kind": "binop", "ty": ty, "items": [list(i) for i in items[:1]]}, "after folding: " + pr))
    nt = 0
    for (op, a, b), got in zip(items, res):
        exp = expected(ty, op, a, b)
        exact = {"+": a + b, "-": a - b, "*": a * b}.get(op)
        lo, hi = rng(ty)
        if a < 0 or b < 0 or (exact is not None and not lo <= exact <= hi):
            nt += 1
        if exp is None:
            classes["undefined_at_runtime"] += 1
            continue
        if got is None:
            classes["not_folded"] += 1
            continue
        classes["folded:" + op] += 1
        if got != exp:
            if len(fails) < 5:
                fails.append(({"kind": "binop", "ty": ty, "items": [[op, a, b]]}, "%s: %d %s %d folded to %r, run-time arithmetic gives %d" % (ty, a, op, b, got, exp)))
    return nt


def _enum_worker(arg):
    ty, a_lo, a_hi = arg
    import collections

    stats = Stats()
    fails = []
    classes = collections.Counter()
    lo, hi = rng(ty)
    nt = 0
    n = 0
    for a in range(a_lo, a_hi):
        items = [(op, a, b) for op in OPS for b in range(lo, hi + 1)]
        nt += check_items(ty, items, stats, fails, classes)
        n += len(items)
    stats.bulk(n, nt, classes)
    stats.sample({"ty": ty, "op": "%", "a": a_lo, "b": hi, "folded": fold_batch(ty, [("%", a_lo, hi)])[0][0]})
    return stats, fails


def boundary(ty):
    lo, hi = rng(ty)
    b = BITS[ty]
    vals = {0, 1, 2, 3, 5, 7, 8, 15, 16, 31, 32, 33, 63, 64, 65, 100, 127, 128, 255, 256, hi, hi - 1, hi - 2, hi // 2, hi // 2 + 1, lo, lo + 1, lo + 2,
            b - 1, b, b + 1, 1 << (b - 2), (1 << (b - 2)) + 1}
    if ty[0] == "i":
        vals |= {-1, -2, -3, -5, -7, -8, -16, -31, -32, -63, -64, -100, -127, -128, -129, lo // 2}
    return sorted(v for v in vals if lo <= v <= hi)


def _boundary_worker(ty):
    import collections

    stats = Stats()
    fails = []
    classes = collections.Counter()
    bv = boundary(ty)
    items = [(op, a, b) for op in OPS for a in bv for b in bv]
    nt = 0
    for i in range(0, len(items), 2000):
        nt += check_items(ty, items[i : i + 2000], stats, fails, classes)
    stats.bulk(len(items), nt, classes)
    stats.sample({"ty": ty, "boundary_values": bv[:12]})
    return stats, fails


def _hyp_worker(arg):
    seed, n = arg
    import collections

    stats = Stats()
    classes = collections.Counter()

    def prop(case):
        fails = []
        ty, op, a, b = case
        nt = check_items(ty, [(op, a, b)], stats, fails, classes)
        stats.case((ty, op, a, b), bool(nt), {"ty": ty, "op": op, "a": a, "b": b})
        return fails[0][1] if fails else None

    @st.composite
    def cases(draw):
        ty = draw(st.sampled_from(INT_TYPES[2:]))
        lo, hi = rng(ty)
        op = draw(st.sampled_from(OPS))
        a = draw(st.integers(lo, hi))
        b = draw(st.integers(0, BITS[ty] - 1) if op in ("<<", ">>") and draw(st.booleans()) else st.integers(lo, hi))
        return (ty, op, a, b)

    found = hyp_search(cases(), prop, n, seed, stats)
    stats.hist.update(classes)
    return stats, [({"kind": "binop", "ty": c[0], "items": [[c[1], c[2], c[3]]]}, m) for c, m in found]


# -- casts ---------------------------------------------------------------------


def fold_cast(sty, dty, value):
    from ppci import ir
    from ppci.opt import ConstantFolder

    m = ir.Module("c38")
    g = ir.Variable("g", ir.Binding.GLOBAL, 8, 8)
    m.add_variable(g)
    f = ir.Procedure("f", ir.Binding.GLOBAL)
    m.add_function(f)
    blk = ir.Block("entry")
    f.add_block(blk)
    f.entry = blk
    c = ir.Const(value, "c", _ty(sty))
    r = ir.Cast(c, "r", _ty(dty))
    s = ir.Store(r, g)
    for x in (c, r, s, ir.Exit()):
        blk.add_instruction(x)
    ConstantFolder().run(m)
    v = s.value
    return (v.value if isinstance(v, ir.Const) else None), v


def check_cast(sty, dty, value):
    """None | failure message"""
    import math
    import struct

    sf, df = sty[0] == "f", dty[0] == "f"
    try:
        got, cobj = fold_cast(sty, dty, value)
    except Exception as e:
        return "cast %s %r -> %s: ConstantFolder raised %s: %s" % (sty, value, dty, type(e).__name__, e)
    if got is None:
        return None
    # reference
    if sf and df:
        exp = irsem.round_f32(value) if dty == "f32" else value
    elif sf:
        try:
            exp = irsem.float_to_int(value, BITS[dty], dty[0] == "i")
        except irsem.Undef:
            lo, hi = rng(dty)
            if not (isinstance(got, int) and lo <= got <= hi):
                return "cast %s %r -> %s folded to %r which is outside the type" % (sty, value, dty, got)
            return None
    elif df:
        exp = irsem.int_to_float(value, BITS[dty])
    else:
        exp = irsem.norm_int(value, BITS[dty], dty[0] == "i")
    if df:
        if not isinstance(got, float):
            return "cast %s %r -> %s folded to the non-float constant %r" % (sty, value, dty, got)
        same = (got != got and exp != exp) or struct.pack("<d", got) == struct.pack("<d", exp)
    else:
        same = isinstance(got, int) and got == exp
    if not same:
        return "cast %s %r -> %s folded to %r, run-time conversion gives %r" % (sty, value, dty, got, exp)
    return None


FLOAT_VALUES = [0.0, -0.0, 1.0, -1.0, 1.5, -1.5, 2.5, -2.5, 0.49999, 127.0, 128.0, -128.0, -129.0, 255.9, 65535.5, 2147483647.0, -2147483648.0,
                16777217.0, 1e10, -1e10, 9007199254740993.0, 1e-30, 3.4e38, 1e300, float("inf"), float("-inf"), float("nan")]


def run_casts(ctx):
    n = 0
    for sty in INT_TYPES:
        for dty in INT_TYPES + ["f32", "f64"]:
            for v in boundary(sty):
                msg = check_cast(sty, dty, v)
                lo, hi = rng(dty) if dty[0] != "f" else (None, None)
                nt = v < 0 or (lo is not None and not lo <= v <= hi) or (dty == "f32" and abs(v) > 1 << 24) or (dty == "f64" and abs(v) > 1 << 53)
                ctx.stats.case(("cast", sty, dty, v), nt, {"cast": [sty, dty], "value": v} if nt else None, classes=("cast:int->%s" % ("float" if dty[0] == "f" else "int"),))
                n += 1
                if msg:
                    ctx.fail({"kind": "cast", "sty": sty, "dty": dty, "value": v}, msg)
    for sty in ("f32", "f64"):
        for dty in INT_TYPES + ["f32", "f64"]:
            for v in FLOAT_VALUES:
                if sty == "f32":
                    v = irsem.round_f32(v) if v == v and abs(v) < 3.5e38 else v
                    if v == v and abs(v) > 3.5e38 and abs(v) != float("inf"):
                        continue
                msg = check_cast(sty, dty, v)
                ctx.stats.case(("cast", sty, dty, repr(v)), True, None, classes=("cast:float->%s" % ("float" if dty[0] == "f" else "int"),))
                if msg:
                    ctx.fail({"kind": "cast", "sty": sty, "dty": dty, "value": repr(v)}, msg)


# -- chains -------------------------------------------------------------------


def check_chain(ty, op1, c1, op2, c2, ys):
    """(y op1 c1) op2 c2 folded vs interpreted."""
    from ppci import ir
    from ppci.opt import ConstantFolder

    def build():
        t = _ty(ty)
        m = ir.Module("c38")
        f = ir.Function("f", ir.Binding.GLOBAL, t)
        y = ir.Parameter("y", t)
        f.add_parameter(y)
        m.add_function(f)
        blk = ir.Block("entry")
        f.add_block(blk)
        f.entry = blk
        k1 = ir.Const(c1, "k1", t)
        tt = ir.Binop(y, op1, k1, "t", t)
        k2 = ir.Const(c2, "k2", t)
        u = ir.Binop(tt, op2, k2, "u", t)
        for x in (k1, tt, k2, u, ir.Return(u)):
            blk.add_instruction(x)
        return m

    m0, m1 = build(), build()
    try:
        ConstantFolder().run(m1)
    except Exception as e:
        return "chain (y %s %r) %s %r in %s: ConstantFolder raised %s: %s" % (op1, c1, op2, c2, ty, type(e).__name__, e)
    lo, hi = (None, None) if ty[0] == "f" else rng(ty)
    if lo is not None:
        for i in m1.functions[0].blocks[0]:
            if isinstance(i, ir.Const) and not lo <= i.value <= hi:
                return "chain (y %s %r) %s %r in %s: folded constant %r is outside the type" % (op1, c1, op2, c2, ty, i.value)
    for yv in ys:
        try:
            a = irsem.observe_call(m0, "f", [yv])
        except (irsem.Undef, irsem.Unsupported):
            continue
        try:
            b = irsem.observe_call(m1, "f", [yv])
        except irsem.Undef as e:
            return "chain (y %s %r) %s %r in %s, y=%r: defined before folding, undefined after (%s)" % (op1, c1, op2, c2, ty, yv, e.reason)
        d = irsem.obs_equal(a, b)
        if d:
            return "chain (y %s %r) %s %r in %s, y=%r: %s" % (op1, c1, op2, c2, ty, yv, d)
    return None


def run_chains(ctx):
    for ty in INT_TYPES:
        bv = boundary(ty)
        lo, hi = rng(ty)
        cs = [v for v in bv if v in (0, 1, 2, 5, 100, hi, hi - 1, lo, lo + 1, -1, -2, -100, hi // 2 + 1)]
        ys = [0, 1, hi, lo, hi - 3, lo + 3, 77 & hi]
        for op1, op2 in itertools.product(["+", "-"], repeat=2):
            for c1 in cs:
                for c2 in cs:
                    msg = check_chain(ty, op1, c1, op2, c2, ys)
                    nt = not lo <= c1 + c2 <= hi or c1 < 0 or c2 < 0
                    ctx.stats.case(("chain", ty, op1, c1, op2, c2), nt, {"chain": "(y %s %d) %s %d" % (op1, c1, op2, c2), "ty": ty} if nt else None, classes=("chain:%s%s" % (op1, op2),))
                    if msg:
                        ctx.fail({"kind": "chain", "ty": ty, "op1": op1, "c1": c1, "op2": op2, "c2": c2, "ys": ys}, msg)
    for ty in ("f32", "f64"):
        for op1, op2 in itertools.product(["+", "-"], repeat=2):
            for c1, c2 in [(1e16, -1e16), (0.1, 0.2), (1e30, 1e30), (-0.0, 0.0), (3.0e38, 3.0e38)]:
                if ty == "f32":
                    c1, c2 = irsem.round_f32(c1), irsem.round_f32(c2)
                ys = [1.0, 0.0, -0.0, 1e-8, 123.456]
                msg = check_chain(ty, op1, c1, op2, c2, ys)
                ctx.stats.case(("chain", ty, op1, c1, op2, c2), True, None, classes=("chain:float",))
                if msg:
                    ctx.fail({"kind": "chain", "ty": ty, "op1": op1, "c1": c1, "op2": op2, "c2": c2, "ys": ys}, msg)


def replay(case):
    import collections

    k = case["kind"]
    if k == "binop":
        fails = []
        check_items(case["ty"], [tuple(i) for i in case["items"]], Stats(), fails, collections.Counter())
        return fails[0][1] if fails else None
    if k == "cast":
        v = case["value"]
        if isinstance(v, str):
            v = float(v)
        return check_cast(case["sty"], case["dty"], v)
    if k == "chain":
        return check_chain(case["ty"], case["op1"], case["c1"], case["op2"], case["c2"], case["ys"])
    raise ValueError(k)


def run(ctx):
    ctx.extra["irsem_selfcheck"] = irsem_selfcheck.selfcheck("quick")  # the oracle validates itself first (cached)
    shards = []
    for ty in ("i8", "u8"):
        lo, hi = rng(ty)
        step = 32
        for a in range(lo, hi + 1, step):
            shards.append((ty, a, min(a + step, hi + 1)))
    ctx.pmap(_enum_worker, shards)
    ctx.exhaustive = True
    ctx.extra["exhaustive_domain"] = "all operand pairs of i8 and u8 for + - * % << >>"
    ctx.pmap(_boundary_worker, INT_TYPES[2:])
    n = ctx.scale(8000, 800000)
    ctx.pmap(_hyp_worker, [(subseed(ctx.seed, PID, w), n // 16) for w in range(16)])
    run_casts(ctx)
    run_chains(ctx)
