"""C39 - bit-manipulation helpers compute their mathematical definitions.

Code under test: ppci/utils/bitfun.py and the integer bit helpers of
ppci/wasm/execution/runtime.py (i32/i64 rotl, rotr, clz, ctz, popcnt, extendN_s).

The reference definitions below work on *strings of bits* ('0'/'1' characters, most
significant first): rotation is string slicing, reversal is string reversal, counting is
str.count / str.strip, two's complement is "complement the digits and add one".  The code
under test uses shifts and masks, so a shared mistake is unlikely.

A case is {"fn": name, "args": [...]}; see ASSUMPTIONS for the argument domain of every
function (taken from its docstring, asserts and callers; out-of-domain inputs are not
generated and are discarded on replay).
"""

from hypothesis import strategies as st

from .. import core
from ..core import Discard, Stats, hyp_search, subseed

PID = "C39"
RULE = (
    "exhaustive: for every width 1..12 (thorough 1..14) every value and every count in -w..2w for rotl/rotr, "
    "every value for reverse_bits/clz/ctz/popcnt/value_to_bits, every integer in [-2^w, 2^(w+1)] for "
    "to_signed/to_unsigned/sign_extend/wrap_negative/inrange; encode_imm32 on all 4096 (rotation, imm8) values, "
    "their +-1 neighbours and one-bit variations; rotate_left/rotate_right on boundary values x all counts; "
    "Hypothesis: widths 16/32/64 and random widths up to 80 with boundary-biased values, random 32-bit and "
    "beyond-32-bit encode_imm32 arguments, the wasm runtime i32/i64 helpers on signed operands, BitView slice "
    "stores. Reference = definitions on strings of bits. non-trivial = top or bottom bit of the value set, or "
    "count is 0 or a multiple of the width; distinct = (function, width, value, count)"
)
ASSUMPTIONS = [
    "domains: rotl/rotr/reverse_bits/clz/ctz/popcnt take 0 <= v < 2^bits, bits >= 1, any integer count (the code "
    "reduces it modulo bits and the wasm runtime passes signed counts); to_signed/to_unsigned/sign_extend take any "
    "integer; rotate_right takes a 32-bit value and 0 <= n <= 32, rotate_left 0 <= n < 32 (its asserts); "
    "wrap_negative accepts exactly the range its error message states, [-2^(bits-1), 2^bits-1]",
    "encode_imm32 is called by the ARM assembler with unchecked user integers, so values outside [0, 2^32) are in "
    "its domain and must be rejected (they are not representable)",
    "wasm runtime helpers take and return the signed representation of i32/i64 (their ir.i32/ir.i64 annotations; "
    "results are passed through to_signed); clz/ctz/popcnt results are small non-negative counts",
]
TRUSTED = ["CPython int/str/format", "Hypothesis", "bit-string reference definitions in vf/props/c39.py"]
REGISTER = True
TECHNIQUE = "exhaustive enumeration for widths <= 12 + Hypothesis for 16/32/64-bit values against bit-string reference definitions"
LEVEL_TEXT = (
    "Exploration, exhaustive for widths 1..12: every helper is evaluated on every value (and every rotation count "
    "from -w to 2w) and compared with a definition written on strings of bits; off-by-one loop bounds show at the "
    "top or bottom bit of some small width, which the enumeration covers completely. 16/32/64-bit behaviour, the "
    "wasm runtime wrappers, BitView and the ARM immediate encoder (all representable values exhaustively, "
    "non-representable ones by neighbourhood and at random) are searched with Hypothesis. Pure functions of two or "
    "three integers: enumeration plus boundary-biased search is the right level."
)

KF_REVERSE = "C39-KF1"
KF_IMM32 = "C39-KF2"

M32 = 2**32


# ---------------------------------------------------------------------------
# reference definitions on bit strings


def bitstr(v, w):
    """w-character binary numeral of 0 <= v < 2^w."""
    s = format(v, "b")
    if v < 0 or len(s) > w:
        raise Discard("value outside 0..2^bits-1")
    return s.rjust(w, "0")


def twos(value, w):
    """The w low digits of the (infinite) two's complement numeral of any integer."""
    if value >= 0:
        return format(value, "b").rjust(w, "0")[-w:]
    # -x  =  complement(x - 1)
    s = format(-value - 1, "b").rjust(w, "0")[-w:]
    return s.translate({48: 49, 49: 48})


def num(s):
    return int(s, 2) if s else 0


def signed_num(s):
    return num(s[1:]) - (2 ** (len(s) - 1) if s[0] == "1" else 0)


def ref_rotl(v, c, w):
    s = bitstr(v, w)
    k = c % w
    return num(s[k:] + s[:k])


def ref_rotr(v, c, w):
    s = bitstr(v, w)
    k = (w - c % w) % w
    return num(s[k:] + s[:k])


def ref_reverse(v, w):
    return num(bitstr(v, w)[::-1])


def ref_clz(v, w):
    s = bitstr(v, w)
    return w - len(s.lstrip("0"))


def ref_ctz(v, w):
    s = bitstr(v, w)
    return w - len(s.rstrip("0"))


def ref_popcnt(v, w):
    return bitstr(v, w).count("1")


def ref_to_unsigned(value, w):
    return num(twos(value, w))


def ref_to_signed(value, w):
    return signed_num(twos(value, w))


def ref_wrap_negative(value, w):
    lo = -signed_num("0" + "1" * (w - 1)) - 1  # -(2^(w-1))
    hi = num("1" * w)
    if lo <= value <= hi:
        return num(twos(value, w))
    return RAISES


def ref_inrange(value, w):
    return signed_num(twos(value, w)) == value


def ref_rotate_right(v, n):
    s = bitstr(v, 32)
    k = (32 - n) % 32
    return num(s[k:] + s[:k])


def ref_rotate_left(v, n):
    s = bitstr(v, 32)
    k = n % 32
    return num(s[k:] + s[:k])


_IMM32 = {}


def imm32_table():
    """value -> set of 12-bit encodings (rotation << 8 | imm8), value = imm8 rotated right by 2*rotation."""
    if not _IMM32:
        for rot in range(16):
            for imm8 in range(256):
                s = format(imm8, "b").rjust(32, "0")
                k = (32 - 2 * rot) % 32
                _IMM32.setdefault(num(s[k:] + s[:k]), set()).add(rot << 8 | imm8)
    return _IMM32


def ref_value_to_bits(v, w):
    return [ch == "1" for ch in reversed(bitstr(v, w))]


def ref_bits_to_bytes(bits):
    s = "".join("1" if b else "0" for b in reversed(bits))
    n = (len(bits) + 7) // 8
    return num(s).to_bytes(n, "little")


def ref_align(value, m):
    return -(-value // m) * m


def ref_bitview(data, begin, length, start, stop, value):
    """Bits start..stop-1 of the little-endian integer data[begin:begin+length] become value."""
    window = data[begin : begin + length]
    s = "".join(format(b, "08b") for b in reversed(window))  # msb first, bit i is s[-1-i]
    total = len(s)
    field = format(value, "b").rjust(stop - start, "0")
    s2 = s[: total - stop] + field + s[total - start :]
    out = bytearray(data)
    out[begin : begin + length] = bytes(int(s2[i : i + 8], 2) for i in range(0, total, 8))[::-1]
    return bytes(out)


RAISES = ("raises",)

WASM_FUNCS = {
    "i32_rotl": (32, ref_rotl, True),
    "i32_rotr": (32, ref_rotr, True),
    "i64_rotl": (64, ref_rotl, True),
    "i64_rotr": (64, ref_rotr, True),
    "i32_clz": (32, ref_clz, False),
    "i64_clz": (64, ref_clz, False),
    "i32_ctz": (32, ref_ctz, False),
    "i64_ctz": (64, ref_ctz, False),
    "i32_popcnt": (32, ref_popcnt, False),
    "i64_popcnt": (64, ref_popcnt, False),
}
WASM_EXTEND = {
    "i32_extend8_s": (32, 8),
    "i32_extend16_s": (32, 16),
    "i64_extend8_s": (64, 8),
    "i64_extend16_s": (64, 16),
    "i64_extend32_s": (64, 32),
}


def _need(cond, why):
    if not cond:
        raise Discard(why)


def expected(fn, args):
    """Reference result of one call (or RAISES); raises Discard outside the domain."""
    if fn in ("rotl", "rotr"):
        v, c, w = args
        _need(w >= 1, "bits < 1")
        return (ref_rotl if fn == "rotl" else ref_rotr)(v, c, w)
    if fn in ("reverse_bits", "clz", "ctz", "popcnt", "value_to_bits"):
        v, w = args
        _need(w >= 1, "bits < 1")
        return {"reverse_bits": ref_reverse, "clz": ref_clz, "ctz": ref_ctz, "popcnt": ref_popcnt, "value_to_bits": ref_value_to_bits}[fn](v, w)
    if fn in ("to_signed", "sign_extend"):
        _need(args[1] >= 1, "bits < 1")
        return ref_to_signed(*args)
    if fn == "to_unsigned":
        _need(args[1] >= 1, "bits < 1")
        return ref_to_unsigned(*args)
    if fn == "wrap_negative":
        _need(args[1] >= 1, "bits < 1")
        return ref_wrap_negative(*args)
    if fn == "inrange":
        _need(args[1] >= 1, "bits < 1")
        return ref_inrange(*args)
    if fn == "rotate_right":
        _need(0 <= args[1] <= 32, "rotate_right count outside 0..32")
        return ref_rotate_right(*args)
    if fn == "rotate_left":
        _need(0 <= args[1] < 32, "rotate_left count outside 0..31 (asserted)")
        return ref_rotate_left(*args)
    if fn == "encode_imm32":
        return "imm32"
    if fn == "bits_to_bytes":
        return ref_bits_to_bytes([bool(b) for b in args[0]])
    if fn == "value_to_bytes_big_endian":
        v, size = args
        _need(0 <= v < 256**size, "value does not fit size bytes")
        return v.to_bytes(size, "big")
    if fn == "align":
        _need(args[1] >= 1 and args[0] >= 0, "align domain")
        return ref_align(*args)
    if fn in WASM_FUNCS:
        w, ref, has_count = WASM_FUNCS[fn]
        _need(-(2 ** (w - 1)) <= args[0] < 2 ** (w - 1), "operand outside the signed range")
        u = ref_to_unsigned(args[0], w)
        if has_count:
            _need(-(2 ** (w - 1)) <= args[1] < 2 ** (w - 1), "count outside the signed range")
            return ref_to_signed(ref(u, args[1], w), w)
        return ref(u, w)
    if fn in WASM_EXTEND:
        w, frm = WASM_EXTEND[fn]
        _need(-(2 ** (w - 1)) <= args[0] < 2 ** (w - 1), "operand outside the signed range")
        return ref_to_signed(args[0], frm)
    if fn == "bitview":
        hexdata, begin, length, start, stop, value = args
        data = bytes.fromhex(hexdata)
        _need(0 <= begin and length >= 1 and begin + length <= len(data), "window outside data")
        _need(0 <= start < stop <= length * 8, "slice outside window")
        _need(0 <= value < 2 ** (stop - start), "value does not fit the slice")
        return ref_bitview(data, begin, length, start, stop, value)
    raise Discard("unknown function %r" % (fn,))


def actual(fn, args):
    """Call the code under test.  Returns the value, or ('raises', exception)."""
    from ppci.utils import bitfun

    try:
        if fn in WASM_FUNCS or fn in WASM_EXTEND:
            from ppci.wasm.execution import runtime

            return getattr(runtime, fn)(*args)
        if fn == "bits_to_bytes":
            return bitfun.bits_to_bytes([bool(b) for b in args[0]])
        if fn == "bitview":
            hexdata, begin, length, start, stop, value = args
            data = bytearray.fromhex(hexdata)
            bv = bitfun.BitView(data, begin, length)
            bv[start:stop] = value
            return bytes(data)
        return getattr(bitfun, fn)(*args)
    except Exception as e:  # noqa: BLE001 - any exception is an observation here
        return ("raises", e)


def check_call(fn, args):
    """None or a failure message for one call."""
    want = expected(fn, args)
    got = actual(fn, args)
    raised = isinstance(got, tuple) and len(got) == 2 and got[0] == "raises"
    if fn == "encode_imm32":
        v = args[0]
        encs = imm32_table().get(v)
        if encs is None:
            if not raised:
                return "encode_imm32(%#x) returned %#x instead of raising: the value is not an 8-bit value rotated right by an even amount" % (v, got)
            return None
        if raised:
            return "encode_imm32(%#x) raised %s: %s, but the value is representable (e.g. as %#05x)" % (v, type(got[1]).__name__, got[1], min(encs))
        if type(got) is not int or got not in encs:
            return "encode_imm32(%#x) returned %r which does not decode back to the value (valid encodings: %s)" % (
                v,
                got,
                ", ".join("%#05x" % e for e in sorted(encs)),
            )
        return None
    if want is RAISES:
        if raised and isinstance(got[1], ValueError):
            return None
        if raised:
            return "%s%r raised %s instead of ValueError" % (fn, tuple(args), type(got[1]).__name__)
        return "%s%r returned %r instead of raising ValueError" % (fn, tuple(args), got)
    if raised:
        return "%s%r raised %s: %s, expected %r" % (fn, tuple(args), type(got[1]).__name__, got[1], want)
    if got != want or type(got) is not type(want):
        return "%s%r returned %r, expected %r" % (fn, tuple(args), got, want)
    return None


def replay(case):
    args = case["args"]
    if case["fn"] == "bits_to_bytes":
        args = [list(args[0])]
    return check_call(case["fn"], list(args))


def classify(case, msg):
    fn, args = case.get("fn"), case.get("args")
    try:
        if fn == "reverse_bits":
            v, w = args
            # the loop stops before position 0: bit w-1 of the input never reaches bit 0 of the result
            if (v >> (w - 1)) & 1:
                want = ref_reverse(v, w)
                if msg == "reverse_bits%r returned %r, expected %r" % ((v, w), want - 1, want):
                    return KF_REVERSE
        if fn == "encode_imm32":
            v = args[0]
            # bits 32 and up are ignored by rotate_right / the 0xFFFFFF00 test
            if v >= M32 and "returned" in msg and "instead of raising" in msg:
                return KF_IMM32
    except Exception:  # noqa: BLE001
        return None
    return None


def nontrivial(fn, args):
    if fn in ("rotl", "rotr"):
        v, c, w = args
        return bool(v & 1 or v >> (w - 1) & 1 or c % w == 0)
    if fn in ("rotate_left", "rotate_right"):
        v, n = args
        return bool(v & 1 or v >> 31 or n % 32 == 0)
    if fn in WASM_FUNCS or fn in WASM_EXTEND:
        w = WASM_FUNCS[fn][0] if fn in WASM_FUNCS else WASM_EXTEND[fn][1]
        v = args[0] % 2**w
        return bool(v & 1 or v >> (w - 1) & 1 or (len(args) > 1 and args[1] % w == 0))
    if fn == "encode_imm32":
        return args[0] >= 256
    if fn == "bitview":
        return args[3] % 8 != 0 or args[4] % 8 != 0
    if fn in ("bits_to_bytes",):
        return len(args[0]) % 8 != 0
    if fn in ("align", "value_to_bytes_big_endian"):
        return args[0] > 0
    v, w = args[0], args[1]
    return bool(v & 1 or (v >> (w - 1)) & 1)


# ---------------------------------------------------------------------------
# exhaustive part


def _enum_calls(w):
    """All calls of the exhaustive domain for width w."""
    for v in range(2**w):
        for c in range(-w, 2 * w + 1):
            yield "rotl", [v, c, w]
            yield "rotr", [v, c, w]
        for fn in ("reverse_bits", "clz", "ctz", "popcnt", "value_to_bits"):
            yield fn, [v, w]
    for value in range(-(2**w), 2 ** (w + 1) + 1):
        for fn in ("to_signed", "to_unsigned", "sign_extend", "wrap_negative", "inrange"):
            yield fn, [value, w]


def _enum_worker(arg):
    shard, nshards, maxw = arg
    stats = Stats()
    fails = []
    hist = {}
    n = nt = 0
    idx = 0
    open_ids = core.open_finding_ids(PID)
    for w in range(1, maxw + 1):
        for fn, args in _enum_calls(w):
            idx += 1
            if idx % nshards != shard:
                continue
            n += 1
            msg = check_call(fn, args)
            if msg:
                case = {"fn": fn, "args": args}
                kid = classify(case, msg)
                if kid and kid in open_ids:
                    stats.known[kid] += 1
                elif len(fails) < 3:
                    fails.append((case, msg))
            if nontrivial(fn, args):
                nt += 1
            k = "enum_%s" % fn
            hist[k] = hist.get(k, 0) + 1
            if shard < 3 and w == 8 + shard and not stats.samples and fn == ("rotl", "to_signed", "clz")[shard] and args[0] % 2**w > 2 ** (w - 1) + 37:
                stats.sample({"fn": fn, "args": args, "expected": expected(fn, args)})
    stats.bulk(n, nt, hist)
    return stats, fails


def _imm32_values():
    """Every representable value, its neighbours, and one-bit variations."""
    table = imm32_table()
    out = set()
    for v in table:
        out.add(v)
        out.add((v + 1) % M32)
        out.add((v - 1) % M32)
        for b in range(0, 32, 3):
            out.add(v ^ (1 << b))
    return sorted(out)


def _imm32_worker(arg):
    shard, nshards = arg
    stats = Stats()
    fails = []
    open_ids = core.open_finding_ids(PID)
    table = imm32_table()
    n = nt = rep = 0
    vals = _imm32_values()
    for v in vals[shard::nshards]:
        n += 1
        msg = check_call("encode_imm32", [v])
        if msg and len(fails) < 3:
            fails.append(({"fn": "encode_imm32", "args": [v]}, msg))
        nt += v >= 256
        rep += v in table
    hist = {"imm32_enum_representable": rep, "imm32_enum_not_representable": n - rep}
    # values beyond 32 bits and negative ones: never representable
    beyond = 0
    for v in vals[shard::nshards][:: 16]:
        for big in (v + M32, v + (M32 << 8), v - M32, -v - 1):
            n += 1
            beyond += 1
            msg = check_call("encode_imm32", [big])
            if msg:
                case = {"fn": "encode_imm32", "args": [big]}
                kid = classify(case, msg)
                if kid and kid in open_ids:
                    stats.known[kid] += 1
                elif len(fails) < 3:
                    fails.append((case, msg))
    hist["imm32_enum_outside_32_bits"] = beyond
    # rotate_left / rotate_right: boundary values, all counts
    bvals = [0, 1, 2, 0x80000000, 0x80000001, 0xFFFFFFFF, 0x7FFFFFFF, 0xFF, 0xFF000000, 0x12345678, 0xDEADBEEF, 0x00010000, 0xFFFF0000, 0xAAAAAAAA, 0x55555555, 0xF000000F]
    v = bvals[shard % len(bvals)]
    for cnt in range(0, 33):
        for fn in ("rotate_right", "rotate_left"):
            if fn == "rotate_left" and cnt == 32:
                continue
            n += 1
            nt += nontrivial(fn, [v, cnt])
            msg = check_call(fn, [v, cnt])
            if msg and len(fails) < 3:
                fails.append(({"fn": fn, "args": [v, cnt]}, msg))
            hist["enum_" + fn] = hist.get("enum_" + fn, 0) + 1
    if shard == 3:
        enc = actual("encode_imm32", [0xFF000000])
        stats.sample({"fn": "encode_imm32", "args": [0xFF000000], "valid_encodings": sorted(table[0xFF000000]), "got": enc if isinstance(enc, int) else repr(enc)})
    stats.bulk(n, nt, hist)
    return stats, fails


# ---------------------------------------------------------------------------
# Hypothesis part


def biased_value(w):
    """Unsigned w-bit values with boundary patterns over-represented."""
    top = 2**w
    edge = st.sampled_from(sorted({e % top for e in (0, 1, 2, top - 1, top - 2, top >> 1, (top >> 1) - 1, (top >> 1) + 1)}))
    onehot = st.integers(0, w - 1).map(lambda b: 1 << b)
    holes = st.integers(0, w - 1).map(lambda b: (top - 1) ^ (1 << b))
    return st.one_of(st.integers(0, top - 1), edge, onehot, holes, st.integers(0, w).map(lambda b: (1 << b) - 1))


def any_int(w):
    """Integers in and a bit beyond the w-bit range, both signs."""
    return st.one_of(
        biased_value(w),
        biased_value(w).map(lambda v: v - 2**w),
        biased_value(w).map(lambda v: v - 2 ** (w - 1)),
        st.integers(-(2 ** (w + 3)), 2 ** (w + 3)),
    )


def signed_value(w):
    return biased_value(w).map(lambda v: v - 2**w if v >= 2 ** (w - 1) else v)


def width():
    return st.one_of(st.sampled_from([16, 32, 64]), st.integers(13, 80))


def count_for(w):
    return st.one_of(st.integers(-w, 2 * w), st.sampled_from([0, w, -w, 2 * w, w - 1, w + 1, 1]), st.integers(-(2**31), 2**31 - 1))


@st.composite
def call_case(draw, exclude):
    kind = draw(
        st.sampled_from(
            ["rot", "rot", "unary", "unary", "conv", "conv", "rot32", "imm32", "imm32", "wasm", "wasm", "wasm_ext", "bitview", "bitview", "bytes", "align"]
        )
    )
    if kind == "rot":
        w = draw(width())
        return {"fn": draw(st.sampled_from(["rotl", "rotr"])), "args": [draw(biased_value(w)), draw(count_for(w)), w]}
    if kind == "unary":
        w = draw(width())
        fn = draw(st.sampled_from(["reverse_bits", "clz", "ctz", "popcnt", "value_to_bits"]))
        v = draw(biased_value(w))
        if fn == "reverse_bits" and KF_REVERSE in exclude and v >> (w - 1):
            v &= (1 << (w - 1)) - 1  # exclusion by construction: top bit clear
            return {"fn": fn, "args": [v, w], "excluded": KF_REVERSE}
        return {"fn": fn, "args": [v, w]}
    if kind == "conv":
        w = draw(width())
        fn = draw(st.sampled_from(["to_signed", "to_unsigned", "sign_extend", "wrap_negative", "inrange"]))
        return {"fn": fn, "args": [draw(any_int(w)), w]}
    if kind == "rot32":
        fn = draw(st.sampled_from(["rotate_left", "rotate_right"]))
        return {"fn": fn, "args": [draw(biased_value(32)), draw(st.integers(0, 31 if fn == "rotate_left" else 32))]}
    if kind == "imm32":
        sub = draw(st.integers(0, 9))
        if sub < 4:
            v = draw(st.integers(0, M32 - 1))
        elif sub < 7:
            # an 8-bit or 9-bit pattern rotated by any amount (odd rotations are mostly not representable)
            pat = draw(st.integers(1, 511))
            r = draw(st.integers(0, 31))
            v = ((pat << r) | (pat >> (32 - r))) % M32 if r else pat
        elif sub < 8:
            v = -draw(st.integers(1, M32))
        else:
            if KF_IMM32 in exclude:
                return {"fn": "encode_imm32", "args": [draw(st.integers(0, 255)) << draw(st.sampled_from([0, 2, 8, 24]))], "excluded": KF_IMM32}
            v = draw(st.integers(0, 0xFFF)) + (draw(st.integers(1, 2**16)) << 32)
        return {"fn": "encode_imm32", "args": [v]}
    if kind == "wasm":
        fn = draw(st.sampled_from(sorted(WASM_FUNCS)))
        w, _, has_count = WASM_FUNCS[fn]
        args = [draw(signed_value(w))]
        if has_count:
            args.append(draw(st.one_of(st.integers(-70, 140), signed_value(w))))
        return {"fn": fn, "args": args}
    if kind == "wasm_ext":
        fn = draw(st.sampled_from(sorted(WASM_EXTEND)))
        w, frm = WASM_EXTEND[fn]
        v = draw(st.one_of(signed_value(w), any_int(frm).filter(lambda x: -(2 ** (w - 1)) <= x < 2 ** (w - 1))))
        return {"fn": fn, "args": [v]}
    if kind == "bitview":
        size = draw(st.integers(1, 8))
        data = draw(st.binary(min_size=size, max_size=size))
        begin = draw(st.integers(0, size - 1))
        length = draw(st.integers(1, min(4, size - begin)))
        start = draw(st.integers(0, length * 8 - 1))
        stop = draw(st.integers(start + 1, length * 8))
        value = draw(biased_value(stop - start))
        return {"fn": "bitview", "args": [data.hex(), begin, length, start, stop, value]}
    if kind == "bytes":
        if draw(st.booleans()):
            return {"fn": "bits_to_bytes", "args": [[int(b) for b in draw(st.lists(st.booleans(), max_size=40))]]}
        size = draw(st.integers(1, 8))
        return {"fn": "value_to_bytes_big_endian", "args": [draw(biased_value(8 * size)), size]}
    return {"fn": "align", "args": [draw(st.integers(0, 5000)), draw(st.one_of(st.integers(1, 40), st.sampled_from([64, 256, 512, 4096])))]}


def _hyp_worker(arg):
    seed, n = arg
    stats = Stats()
    exclude = core.open_finding_ids(PID)

    def prop(case):
        fn, args = case["fn"], case["args"]
        if "excluded" in case:
            stats.excluded[case["excluded"]] += 1
        msg = check_call(fn, args)
        nt = nontrivial(fn, args)
        key = (fn, args)
        sample = None
        good = (
            (fn in ("i64_rotl", "i32_rotr") and args[1] % 32 != 0 and abs(args[0]) > 1000)
            or (fn == "bitview" and args[4] - args[3] > 9 and args[3] % 8 != 0 and args[5] > 1)
            or (fn in ("sign_extend", "wrap_negative") and args[0] < -1)
        )
        if nt and good and not stats.samples:
            want = expected(fn, args)
            sample = {"fn": fn, "args": args, "expected": want.hex() if isinstance(want, bytes) else want}
        stats.case(key, nt, sample, classes=("hyp_" + fn,))
        return msg

    def classify_open(case, msg):
        kid = classify(case, msg)
        return kid if kid in exclude else None

    fails = hyp_search(call_case(exclude), prop, n, seed, stats, classify=classify_open)
    return stats, [({"fn": c["fn"], "args": c["args"]}, m) for c, m in fails]


def _all_worker(arg):
    shard, maxw, seed, n = arg
    stats = Stats()
    fails = []
    for part in (_enum_worker((shard, 16, maxw)), _imm32_worker((shard, 16)), _hyp_worker((seed, n))):
        stats.merge(part[0])
        fails.extend(part[1])
    return stats, fails


def run(ctx):
    maxw = ctx.scale(12, 14)
    n = ctx.scale(16000, 1600000)
    ctx.pmap(_all_worker, [(w, maxw, subseed(ctx.seed, PID, w), n // 16) for w in range(16)])
    ctx.exhaustive = True
    ctx.extra["exhaustive_domain"] = (
        "widths 1..%d: all values x counts -w..2w (rotl, rotr), all values (reverse_bits, clz, ctz, popcnt, value_to_bits), "
        "all integers in [-2^w, 2^(w+1)] (to_signed, to_unsigned, sign_extend, wrap_negative, inrange); "
        "encode_imm32 on all 4096 encodable (rotation, imm8) values" % maxw
    )
