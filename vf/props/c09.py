"""C09 - Assembling an instruction's printed form reproduces its encoding."""

import functools

from .. import isagen as G
from .. import llvmref as L
from ..core import Discard, Stats, hyp_search, open_finding_ids, subseed

PID = "C09"
RULE = (
    "for each of the 15 target configurations (13 ISAs + riscv:rvc, riscv:rvf) and every instruction class with "
    "a syntax, Hypothesis draws instances generically from syntax.formal_arguments (every register of the "
    "declared class, ints from a probed accepted set + interval + edge neighbourhood, label names, constructor "
    "alternatives recursively, register sets); the instance is emitted into a BinaryOutputStream and its "
    "printed text is assembled by the target's assembler into a second object; section bytes and "
    "(relocation type, symbol, section, offset, addend) lists must be equal. non-trivial = the instance has at "
    "least one register / immediate / register-set operand; distinct = (target, class, operand description)"
)
ASSUMPTIONS = [
    "an instance ppci cannot encode or print (encode()/relocations()/str() raises) is outside the domain",
    "two different byte strings are accepted as 'the same encoding' only when they have the same length, carry "
    "the same relocations and the reference disassembler (llvm-mc; objdump for x86-64) decodes both to the "
    "identical instruction text (x86 'add r,r/m' vs 'add r/m,r' for register-register forms); targets "
    "without a reference decoder get no such allowance",
    "two relocation types are accepted as the same when Relocation.apply of both gives identical bytes (or "
    "both raise) on a fixed sample of (symbol value, address) pairs; relaxation eligibility (can_shrink) of "
    "the riscv:rvc relaxable j/jal classes is C13's subject, not compared here",
]
TRUSTED = ["CPython", "Hypothesis", "llvm-mc 14 and GNU objdump (only to accept equivalent encodings)", "vf/isagen.py"]
REGISTER = True
TECHNIQUE = "generated instruction instances of every ISA, print -> assemble round trip compared with direct emission"
LEVEL_TEXT = (
    "Exploration: every instruction class with a syntax of all 15 target configurations is instantiated with "
    "generated operands (all registers, boundary and random immediates, labels, every addressing-mode "
    "constructor) and round-tripped through the real assembler; the comparison is exact on bytes and "
    "relocations. A round trip is the property itself, so no model is needed; the operand space is too large "
    "to enumerate, hence sampling with boundary bias per class."
)

KF_GLUE = "C09-KF1"  # mnemonic glued to first operand in printed form
KF_MNEMONIC = "C09-KF2"  # copy-pasted mnemonic: two classes print alike, encode differently
KF_BRACES = "C09-KF3"  # ARM register set printed without braces
KF_MSP430_CONST = "C09-KF4"  # msp430 constant-generator source re-assembled as immediate
KF_X86_SIZE = "C09-KF5"  # x86 memory operand carries no size: size variants print alike
KF_X86_XMM = "C09-KF6"  # x86 push/pop xmm single vs double print alike
KF_X86_JMPREG = "C09-KF7"  # x86 'jmp reg' assembled as jump to a symbol named like the register

COPIED = {
    # (target family, class id) -> class id the text is resolved to
    ("microblaze", "Idiv#2"): "Idiv",
    ("microblaze", "Pcmpeq#2"): "Pcmpeq",
    ("microblaze", "Sra#2"): "Sra",
    ("microblaze", "Sra#3"): "Sra",
    ("microblaze", "Wic#2"): "Wic",
    ("microblaze", "Rtsd#2"): "Rtsd",
    ("riscv", "bge_ins#2"): "bge_ins",
    ("avr", "Sbci#2"): "Sbci",
    ("arm:thumb", "lsr_ins#2"): "lsr_ins",
    ("xtensa", "Callx0"): "Call0",
}
X86_MEM_CTORS = frozenset(["RmMem", "RmMemDisp", "RmMemDisp2", "RmRip", "RmAbsLabel", "RmAbs"])
X86_XMM_PUSHPOP = frozenset(
    ["PushXmmRegisterDouble", "PopXmmRegisterDouble", "PushXmmRegisterSingle", "PopXmmRegisterSingle"]
)


# ---------------------------------------------------------------------------
# the two sides of the round trip


def summary(obj):
    secs = {s.name: bytes(s.data).hex() for s in obj.sections if s.data or s.name == "code"}
    syms = {s.id: s.name for s in obj.symbols}
    rel = sorted((r.reloc_type, syms[r.symbol_id], r.section, r.offset, r.addend) for r in obj.relocations)
    return secs, rel


def _new_stream(target, record=None):
    from ppci.binutils.objectfile import ObjectFile
    from ppci.binutils.outstream import BinaryOutputStream

    class Rec(BinaryOutputStream):
        depth = 0

        def emit(self, item):
            if record is not None and self.depth == 0:
                record.append(item)
            self.depth += 1
            try:
                super().emit(item)
            finally:
                self.depth -= 1

    obj = ObjectFile(G.arch(target))
    stream = Rec(obj)
    stream.select_section("code")
    if record is not None:
        del record[:]
    return obj, stream


def direct(target, ins):
    obj, stream = _new_stream(target)
    stream.emit(ins)
    return summary(obj)


def via_asm(target, text):
    """-> (summary, [instruction objects the assembler emitted])."""
    from ppci.common import DiagnosticsManager

    rec = []
    obj, stream = _new_stream(target, rec)
    a = G.arch(target).assembler
    a.prepare()
    a.assemble(text, stream, DiagnosticsManager())
    a.flush()
    return summary(obj), [i for i in rec if getattr(type(i), "syntax", None)]


# ---------------------------------------------------------------------------
# equivalence of encodings / relocation types


def _reloc_samples():
    vals = [0, 2, 4, 8, 64, 252, 256, 1020, 1024, 2044, 2048, 4092, 4096, 65532, 65536, 1 << 20, (1 << 20) - 4]
    vals += [(1 << 21) - 4, 1 << 21, (1 << 27) - 4, 1 << 27, (1 << 31) - 4, 1 << 31, 1 << 32]
    out = []
    for v in vals:
        out.append((0x1000 + v, 0x1000))
        out.append((0x80000000, 0x80000000 + v))
    return out


_RSAMPLES = _reloc_samples()


@functools.lru_cache(maxsize=None)
def reloc_types_equivalent(target, name_a, name_b):
    rmap = G.arch(target).isa.relocation_map
    if name_a not in rmap or name_b not in rmap:
        return False
    ca, cb = rmap[name_a], rmap[name_b]

    def run(c, sym, addr, n):
        try:
            r = c("s")
            return bytes(r.apply(sym, bytearray(n), addr))
        except Exception:
            return "raise"

    try:
        n = max(ca.size() if ca.token else 4, cb.size() if cb.token else 4)
    except Exception:
        n = 4
    for sym, addr in _RSAMPLES:
        if run(ca, sym, addr, n) != run(cb, sym, addr, n):
            return False
    return True


def relocs_equivalent(target, ra, rb):
    if len(ra) != len(rb):
        return False
    for a, b in zip(ra, rb):
        if a == b:
            continue
        if a[1:] != b[1:]:
            return False
        if not reloc_types_equivalent(target, a[0], b[0]):
            return False
    return True


def same_meaning(target, ref, got):
    """'same' | 'same-different-length' | None: both code sections decode, under the reference
    disassembler, to the identical instruction text."""
    if not L.has_reference(target):
        return None
    if set(ref[0]) != set(got[0]):
        return None
    verdict = "same"
    for name in ref[0]:
        a, b = bytes.fromhex(ref[0][name]), bytes.fromhex(got[0][name])
        if a == b:
            continue
        if not a or not b:
            return None
        da, db = L.reference_decode(target, [a, b])
        if da is None or db is None:
            return None
        if [t for t, _ in da] != [t for t, _ in db]:
            return None
        if len(a) != len(b):
            verdict = "same-different-length"
    return verdict


# ---------------------------------------------------------------------------
# printed-form repairs used as *models* of known findings


def has_bare_set(ins):
    for fa in ins.syntax.formal_arguments:
        v = getattr(ins, fa._name)
        if isinstance(v, (set, frozenset)) and not str(v).lstrip().startswith("{"):
            return True
    return False


# ---------------------------------------------------------------------------
# evaluation of one case


class Result:
    __slots__ = ("status", "msg", "kf", "text", "klass")

    def __init__(self, status, msg=None, kf=None, text=None, klass=None):
        self.status = status  # "ok" | "equivalent" | "fail"
        self.msg = msg
        self.kf = kf
        self.text = text
        self.klass = klass


def _family(target):
    return "riscv" if target.startswith("riscv") else target


def _try_asm(target, text):
    try:
        return via_asm(target, text), None
    except Exception as e:  # CompilerError, KeyError, ... : the text is not accepted
        return None, "%s: %s" % (type(e).__name__, str(e)[:160])


def evaluate(desc, defer=None):
    target = desc["target"]
    try:
        ins = G.build(desc)
    except G.BuildError as e:
        raise Discard("bad description: %s" % e)
    try:
        text = str(ins)
        ref = direct(target, ins)
    except Exception:
        raise Discard("not encodable")
    causes = []
    res, err = _try_asm(target, text)
    used_text = text
    if (res is None or res[0] != ref) and G.any_glued(ins):
        # the glued text is either rejected or lexed differently ('zeropage3,x' -> label zeropage3)
        t2 = G.render(ins, unglue=True)
        r2, e2 = _try_asm(target, t2)
        if r2 is not None and (res is None or r2[0] == ref):
            causes.append(KF_GLUE)
            if res is not None:
                err = "assembles to %s relocs %s" % res[0]
            res, used_text = r2, t2
    if res is None and has_bare_set(ins):
        t2 = G.render(ins, braces=True)
        r2, e2 = _try_asm(target, t2)
        if r2 is not None:
            causes.append(KF_BRACES)
            res, used_text = r2, t2
    if res is None:
        return Result("fail", "printed form %r of %s is rejected by the %s assembler (%s)" % (text, desc["cls"], target, err), None, text)
    got, emitted = res
    if got == ref:
        if causes:
            return Result(
                "fail",
                "printed form %r of %s is not assembled to the direct encoding by the %s assembler (%s); %r is"
                % (text, desc["cls"], target, err, used_text),
                causes[-1],
                text,
            )
        return Result("ok", text=text)
    # bytes or relocations differ
    msg = "%s %s prints %r; direct emission gives %s relocs %s, assembling the text gives %s relocs %s" % (
        target,
        desc["cls"],
        used_text,
        ref[0],
        ref[1],
        got[0],
        got[1],
    )
    kf = _explain(desc, ins, used_text, emitted)
    if kf:
        causes.append(kf)
        return Result("fail", msg, causes[-1], text)
    if not causes:
        if got[0] == ref[0] and relocs_equivalent(target, ref[1], got[1]):
            return Result("equivalent", text=text, klass="equivalent_relocation_type")
        if got[1] == ref[1] and L.has_reference(target) and _same_shape(ref[0], got[0]):
            if defer is not None:
                defer.append((desc, msg, text, ref, got))
                return Result("pending", text=text, klass="equivalent_encoding")
            if same_meaning(target, ref, got) == "same":
                return Result("equivalent", text=text, klass="equivalent_encoding")
    return Result("fail", msg, None, text)


def _same_shape(a, b):
    return set(a) == set(b) and all(len(a[k]) == len(b[k]) for k in a)


def resolve_deferred(target, pending):
    """Batch version of same_meaning for the deferred cases of one target.
    -> [(desc, msg)] of the cases whose two encodings do NOT decode alike."""
    blobs = []
    for desc, msg, text, ref, got in pending:
        for name in sorted(ref[0]):
            blobs.append(bytes.fromhex(ref[0][name]))
            blobs.append(bytes.fromhex(got[0][name]))
    dec = L.reference_decode(target, blobs) if blobs else []
    bad = []
    k = 0
    for desc, msg, text, ref, got in pending:
        same = True
        for name in sorted(ref[0]):
            da, db = dec[k], dec[k + 1]
            k += 2
            if blobs[k - 2] == blobs[k - 1]:
                continue
            if da is None or db is None or [t for t, _ in da] != [t for t, _ in db]:
                same = False
        if not same:
            bad.append((desc, msg))
    return bad


def _explain(desc, ins, text, emitted):
    """Attribute a byte/relocation difference to an open finding: the assembler resolved the
    text to exactly one instruction J, J prints like the instance, and (I, J) is the pair the
    finding describes."""
    target = desc["target"]
    if len(emitted) != 1:
        return None
    j = emitted[0]
    try:
        if str(j) != str(ins):
            return None
    except Exception:
        return None
    jd = G.describe(target, j)
    if jd is None:
        return None
    fam = _family(target)
    # KF2: copy-pasted mnemonic
    if COPIED.get((fam, desc["cls"])) == jd["cls"] and G.syntax_literals(type(j)) == G.syntax_literals(type(ins)):
        return KF_MNEMONIC
    # KF4: msp430 constant generator
    if target == "msp430" and jd["cls"] == desc["cls"]:
        if "SmallConstSrc" in repr(desc["args"]) and _replace_ctor(desc["args"], "SmallConstSrc", "ConstSrc") == jd["args"]:
            return KF_MSP430_CONST
    if target == "x86_64":
        if jd["cls"] != desc["cls"] and jd["args"] == desc["args"]:
            # same operands, sibling class
            if desc["cls"] in X86_XMM_PUSHPOP and jd["cls"] in X86_XMM_PUSHPOP:
                return KF_X86_XMM
            if G.syntax_literals(type(j)) == G.syntax_literals(type(ins)) and _has_ctor(desc["args"], X86_MEM_CTORS):
                if not _has_ctor(desc["args"], frozenset(["RmReg8", "RmReg16", "RmReg32", "RmReg64"])):
                    return KF_X86_SIZE
        if desc["cls"] == "Jmp" and jd["cls"] == "NearJump":
            a = desc["args"][0]
            if a[0] == "c" and a[1] == "RmReg64" and jd["args"] == [a[2][0][1]]:
                return KF_X86_JMPREG
    return None


def _replace_ctor(args, old, new):
    out = []
    for a in args:
        if isinstance(a, list) and a and a[0] == "c":
            out.append(["c", new if a[1] == old else a[1], _replace_ctor(a[2], old, new)])
        else:
            out.append(a)
    return out


def _has_ctor(args, names):
    for a in args:
        if isinstance(a, list) and a and a[0] == "c":
            if a[1] in names or _has_ctor(a[2], names):
                return True
    return False


def _members(case):
    # {"any_of": [desc, ...]}: instances that print identically -- at most one of them can
    # survive the round trip, whichever rule the parser happens to prefer
    return case["any_of"] if "any_of" in case else [case]


def replay(case):
    for desc in _members(case):
        r = evaluate(desc)
        if r.status == "fail":
            return r.msg
    return None


def classify(case, msg):
    for desc in _members(case):
        try:
            r = evaluate(desc)
        except Discard:
            continue
        if r.status == "fail" and r.msg == msg:
            return r.kf
    return None


# ---------------------------------------------------------------------------
# exclusions by construction (predicates on the syntax declarations of the tree under test)


def class_exclusion(target, cid):
    """Finding id when every instance of the class runs into an open finding."""
    cls = G.class_by_id(target, cid)
    if G.glued(cls):
        return KF_GLUE
    fam = _family(target)
    sib = COPIED.get((fam, cid))
    if sib:
        try:
            if G.syntax_literals(G.class_by_id(target, sib)) == G.syntax_literals(cls):
                return KF_MNEMONIC
        except G.BuildError:
            pass
    if target == "arm":
        from ppci.arch.arm.registers import RegisterSet, R0

        if any(fa._cls is RegisterSet for fa in cls.syntax.formal_arguments) and "{" not in str(RegisterSet([R0])):
            return KF_BRACES
    if target == "x86_64":
        if cid in X86_XMM_PUSHPOP:
            return KF_X86_XMM
    return None


def _all_ctors(cls, depth=0):
    for fa in cls.syntax.formal_arguments:
        if G.kind_of(fa._cls) == "ctor":
            for sub in G.ctor_options(fa._cls):
                if sub.syntax:
                    yield sub
                    if depth < 6:
                        yield from _all_ctors(sub, depth + 1)


def ctor_exclusions(target, cid):
    """{constructor name: finding id} of alternatives that must not be drawn for the class."""
    cls = G.class_by_id(target, cid)
    out = {}
    for sub in _all_ctors(cls):
        if G.glued(sub):
            out[sub.__name__] = KF_GLUE
    if target == "msp430":
        out["SmallConstSrc"] = KF_MSP430_CONST
    if target == "x86_64":
        lits = G.syntax_literals(cls)
        for ocid, ocls in G.instruction_classes(target):
            if ocls is cls or G.syntax_literals(ocls) != lits:
                continue
            fa, fb = cls.syntax.formal_arguments, ocls.syntax.formal_arguments
            if len(fa) != len(fb):
                continue
            shared = False
            compatible = True
            for x, y in zip(fa, fb):
                kx, ky = G.kind_of(x._cls), G.kind_of(y._cls)
                if kx != ky:
                    compatible = False
                elif kx == "ctor":
                    if {s.__name__ for s in G.ctor_options(x._cls)} & {s.__name__ for s in G.ctor_options(y._cls)} & X86_MEM_CTORS:
                        shared = True
                    else:
                        compatible = False
                elif kx == "reg":
                    if not ({r.name for r in G.registers_of(x._cls)} & {r.name for r in G.registers_of(y._cls)}):
                        compatible = False
            if compatible and shared:
                for n in X86_MEM_CTORS:
                    out[n] = KF_X86_SIZE
        if cid == "Jmp":
            try:
                if G.class_by_id(target, "NearJump").syntax.priority <= cls.syntax.priority:
                    out["RmReg64"] = KF_X86_JMPREG
            except G.BuildError:
                pass
    return out


# ---------------------------------------------------------------------------
# the search


def _worker(arg):
    target, k, nchunks, seed, per_target = arg
    allc = [cid for cid, _ in G.instruction_classes(target)]
    cids = allc[k::nchunks]
    n_per_class = max(4, min(40 if per_target <= 2000 else 4000, per_target // max(1, len(allc))))
    stats = Stats()
    if k == 0:
        stats.hist["classes/%s" % target] = len(allc)
    fails = []
    pending = []
    open_ids = open_finding_ids(PID)
    for cid in cids:
        if not G.supported(target, cid):
            stats.discard("unsupported operand kind")
            continue
        kf = class_exclusion(target, cid)
        if kf and kf in open_ids:
            stats.excluded[kf] += 1
            continue
        excl = {n: k_ for n, k_ in ctor_exclusions(target, cid).items() if k_ in open_ids}
        try:
            strat = G.args_strategy(target, cid, exclude_ctors=frozenset(excl))
        except G.BuildError:
            for k in set(excl.values()):
                stats.excluded[k] += 1
            continue
        for k in set(excl.values()):
            stats.excluded[k] += 1

        def prop(args, cid=cid):
            desc = {"target": target, "cls": cid, "args": args}
            r = evaluate(desc, pending)
            nt = G.has_operands(desc)
            stats.case(
                G.key_of(desc),
                nt,
                {"case": desc, "text": r.text} if nt else None,
                classes=(target, "%s/%s" % (target, r.klass or ("fail" if r.status == "fail" else "identical"))),
            )
            return r.msg if r.status == "fail" else None

        def cl(args, msg, cid=cid):
            kf = classify({"target": target, "cls": cid, "args": args}, msg)
            return kf if kf in open_ids else None  # only findings still open may suppress

        found = hyp_search(strat, prop, n_per_class, subseed(seed, cid), stats, classify=cl)
        for args, msg in found:
            fails.append(({"target": target, "cls": cid, "args": args}, msg))
    # equal-length byte differences: one batched reference decode decides "same instruction"
    for desc, msg in resolve_deferred(target, pending)[:5]:
        fails.append((desc, msg))
    return stats, fails


BIG = {"stm8": 4, "x86_64": 6, "msp430": 3, "m68k": 3, "mcs6500": 3, "arm": 2, "microblaze": 2}


def run(ctx):
    per_target = ctx.scale(800, 100000)
    G.configure(thorough=not ctx.quick)
    G.preload()
    tasks = []
    for target in G.TARGETS:
        nchunks = BIG.get(target, 2 if ctx.quick else 4)
        for k in range(nchunks):
            tasks.append((target, k, nchunks, subseed(ctx.seed, PID, target, k), per_target))
    # heavy grammars first; the parent imports the modules (compiled once, inherited by fork),
    # every worker instantiates only the architectures of its own tasks
    order = {"x86_64": 0, "stm8": 1, "msp430": 2, "m68k": 3, "mcs6500": 4}
    tasks.sort(key=lambda t: order.get(t[0], 9))
    ctx.pmap(_worker, tasks)
    ctx.extra["targets_covered"] = list(G.TARGETS)
